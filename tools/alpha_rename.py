#!/venv/bin/python
"""Mechanical robustness probe: rename every local variable of every function of the package (consistently, behaviour
preserving) and run all registered checks on the result.  A check that reports a VIOLATION on the renamed tree depends on a
local variable's *name*; an ANALYSIS-ERROR means it cannot recognise the code any more.  Neither is acceptable for a pure
renaming, so this is a development tool for finding name-dependent rules (it is not part of any registered command).

usage: alpha_rename.py [--suffix _q] [--keep-tree] [--files ak/llparser.py ...] [--only C01 C02 ...] [--suite]

The renamed tree is built under tempfile.mkdtemp() from `git archive HEAD` of /repo and removed afterwards.  Only names that are
local to one function scope are renamed: parameters (callers may pass them by keyword), globals / nonlocals, and names that
also occur inside a nested function, lambda or class body are left alone.
"""
import ast
import json
import os
import shutil
import subprocess
import sys
import tempfile
from concurrent.futures import ThreadPoolExecutor

VERIF = os.path.dirname(os.path.dirname(os.path.abspath(__file__)))
FUNC = (ast.FunctionDef, ast.AsyncFunctionDef)


def rename_function(f, suffix):
    nested = set()
    for n in ast.walk(f):
        if n is not f and isinstance(n, FUNC + (ast.Lambda, ast.ClassDef)):
            for x in ast.walk(n):
                nested.add(id(x))
            nested.discard(id(n)) if False else None
    own = [n for n in ast.walk(f) if id(n) not in nested or (isinstance(n, FUNC + (ast.ClassDef,)) and False)]
    params = {a.arg for a in f.args.args + f.args.kwonlyargs + f.args.posonlyargs}
    if f.args.vararg:
        params.add(f.args.vararg.arg)
    if f.args.kwarg:
        params.add(f.args.kwarg.arg)
    declared = set()
    for n in own:
        if isinstance(n, (ast.Global, ast.Nonlocal)):
            declared.update(n.names)
    in_nested = {x.id for n in ast.walk(f) if id(n) in nested and isinstance(n, ast.Name) for x in [n]}
    # names of nested defs themselves are locals too, but they are called by name: leave them
    nested_defs = {n.name for n in ast.walk(f) if n is not f and isinstance(n, FUNC + (ast.ClassDef,))}
    stores = set()
    for n in own:
        if isinstance(n, ast.Name) and isinstance(n.ctx, (ast.Store, ast.Del)):
            stores.add(n.id)
        if isinstance(n, ast.ExceptHandler) and n.name:
            stores.add(n.name)
    imported = set()
    for n in own:
        if isinstance(n, (ast.Import, ast.ImportFrom)):
            for a in n.names:
                imported.add((a.asname or a.name).split(".")[0])
    todo = stores - params - declared - in_nested - nested_defs - imported - {"_", "__class__"}
    if not todo:
        return 0
    for n in own:
        if isinstance(n, ast.Name) and n.id in todo:
            n.id = n.id + suffix
        if isinstance(n, ast.ExceptHandler) and n.name in todo:
            n.name = n.name + suffix
    return len(todo)


def rename_file(path, suffix):
    src = open(path).read()
    tree = ast.parse(src)
    total = 0
    for n in ast.walk(tree):
        if isinstance(n, FUNC):
            total += rename_function(n, suffix)
    open(path, "w").write(ast.unparse(tree) + "\n")
    return total


def sh(cmd, cwd=None):
    r = subprocess.run(cmd, shell=True, cwd=cwd, capture_output=True, text=True)
    return r.returncode, "\n".join(l for l in (r.stdout + r.stderr).splitlines() if "conda.cli.condarc" not in l)


def main():
    args = sys.argv[1:]
    suffix = "_q"
    if "--suffix" in args:
        suffix = args[args.index("--suffix") + 1]
    files = None
    if "--files" in args:
        i = args.index("--files")
        files = [a for a in args[i + 1:] if not a.startswith("--")]
    only = None
    if "--only" in args:
        i = args.index("--only")
        only = [a for a in args[i + 1:] if not a.startswith("--")]
    scratch = tempfile.mkdtemp(prefix="alpha_")
    try:
        sh(f"git -C /repo archive HEAD | tar -x -C {scratch}")
        n = 0
        for root, _d, fs in os.walk(os.path.join(scratch, "ak")):
            for fn in fs:
                p = os.path.join(root, fn)
                rel = os.path.relpath(p, scratch)
                if fn.endswith(".py") and (files is None or rel in files):
                    n += rename_file(p, suffix)
        print(f"renamed {n} local names (suffix {suffix!r}) in {scratch}")
        if "--suite" in args:
            rc, out = sh("/venv/bin/python -m pytest -q -p no:cacheprovider 2>&1 | tail -2", cwd=scratch)
            print("suite:", out.strip().splitlines()[-1] if out.strip() else rc)
        props = [c["property_id"] for c in json.load(open(os.path.join(VERIF, "MANIFEST.json")))["checks"]]
        if only:
            props = [p for p in props if p in only]

        def one(p):
            rc, out = sh(f"./check {p} --tier quick --no-write --repo {scratch}", cwd=VERIF)
            lines = [l.replace(scratch, "<t>")[:330] for l in out.splitlines() if l.startswith(("REFUTED", "ANALYSIS-ERROR"))]
            return p, rc, lines
        with ThreadPoolExecutor(max_workers=8) as ex:
            for p, rc, lines in ex.map(one, props):
                print(f"{p}: exit={rc}")
                for l in lines[:6]:
                    print("     ", l)
    finally:
        if "--keep-tree" not in args:
            shutil.rmtree(scratch, ignore_errors=True)


main()
