"""Shared by the development probes: respell / rename a scratch tree mechanically (behaviour preserving) before the checks see
it.  VERIF_STRESS="mode1,mode2,..[,rename]" (modes of tools/mech_neutral.py, applied in the order given; `rename` = every local
gets the suffix _q, see tools/alpha_rename.py)."""
import ast
import os

VERIF = os.path.dirname(os.path.dirname(os.path.abspath(__file__)))


def _load(name):
    path = os.path.join(VERIF, "tools", name)
    src = open(path).read().rsplit("\nmain()", 1)[0]
    ns = {"__name__": "tool_" + name[:-3], "__file__": path}
    exec(compile(src, path, "exec"), ns)
    return ns


def stress_tree(root, spec=None):
    spec = spec if spec is not None else os.environ.get("VERIF_STRESS", "")
    modes = [m for m in spec.split(",") if m]
    if not modes:
        return False
    mech = _load("mech_neutral.py")
    al = _load("alpha_rename.py")
    for r, _d, fs in os.walk(os.path.join(root, "ak")):
        for fn in fs:
            if not fn.endswith(".py"):
                continue
            p = os.path.join(r, fn)
            tree = ast.parse(open(p, encoding="utf-8").read())
            for m in modes:
                if m != "rename":
                    tree = mech["MODES"][m]().visit(tree)
                    ast.fix_missing_locations(tree)
            open(p, "w", encoding="utf-8").write(ast.unparse(tree) + "\n")
            if "rename" in modes:
                al["rename_file"](p, "_q")
    return True
