#!/venv/bin/python
"""Re-run all registered quick checks on every stored behaviour-preserving refactoring (/verif/neutral/*): expected exit 0
everywhere; exit 1 = false alarm (listed first), exit 2 = undecided.   usage: neutral_recheck.py [substring ...] [--own]"""
import json, os, shutil, subprocess, sys, tempfile
from concurrent.futures import ThreadPoolExecutor
VERIF = os.path.dirname(os.path.dirname(os.path.abspath(__file__)))


def sh(cmd, cwd=None):
    r = subprocess.run(cmd, shell=True, cwd=cwd, capture_output=True, text=True)
    return r.returncode, "\n".join(l for l in (r.stdout + r.stderr).splitlines() if "conda.cli.condarc" not in l)


def one(d, props, own):
    base = os.path.join(VERIF, "neutral", d)
    meta = json.load(open(os.path.join(base, "meta.json")))
    scratch = tempfile.mkdtemp(prefix="neutralrc_")
    try:
        sh(f"git -C /repo archive HEAD | tar -x -C {scratch}")
        rc, out = sh(f"patch -p1 -s < {os.path.join(base, 'patch.diff')}", cwd=scratch)
        if rc != 0:
            return f"{d}: patch does not apply: {out[:150]}"
        alarms, und = {}, {}
        sys.path.insert(0, os.path.join(VERIF, "tools"))
        import stress
        stressed = stress.stress_tree(scratch)
        for p in ([meta["property"]] if own else props):
            rc, out = sh(f"./check {p} --tier quick --no-write --repo {scratch}", cwd=VERIF)
            lines = [l[:300].replace(scratch, "<scratch>") for l in out.splitlines() if l.startswith(("REFUTED", "ANALYSIS-ERROR"))][:2]
            if rc == 1:
                alarms[p] = lines
            elif rc == 2:
                und[p] = lines
        if not own and not stressed:
            meta["alarms"], meta["undecided"] = alarms, und
            meta["silent"] = [p for p in props if p not in alarms and p not in und]
            json.dump(meta, open(os.path.join(base, "meta.json"), "w"), indent=1)
        return f"{d}: ALARMS={sorted(alarms)} undecided={sorted(und)}" + "".join(f"\n      {k}: {v[0][:230]}" for k, v in list(alarms.items()) + list(und.items()) if v)
    finally:
        shutil.rmtree(scratch, ignore_errors=True)


def main():
    args = sys.argv[1:]
    own = "--own" in args
    only = [a for a in args if not a.startswith("--")]
    props = [c["property_id"] for c in json.load(open(os.path.join(VERIF, "MANIFEST.json")))["checks"]]
    ds = [d for d in sorted(os.listdir(os.path.join(VERIF, "neutral"))) if os.path.exists(os.path.join(VERIF, "neutral", d, "meta.json")) and (not only or any(o in d for o in only))]
    with ThreadPoolExecutor(max_workers=10) as ex:
        for line in ex.map(lambda d: one(d, props, own), ds):
            print(line, flush=True)


main()
