#!/venv/bin/python
"""Record a behaviour-preserving refactoring produced in a scratch worktree under /verif/neutral/<id>/ and run every registered
quick check on it.  Expected verdict: exit 0 everywhere (an exit 1 is a false alarm of the check - or the refactoring is not
neutral after all, which must be shown; an exit 2 means the refactored code is outside what the check can decide).

usage: neutral_eval.py <id> <property> <worktree>
"""
import json
import os
import shutil
import subprocess
import sys
import tempfile
from concurrent.futures import ThreadPoolExecutor

VERIF = os.path.dirname(os.path.dirname(os.path.abspath(__file__)))


def sh(cmd, cwd=None, timeout=900):
    r = subprocess.run(cmd, shell=True, cwd=cwd, capture_output=True, text=True, timeout=timeout)
    return r.returncode, "\n".join(l for l in (r.stdout + r.stderr).splitlines() if "conda.cli.condarc" not in l)


def main():
    nid, prop, wt = sys.argv[1:4]
    dest = os.path.join(VERIF, "neutral", nid)
    os.makedirs(dest, exist_ok=True)
    rc, diff = sh("git diff -- ak bin", cwd=wt)
    if not diff.strip():
        print("no diff in worktree")
        return 2
    open(os.path.join(dest, "patch.diff"), "w").write(diff + "\n")
    for f in ("NOTES.md", "EQUIV.py"):
        if os.path.exists(os.path.join(wt, f)):
            shutil.copy(os.path.join(wt, f), os.path.join(dest, f))
    rc, out = sh("/venv/bin/python -m pytest -q -p no:cacheprovider 2>&1 | tail -1", cwd=wt)
    suite = out.strip().splitlines()[-1] if out.strip() else ""
    equiv = None
    if os.path.exists(os.path.join(wt, "EQUIV.py")):
        rc2, out2 = sh("/venv/bin/python EQUIV.py 2>&1 | tail -3", cwd=wt)
        equiv = {"exit": rc2, "tail": out2[-300:]}
    scratch = tempfile.mkdtemp(prefix="neutral_")
    try:
        sh(f"git -C /repo archive HEAD | tar -x -C {scratch}")
        rc, out = sh(f"patch -p1 -s < {os.path.join(dest, 'patch.diff')}", cwd=scratch)
        assert rc == 0, out
        props = [c["property_id"] for c in json.load(open(os.path.join(VERIF, "MANIFEST.json")))["checks"]]

        def run(p):
            rc, out = sh(f"./check {p} --tier quick --no-write --repo {scratch}", cwd=VERIF)
            lines = [l[:400].replace(scratch, "<scratch>") for l in out.splitlines() if l.startswith(("REFUTED", "ANALYSIS-ERROR"))][:3]
            return p, rc, lines
        with ThreadPoolExecutor(max_workers=10) as ex:
            res = list(ex.map(run, props))
    finally:
        shutil.rmtree(scratch, ignore_errors=True)
    meta = {"id": nid, "property": prop, "kind": "behaviour-preserving refactoring (fresh sub-agent: property text + anchors + scratch worktree only)",
            "suite_with_change": suite, "equiv_script": equiv,
            "alarms": {p: l for p, rc, l in res if rc == 1}, "undecided": {p: l for p, rc, l in res if rc == 2},
            "silent": [p for p, rc, l in res if rc == 0]}
    json.dump(meta, open(os.path.join(dest, "meta.json"), "w"), indent=1)
    print(json.dumps({k: meta[k] for k in ("id", "suite_with_change", "equiv_script", "alarms", "undecided")}, indent=1)[:1800])


main()
