#!/venv/bin/python
"""Refresh /verif/reference/: the snapshot of the package sources the rules were written against (used by sa/alpha.py to
normalise the names of local variables; see DESIGN.md 9.11).  Run after a `fix:` commit in /repo, then re-run every check."""
import os
import shutil
import subprocess

VERIF = os.path.dirname(os.path.dirname(os.path.abspath(__file__)))
ref = os.path.join(VERIF, "reference")
shutil.rmtree(ref, ignore_errors=True)
os.makedirs(ref)
subprocess.run(f"git -C /repo archive HEAD ak bin | tar -x -C {ref}", shell=True, check=True)
for root, _d, fs in os.walk(ref):
    for f in fs:
        if not f.endswith(".py"):
            os.remove(os.path.join(root, f))
open(os.path.join(ref, "COMMIT"), "w").write(subprocess.run("git -C /repo rev-parse HEAD", shell=True, capture_output=True, text=True).stdout)
print("reference refreshed from", open(os.path.join(ref, "COMMIT")).read().strip())
