#!/venv/bin/python
"""Store the *repaired* form of a seeded rewrite as a behaviour-preserving change under /verif/neutral/nf-<seed>/ : the same
rewrite with the one defective detail corrected (by hand, in a scratch tree).  Kept only when the repository's suite passes on
the tree and the seed's own DEMO.py exits 0 on it.
usage: store_repaired.py <seed dir name> <scratch tree with the repaired rewrite> "<what was repaired>" """
import json
import os
import shutil
import subprocess
import sys
import tempfile

VERIF = os.path.dirname(os.path.dirname(os.path.abspath(__file__)))


def sh(cmd, cwd=None):
    r = subprocess.run(cmd, shell=True, cwd=cwd, capture_output=True, text=True)
    return r.returncode, (r.stdout + r.stderr)


def main():
    seed, tree, what = sys.argv[1:4]
    meta = json.load(open(os.path.join(VERIF, "seeded", seed, "meta.json")))
    prop = meta["property"]
    rc, out = sh("/venv/bin/python -m pytest -q -p no:cacheprovider 2>&1 | tail -1", cwd=tree)
    suite = out.strip().splitlines()[-1] if out.strip() else ""
    shutil.copy(os.path.join(VERIF, "seeded", seed, "DEMO.py"), os.path.join(tree, "DEMO.py"))
    rc_demo, out_demo = sh("/venv/bin/python DEMO.py", cwd=tree)
    os.remove(os.path.join(tree, "DEMO.py"))
    if "passed" not in suite or "failed" in suite or rc_demo != 0:
        print("NOT stored: suite:", suite, "demo exit:", rc_demo, out_demo[-300:])
        return 1
    clean = tempfile.mkdtemp(prefix="clean_")
    try:
        sh(f"git -C /repo archive HEAD | tar -x -C {clean}")
        rc, diff = sh(f"diff -ruN -x __pycache__ -x '*.pyc' {clean}/ak {tree}/ak")
        diff = diff.replace(clean + "/", "a/").replace(tree + "/", "b/")
    finally:
        shutil.rmtree(clean, ignore_errors=True)
    name = "nf-" + seed.split("-")[0] + "-" + prop
    dest = os.path.join(VERIF, "neutral", name)
    os.makedirs(dest, exist_ok=True)
    open(os.path.join(dest, "patch.diff"), "w").write(diff)
    open(os.path.join(dest, "NOTES.md"), "w").write(f"Repaired form of the seeded rewrite {seed}: {what}\n\nThe rest of the rewrite is the sub-agent's, unchanged. "
                                                   f"Suite on the repaired tree: {suite}; the seed's DEMO.py exits 0 on it.\n")
    json.dump({"id": name, "property": prop, "kind": f"repaired form of the seeded rewrite {seed} (same rewrite, defective detail corrected by hand)",
               "suite_with_change": suite, "equiv_script": {"exit": rc_demo, "tail": out_demo.strip().splitlines()[-1][:200] if out_demo.strip() else ""},
               "repaired": what}, open(os.path.join(dest, "meta.json"), "w"), indent=1)
    print("stored", name)
    return 0


sys.exit(main())
