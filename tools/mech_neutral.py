#!/venv/bin/python
"""Mechanical behaviour-preserving rewrites of the whole package, to find rules that depend on how a condition is spelled.
Development probe like tools/alpha_rename.py (not part of any registered command).

usage: mech_neutral.py <mode> [--suite] [--only C01 ...] [--keep-tree]
modes:
  flip-compare   a < b -> b > a, a <= b -> b >= a, a == b -> b == a, a != b -> b != a   (operands that are names, attribute
                 paths, constants, subscripts of those, or len(<such>): evaluation order cannot matter)
  swap-if-else   if c: A else: B  ->  if not c: B else: A        (plain if/else only, no elif chains; `not not` avoided)
  not-in         a not in b -> not (a in b) ;  a is not b -> not (a is b)
  return-else    if c: <..return>  <rest>   ->   if c: <..return> else: <rest>      (function bodies, last if with a return)
  split-and / merge-if / comp-to-loop / guard-continue / de-morgan / ifexp-swap / extract-test: see the class docstrings
The rewritten tree is built under tempfile.mkdtemp() from `git archive HEAD` of /repo and removed afterwards.
"""
import ast
import json
import os
import shutil
import subprocess
import sys
import tempfile
from concurrent.futures import ThreadPoolExecutor

VERIF = os.path.dirname(os.path.dirname(os.path.abspath(__file__)))


def simple(e):
    if isinstance(e, (ast.Name, ast.Constant)):
        return True
    if isinstance(e, ast.Attribute):
        return simple(e.value)
    if isinstance(e, ast.Subscript):
        return simple(e.value) and simple(e.slice)
    if isinstance(e, ast.UnaryOp) and isinstance(e.op, ast.USub):
        return simple(e.operand)
    if isinstance(e, ast.Call) and isinstance(e.func, ast.Name) and e.func.id == "len" and len(e.args) == 1 and not e.keywords:
        return simple(e.args[0])
    if isinstance(e, ast.BinOp) and isinstance(e.op, (ast.Add, ast.Sub)):
        return simple(e.left) and simple(e.right)
    return False


class Flip(ast.NodeTransformer):
    n = 0

    def visit_Compare(self, node):
        self.generic_visit(node)
        if len(node.ops) == 1 and simple(node.left) and simple(node.comparators[0]):
            m = {ast.Lt: ast.Gt, ast.Gt: ast.Lt, ast.LtE: ast.GtE, ast.GtE: ast.LtE, ast.Eq: ast.Eq, ast.NotEq: ast.NotEq}
            t = m.get(type(node.ops[0]))
            if t is not None and not (isinstance(node.comparators[0], ast.Constant) and node.comparators[0].value is None):
                Flip.n += 1
                return ast.copy_location(ast.Compare(left=node.comparators[0], ops=[t()], comparators=[node.left]), node)
        return node


class NotIn(ast.NodeTransformer):
    n = 0

    def visit_Compare(self, node):
        self.generic_visit(node)
        if len(node.ops) == 1 and isinstance(node.ops[0], (ast.NotIn, ast.IsNot)):
            NotIn.n += 1
            pos = ast.In() if isinstance(node.ops[0], ast.NotIn) else ast.Is()
            return ast.copy_location(ast.UnaryOp(op=ast.Not(), operand=ast.Compare(left=node.left, ops=[pos], comparators=node.comparators)), node)
        return node


def negate(t):
    if isinstance(t, ast.UnaryOp) and isinstance(t.op, ast.Not):
        return t.operand
    if isinstance(t, ast.Compare) and len(t.ops) == 1:
        m = {ast.Eq: ast.NotEq, ast.NotEq: ast.Eq, ast.Is: ast.IsNot, ast.IsNot: ast.Is, ast.In: ast.NotIn, ast.NotIn: ast.In,
             ast.Lt: ast.GtE, ast.GtE: ast.Lt, ast.Gt: ast.LtE, ast.LtE: ast.Gt}
        return ast.copy_location(ast.Compare(left=t.left, ops=[m[type(t.ops[0])]()], comparators=t.comparators), t)
    return ast.copy_location(ast.UnaryOp(op=ast.Not(), operand=t), t)


class SwapIf(ast.NodeTransformer):
    n = 0

    def visit_If(self, node):
        self.generic_visit(node)
        if node.orelse and not (len(node.orelse) == 1 and isinstance(node.orelse[0], ast.If)):
            # comparisons of ordered values are negated by the complementary operator only for total orders; keep to
            # equality / identity / membership / truthiness tests
            t = node.test
            ok = not (isinstance(t, ast.Compare) and isinstance(t.ops[0], (ast.Lt, ast.LtE, ast.Gt, ast.GtE)))
            if ok:
                SwapIf.n += 1
                return ast.copy_location(ast.If(test=negate(t), body=node.orelse, orelse=node.body), node)
        return node


def always_leaves(stmts):
    if not stmts:
        return False
    last = stmts[-1]
    if isinstance(last, (ast.Return, ast.Raise, ast.Continue, ast.Break)):
        return True
    if isinstance(last, ast.If) and last.orelse:
        return always_leaves(last.body) and always_leaves(last.orelse)
    return False


class ReturnElse(ast.NodeTransformer):
    n = 0

    def _block(self, stmts):
        for i, st in enumerate(stmts):
            if isinstance(st, ast.If) and not st.orelse and always_leaves(st.body) and i + 1 < len(stmts) and not any(
                    isinstance(x, (ast.FunctionDef, ast.ClassDef)) for x in stmts[i + 1:]):
                ReturnElse.n += 1
                new = ast.copy_location(ast.If(test=st.test, body=st.body, orelse=self._block(stmts[i + 1:])), st)
                return stmts[:i] + [new]
        return stmts

    def generic_visit(self, node):
        super().generic_visit(node)
        for f in ("body", "orelse", "finalbody"):
            v = getattr(node, f, None)
            if isinstance(v, list) and v and isinstance(v[0], ast.stmt) and not isinstance(node, ast.ClassDef) and not isinstance(node, ast.Module):
                setattr(node, f, self._block(v))
        return node


class SplitAnd(ast.NodeTransformer):
    """if a and b: BODY   (no else)  ->  if a: if b: BODY"""
    n = 0

    def visit_If(self, node):
        self.generic_visit(node)
        if not node.orelse and isinstance(node.test, ast.BoolOp) and isinstance(node.test.op, ast.And) and len(node.test.values) >= 2:
            SplitAnd.n += 1
            inner = node.body
            for v in reversed(node.test.values[1:]):
                inner = [ast.copy_location(ast.If(test=v, body=inner, orelse=[]), node)]
            return ast.copy_location(ast.If(test=node.test.values[0], body=inner, orelse=[]), node)
        return node


class MergeIf(ast.NodeTransformer):
    """if a: if b: BODY  (neither has an else, nothing else in the outer body)  ->  if a and b: BODY"""
    n = 0

    def visit_If(self, node):
        self.generic_visit(node)
        if not node.orelse and len(node.body) == 1 and isinstance(node.body[0], ast.If) and not node.body[0].orelse:
            MergeIf.n += 1
            a, b = node.test, node.body[0].test
            vals = (a.values if isinstance(a, ast.BoolOp) and isinstance(a.op, ast.And) else [a]) + (b.values if isinstance(b, ast.BoolOp) and isinstance(b.op, ast.And) else [b])
            return ast.copy_location(ast.If(test=ast.BoolOp(op=ast.And(), values=vals), body=node.body[0].body, orelse=[]), node)
        return node


class CompToLoop(ast.NodeTransformer):
    """name = [elt for x in it if c]   ->   name = []; for x in it: if c: name.append(elt)      (statement level, one generator,
    the target name not used inside the comprehension)"""
    n = 0

    def _expand(self, st):
        v = getattr(st, "value", None)
        if isinstance(st, ast.Assign) and len(st.targets) == 1 and isinstance(st.targets[0], ast.Name) and isinstance(v, ast.ListComp) and len(v.generators) == 1 \
                and not v.generators[0].is_async and st.targets[0].id not in {x.id for x in ast.walk(v) if isinstance(x, ast.Name)}:
            g = v.generators[0]
            # the loop variable leaks into the function scope: only when it is not used elsewhere - approximated by a fresh-looking check
            name = st.targets[0].id
            body = [ast.Expr(value=ast.Call(func=ast.Attribute(value=ast.Name(id=name, ctx=ast.Load()), attr="append", ctx=ast.Load()), args=[v.elt], keywords=[]))]
            for c in reversed(g.ifs):
                body = [ast.If(test=c, body=body, orelse=[])]
            loop = ast.For(target=g.target, iter=g.iter, body=body, orelse=[])
            init = ast.Assign(targets=[ast.Name(id=name, ctx=ast.Store())], value=ast.List(elts=[], ctx=ast.Load()))
            CompToLoop.n += 1
            return [ast.copy_location(init, st), ast.copy_location(loop, st)]
        return [st]

    def generic_visit(self, node):
        super().generic_visit(node)
        if isinstance(node, (ast.FunctionDef, ast.AsyncFunctionDef, ast.If, ast.For, ast.While, ast.With, ast.Try)):
            for f in ("body", "orelse", "finalbody"):
                v = getattr(node, f, None)
                if isinstance(v, list) and v and isinstance(v[0], ast.stmt):
                    out = []
                    scope_names = None
                    for st in v:
                        out.extend(self._expand(st))
                    setattr(node, f, out)
        return node


class GuardContinue(ast.NodeTransformer):
    """for ..: <pre..> if c: BODY      (the if is the last statement of the loop body, no else, BODY does not end the loop body
    specially)   ->   for ..: <pre..> if not c: continue  BODY"""
    n = 0

    def _loop(self, node):
        self.generic_visit(node)
        if node.body and isinstance(node.body[-1], ast.If) and not node.body[-1].orelse and not node.orelse:
            last = node.body[-1]
            t = last.test
            if not (isinstance(t, ast.Compare) and isinstance(t.ops[0], (ast.Lt, ast.LtE, ast.Gt, ast.GtE))) and not any(
                    isinstance(x, (ast.FunctionDef, ast.ClassDef)) for x in last.body):
                GuardContinue.n += 1
                guard = ast.copy_location(ast.If(test=negate(t), body=[ast.copy_location(ast.Continue(), last)], orelse=[]), last)
                node.body[-1:] = [guard] + last.body
        return node
    visit_For = _loop
    visit_While = _loop


class DeMorgan(ast.NodeTransformer):
    """not (a and b) -> not a or not b ; not (a or b) -> not a and not b   (and the tests of if/while written as a conjunction
    of negatable parts get the outer-negation form:  a and b  ->  not (not a or not b) is NOT produced - only the first direction)"""
    n = 0

    def visit_UnaryOp(self, node):
        self.generic_visit(node)
        if isinstance(node.op, ast.Not) and isinstance(node.operand, ast.BoolOp):
            b = node.operand
            if all(not (isinstance(v, ast.Compare) and isinstance(v.ops[0], (ast.Lt, ast.LtE, ast.Gt, ast.GtE))) for v in b.values):
                DeMorgan.n += 1
                op = ast.Or() if isinstance(b.op, ast.And) else ast.And()
                return ast.copy_location(ast.BoolOp(op=op, values=[negate(v) for v in b.values]), node)
        return node


class IfExpSwap(ast.NodeTransformer):
    """a if c else b  ->  b if not c else a"""
    n = 0

    def visit_IfExp(self, node):
        self.generic_visit(node)
        t = node.test
        if not (isinstance(t, ast.Compare) and isinstance(t.ops[0], (ast.Lt, ast.LtE, ast.Gt, ast.GtE))):
            IfExpSwap.n += 1
            return ast.copy_location(ast.IfExp(test=negate(t), body=node.orelse, orelse=node.body), node)
        return node


class ElifNest(ast.NodeTransformer):
    """if a: A elif b: B else: C   is already   if a: A else: (if b: B else: C)  in the tree; this mode makes the nesting
    explicit where it matters to a reader of the unparsed text: the inner `if` is followed by a `pass`-free marker - no-op in the
    tree, so it only checks that nothing depends on the unparser's elif rendering (kept for completeness)"""
    n = 0


class ExtractTest(ast.NodeTransformer):
    """if <compound test>: ..   ->   cond_x = <test>; if cond_x: ..     (statement-level `if` with a BoolOp / Compare test whose
    evaluation has no side effects: names, attributes, constants, subscripts, len/isinstance calls)"""
    n = 0

    def _pure(self, e):
        for x in ast.walk(e):
            if isinstance(x, ast.Call) and not (isinstance(x.func, ast.Name) and x.func.id in ("len", "isinstance", "hasattr")):
                return False
            if isinstance(x, (ast.NamedExpr, ast.Await, ast.Yield, ast.YieldFrom, ast.Lambda, ast.ListComp, ast.SetComp, ast.DictComp, ast.GeneratorExp)):
                return False
        return True

    def _block(self, stmts):
        out = []
        for st in stmts:
            if isinstance(st, ast.If) and isinstance(st.test, (ast.BoolOp, ast.Compare)) and self._pure(st.test):
                ExtractTest.n += 1
                nm = f"cond_{ExtractTest.n}"
                out.append(ast.copy_location(ast.Assign(targets=[ast.Name(id=nm, ctx=ast.Store())], value=st.test), st))
                st.test = ast.copy_location(ast.Name(id=nm, ctx=ast.Load()), st.test)
            out.append(st)
        return out

    def generic_visit(self, node):
        super().generic_visit(node)
        if isinstance(node, (ast.FunctionDef, ast.AsyncFunctionDef, ast.If, ast.For, ast.While, ast.With, ast.Try, ast.ExceptHandler)):
            for f in ("body", "orelse", "finalbody"):
                v = getattr(node, f, None)
                if isinstance(v, list) and v and isinstance(v[0], ast.stmt):
                    # an elif chain must stay a chain: `orelse` consisting of a single If is left alone
                    if f == "orelse" and isinstance(node, ast.If) and len(v) == 1 and isinstance(v[0], ast.If):
                        continue
                    setattr(node, f, self._block(v))
        return node


MODES = {"guard-continue": GuardContinue, "de-morgan": DeMorgan, "ifexp-swap": IfExpSwap, "extract-test": ExtractTest,
         "flip-compare": Flip, "swap-if-else": SwapIf, "not-in": NotIn, "return-else": ReturnElse, "split-and": SplitAnd, "merge-if": MergeIf, "comp-to-loop": CompToLoop}


def sh(cmd, cwd=None):
    r = subprocess.run(cmd, shell=True, cwd=cwd, capture_output=True, text=True)
    return r.returncode, "\n".join(l for l in (r.stdout + r.stderr).splitlines() if "conda.cli.condarc" not in l)


def main():
    args = sys.argv[1:]
    mode = args[0]
    T = MODES[mode]
    only = None
    if "--only" in args:
        i = args.index("--only")
        only = [a for a in args[i + 1:] if not a.startswith("--")]
    scratch = tempfile.mkdtemp(prefix="mech_")
    try:
        sh(f"git -C /repo archive HEAD | tar -x -C {scratch}")
        for root, _d, fs in os.walk(os.path.join(scratch, "ak")):
            for fn in fs:
                if fn.endswith(".py"):
                    p = os.path.join(root, fn)
                    tree = ast.parse(open(p).read())
                    tree = T().visit(tree)
                    ast.fix_missing_locations(tree)
                    open(p, "w").write(ast.unparse(tree) + "\n")
        print(f"{mode}: {T.n} rewrites in {scratch}")
        if "--suite" in args:
            rc, out = sh("/venv/bin/python -m pytest -q -p no:cacheprovider 2>&1 | tail -2", cwd=scratch)
            print("suite:", out.strip().splitlines()[-1] if out.strip() else rc)
        props = [c["property_id"] for c in json.load(open(os.path.join(VERIF, "MANIFEST.json")))["checks"]]
        if only:
            props = [p for p in props if p in only]

        def one(p):
            rc, out = sh(f"./check {p} --tier quick --no-write --repo {scratch}", cwd=VERIF)
            lines = [l.replace(scratch, "<t>")[:300] for l in out.splitlines() if l.startswith(("REFUTED", "ANALYSIS-ERROR"))]
            return p, rc, lines
        with ThreadPoolExecutor(max_workers=8) as ex:
            for p, rc, lines in ex.map(one, props):
                print(f"{p}: exit={rc}")
                for l in lines[:5]:
                    print("     ", l)
    finally:
        if "--keep-tree" not in args:
            shutil.rmtree(scratch, ignore_errors=True)


main()
