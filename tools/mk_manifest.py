#!/venv/bin/python
"""Regenerate MANIFEST.json from the table below (claimed = a rules/cNN.py exists and is listed in CLAIMED)."""
import json, os, sys
HERE = os.path.dirname(os.path.dirname(os.path.abspath(__file__)))

# property -> (technique, level text, level note, DESIGN section)
CLAIMED = {
 "C16": ("static lock-discipline / who-may-write / who-may-call analysis over the AST",
         "Decides the property for every interleaving by lock discipline: all updates and value-reads of the request counter are inside the one lock region, the lock and counter are per implementation object and shared by all derived connections, the generator has one guarded call site, and the id format is injective in the counter. Static rules quantify over program points, so no schedule is missed; every clause of the statement is covered (D in DESIGN 3/C16).",
         "Trusts CPython `with lock` semantics and that urllib sends the header dict it is given; header-name case folding inside urllib is not analysed.", "3/C16"),
 "C20": ("constant folding + radix-conversion normal-form recognition + guard dominance + exception-escape analysis",
         "Decides the encoding almost completely: alphabet (57 distinct symbols) and inverse map by constant folding, capacity 57**22 >= 2**128, encoder/decoder recognised as matching radix conversions (digit order, base, padding side), guards dominating the decoder, and the set of exceptions that can escape for str inputs. Given those, bijectivity is the positional-numeral theorem.",
         "Trusts the positional-numeral theorem and the documented ValueError behaviour of uuid.UUID; an encoder/decoder rewritten with a different algorithm ends in ANALYSIS-ERROR (undecided), not in a verdict.", "3/C20"),
 "C09": ("string-shape analysis of the emitter + re._parser AST of the stripping pattern, decided by automata inclusion; pairing / guard / sibling-agreement rules; polynomial normal forms",
         "Decides the strippable / self-contained / no_color / bytes=text / invalid=>ValueError clauses for every colour specification: the regular language of everything the package can emit is computed from the source and shown to be included in (and matched exactly by) the stripping pattern; prefix/suffix pairing with the reset, construction-site pairing, guard of every code append by `not no_color`, and the numeric tables (names, cube polynomial, grey ramp, range checks, effect codes) against the SGR/xterm oracle.",
         "Oracle is the ECMA-48 SGR / xterm-256 grammar, not a terminal; TypeError for ill-typed colour containers is not decided; assumes visible text has no ESC (as the property states).", "3/C09"),
 "C15": ("taint / non-interference over def-use closures, per-branch placeholder-value pairing, constant folding of clause tables, finite abstract interpretation of the operator normalisation",
         "Decides the second sentence of the property completely (values never reach the SQL text; one placeholder per bound value in matching order) for every condition tree, because the rule quantifies over data-flow paths of the three make_text_update_values implementations and _execute, not over sampled values; and decides the operator normalisation (=/!= with None or a collection, empty IN / NOT IN, NULL tests, unsupported operators) exhaustively over a finite abstract domain of 17 operator spellings x 11 value kinds.",
         "The row set under SQL three-valued logic (first sentence) needs a database and is NOT decided, only its finite normalisation table is. Field names, static condition strings, SELECT text, group_by and _order_by are programmer-supplied SQL by design.", "3/C15"),
 "C17": ("kind-domain abstract interpretation of the adapter-argument chain, fresh/alias + in-place-effect analysis, ordering and sibling-agreement rules over the AST",
         "Decides the no-side-effect and composition clauses for every chain and request: adapter arguments of every kind end as a flat list (finite abstract domain, exhaustive), the only in-place mutations during request processing hit the header copy, adapter lists are fresh per connection, clones and per-prefix caches are per object, request adapters run forward and response processors reversed with own-before-parent order, auth adapters follow the absent-then-set discipline with b64(id:secret), and the urllib Request is wired from its namesakes.",
         "URL and body encoding values (urlencode, json.dumps, utf-8) are not decided; urllib/json/base64 are trusted not to mutate their arguments.", "3/C17"),
 "C19": ("effect / must-fact / loop-structure analysis of the eager transitive registration, must-pass-through on the CFG of add_argument, sibling agreement of parser-creation sites",
         "Decides, for every acyclic parent declaration, the mechanism the property rests on: the transitive closure is wired (new parser registered in each parent and in every earlier parser that has the parent as dependent, then entered into the registry), every insert that can repeat a (receiver, key) pair is guarded or the primitive is idempotent (diamonds / ancestor-and-descendant parents), options always reach argparse and are forwarded once to each dependent, both creation sites inherit the common options, parents are asserted before lookup, and the default-command / colour normalisation conditions are as stated.",
         "argparse's own behaviour (parents=, conflict handling, SystemExit) is trusted; that the wiring implies the set-level invariant is the induction argument written in DESIGN.md 3/C19, not machine-checked.", "3/C19"),
 "C14": ("finite abstract interpretation of resolve() and get_color() over representative colour tokens, guard / ordering / def-use rules on registration, cache reset and global re-sync, constant folding of the modifier table",
         "Decides the mechanism of inheritance exhaustively over a finite token domain (own '' / '-' / colour x parent absent / coloured / default, fg and bg, with and without no_color: what reaches ColorFmt, and that '' and '-' never do), first-registration-wins with the explicit configuration first, retry of all pending items with chains resolved from the resolved ancestor outwards, cache reset and synced-palette re-sync on change, no_color => effect-free formatter, lookup fallbacks, and the description grammar tables.",
         "Order-independence over all registration histories as such is NOT decided (it follows from these mechanisms by an induction that is not machine-checked); conflicting duplicate descriptions are outside the property.", "3/C14"),
 "C10": ("ownership / invalidation rules per cache (who-may-write, dominance, sibling agreement), local type facts on line generators, taint (non-interference) of palette values on layout code",
         "Turns 'for all histories of renderings and discarded configurations' into rules about caches and about what rendering code may depend on: no identity-keyed long-lived cache without ownership, configuration cache reset on growth, lookup/store agreement incl. the per-class no_color slot, global re-sync of synced palettes, no palette snapshot stored on rendering objects, lazy result guarded on every accessor with iteration delegating to the line generator, whole = newline-join of lines, every line generator yields CHText, and palette values / no_color never reach conditions, len(), comparisons or arithmetic in the rendering modules.",
         "Character-for-character equality of stripped coloured output and no_color output is NOT compared (it follows from C09's pairing + the non-interference rule, which checks flows, not characters); yields whose type cannot be decided locally are listed in evidence, not judged; the lazy result object itself keeps the palette of the call that created it (by design).", "3/C10"),
 "C13": ("abstract interpretation of serialiser and parser over symbolic token strings (atoms = all names / all non-negative ints), comparing slots written and slots read; sibling agreement of construction sites",
         "Decides writer/reader agreement for the column description and table format grammars exhaustively over their finite state spaces (16 column states, 12 table-format states, separators-only strings, a three-column list): whatever to_fmt_str / _get_fmt_str can emit is interpreted through _parse_col_fmt / _PPTableParsedFmt on token strings whose atoms stand for every field name, modifier and integer, and each value must land in the slot it was written from; plus slot order at every ReprColumn construction site and the 'empty format changes nothing' branches.",
         "Assumes field names and modifiers contain none of the format's punctuation. That re-negotiated widths equal the previous ones (same records) is value-level and not decided. A serialiser/parser using string operations outside the interpreted subset ends in ANALYSIS-ERROR.", "3/C13"),
 "C11": ("event-language inclusion (CFG x boolean flags x buffer mode x specification DFA), def-use on element loops, constant folding, kind-domain abstract interpretation of the simple-value renderer",
         "Decides what can break the read-back for every value at once: the separator / bracket / newline state machine. The language of yielded token events over all paths of the recursive chunk generator (all seven layout modes, any number of loop iterations, recursion as one letter = structural induction) is included in the JSON token skeleton; every element loop emits one element per iteration from the container / sorted keys with nothing skipped; literal tables, quoting and line cutting are as required; the simple/compound split is exhaustive on the JSON kinds with bool before number.",
         "Round-trip equality on concrete data, thresholds / offsets (they only choose among modes each of which is verified), float formatting and the excluded characters are NOT decided. Keys are assumed to be strings for JSON mode.", "3/C11"),
 "C12": ("affine (linear-equality) width domain with path facts and a bound-substitution prover, loop invariant checking, contracts verified on callees, event language of the row builder, guard / def-use rules",
         "Decides rectangularity and separator alignment as linear identities over symbolic column widths on every path: each of the eight kinds of emitted line has width sum(w)+n+1; fit_to_width and resize_chunks_list return exactly the requested width (the truncation loop by a checked invariant; preconditions such as width-min(3,width) >= 0 by bound substitution); cells are fitted to their column's width over the one column list; rows are SEP CELL (SEP CELL)* SEP under a '+'('-'*w '+')* border; widths stay within their bounds; record accounting under limits (tail-slice pitfall, overlap-free limit condition, skipped count) and absence of in-place mutation of possibly shared lists.",
         "Assumes n >= 1 columns and non-negative widths. Which characters a cell shows (prefix + dots vs full value) is decided only as widths, not content; enum length cache vs text is not compared (every cell is re-fitted to the column width).", "3/C12"),
 "C08": ("who-may-write over the whole package, event-language pairing on the CFG of _append_chunk, def-use in make/_merge_chunks, self-aliasing rule on loops, call-graph funnel rule",
         "Decides the representation invariant on which ==, len() and rendering rely, for every sequence of operations: chunk list and cached length are written only inside the three funnel functions, every path of the append primitive mutates list and length exactly once (or neither, for empty text) and merges exactly same-coloured neighbours in order, make() stores the merged list and a length computed from that same list, no loop iterates a container that its body grows when the two may be the same object (t += t), and every text returned by a public operation is built through the funnel.",
         "Index / slice / fixed_len / format arithmetic (offsets, negative and out-of-range bounds) is value-level and NOT decided; a defect there is invisible to this check.", "3/C08"),
 "C04": ("provenance abstract interpretation of the tokenizer (finite tag domain, fixpoint over both loops, states partitioned by span mode), def-use rules for node spans",
         "Decides where positions come from on every path of the tokenizer: the start position handed to a token is built on (or compared against) the line counter of the current iteration for ordinary tokens and captured at the opener for span tokens, every end position is SrcPos(line, match.end()+1) of the current line, the unmatched-character error names the current line, the end-of-input token sits at the last end; plus the node-span rules (empty node = empty span at the following token, inner node = first child's start .. last child's end, leaf = the token's own span).",
         "The 0/1-based slice arithmetic of get_orig_text and column arithmetic beyond the `+1` forms are value-level and NOT decided; adjacency within a line follows from the rules but is not separately proven.", "3/C04"),
 "C02": ("CFG path rules on the four sibling 'walk to the first non-nullable symbol' loops (continue-only-past-nullable, must-merge, justified break), guard / def-use rules on inclusion edges, table keys and ordering",
         "Decides that the nullable / FIRST / FOLLOW / predict-table code generates exactly the textbook (Aho-Ullman) constraints for every grammar: no walk goes past a symbol without having established nullability, every visited symbol contributes (terminals themselves, non-terminals their FIRST) before being left, walks stop only at non-nullable symbols, the only FOLLOW-inclusion edges are owner -> symbol in an all-nullable tail, $END$ seeds the start symbol, closures run to a fixpoint, table entries are keyed (owner, token), sorted by priority and looked up with the same key shape, and is_ambiguous reports any entry without exactly one alternative.",
         "That the accepted language equals the grammar's language, and agreement of the two factorisation settings, are NOT decided (they are semantic consequences argued by hand). The recogniser is tied to the worklist-free fixpoint algorithms in the code; a different algorithm ends in ANALYSIS-ERROR.", "3/C02"),
 "C03": ("must-fact (belief-contradiction) rule on every cursor move of the recursion check, event language (loop head / progress action) on the CFG of the parse loop",
         "Decides necessary conditions of both sentences: in the left-recursion check every move that abandons a production is justified by a non-nullability fact (not by mere membership in the examined set, which is how hidden recursion behind a nullable symbol was missed) and every step past a symbol by a nullability fact, the cycle test ranges over the whole DFS stack, all symbols are roots, only GrammarIsRecursive is raised; in the parse loop no iteration can repeat without a progress action and the roll-back scan strictly decreases.",
         "Termination of parse for accepted grammars (a lexicographic measure over cursor / stack / alternative indices) and exactness of the rejection ('exactly when') are NOT proven, only their structural necessary conditions.", "3/C03"),
 "C01": ("typestate of helper symbols (dominance, paired effects, def-use of the one suffix set), must-pass-through on the CFG of the completion branch, field-effect comparison of sibling stack-element methods, def-use on tokens / leaves / root",
         "Decides the machinery the derivation property depends on, for every grammar and input: helper symbols are reserved names, registered before use, last in their production and removed only in pairs with their productions; on every completion path the suffix splice is evaluated before the node is handed over or returned; abandoning an alternative resets exactly what matching changed; leaves are the non-skipped tokens in order, built only on a name match with the cursor advancing by one; the returned root is the start symbol's node.",
         "The arithmetic of common-prefix factorisation, of suffix production construction beyond its shape, and of the partial undo is NOT decided; nor which alternative is chosen. A pass means the mechanisms are wired on every path, not that every tree is a derivation.", "3/C01"),
 "C06": ("finite abstract interpretation of the branch comparator over item kinds and order relations; who-may-list / def-use rules on commit enumeration and the provenance of the match flag",
         "Decides ONLY the third sentence of the property: the branch comparator is a total order with ints below strings (exhaustive over {int,str}^2 x {<,=,>}), extended lexicographically with length tie-break and exposed through Comparable's six operators; branches are sorted by it with master/main forced last by a leading string prefix; the report lists commits only through the is_explicit filter, the 'not merged' set is filtered likewise, and is_explicit is the search predicate `search_text in commit.message` applied to that same commit.",
         "The attribution sentences (each matching commit exactly once under the earliest containing build per branch, 'not merged' exactness) are outcomes of graph searches with per-repository caches over arbitrary histories: NOT decided by this check. Assumes remote names sort below the 'zzzz..' prefix.", "3/C06"),
 "C07": ("guard / dominance / def-use rules on the dependency DFS of ReposCollection and on make_reports_data",
         "Decides ONLY the second sentence: every candidate sequence feeding sorted_repos is sorted (supply order irrelevant), a repository is placed only when none of its present sub-components is unprocessed and is marked done in the same step, the only exception is ValueError raised when an unprocessed sub-component is on the current DFS path, and reports are assembled in that order from already built component graphs.",
         "The first sentence (each report-related component build recorded at exactly the first parent build that ships it; bumps reported) depends on interleavings of pins, tags and branch points over arbitrary histories: NOT decided.", "3/C07"),
}

NOT_APPLICABLE = {
 "C05": "Exact item counts/nesting produced by index arithmetic on runtime tree shapes across template options; no sound static argument in reach bounds it, and its few shape facts say nothing about the off-by-one cases the property is about (DESIGN.md section 6).",
}

PENDING_REASON = "check under construction in this round (rules designed in DESIGN.md section 3, not yet implemented); not claimed until its checker is committed"

def main():
    props = [json.loads(l)["id"] for l in open(os.path.join(HERE, "properties.jsonl"))]
    checks, na = [], []
    for p in props:
        if p in CLAIMED and os.path.exists(os.path.join(HERE, "rules", p.lower() + ".py")):
            tech, text, note, ref = CLAIMED[p]
            checks.append({
                "property_id": p,
                "quick_cmd": f"./check {p} --tier quick",
                "thorough_cmd": f"./check {p} --tier thorough",
                "evidence_file": f"/verif/evidence/{p}.json",
                "replay_cmd_template": f"./check {p} --replay {{path}}",
                "engine": "sa",
                "level_claimed": {"category": "other", "text": text, "design_ref": f"DESIGN.md section {ref}"},
                "level_note": note,
                "technique": tech,
            })
        elif p in NOT_APPLICABLE:
            na.append({"property_id": p, "reason": NOT_APPLICABLE[p]})
        else:
            na.append({"property_id": p, "reason": PENDING_REASON})
    m = {
        "version": 1,
        "setup_cmd": "make -C /verif setup",
        "hooks": {"guard": "AKORSHKOV_AK_PY_VERIF", "enable": "none needed: static analysis reads /repo's source; no hook commits exist",
                  "baseline_off_cmd": "cd /repo && /venv/bin/python -m pytest -ra -q -p no:cacheprovider --timeout=900 --continue-on-collection-errors",
                  "source_commits": [], "add_only": True},
        "engines": [{"name": "sa", "path": "/verif/sa", "serves_properties": [c["property_id"] for c in checks],
                     "kind_free_text": "repository-specific static analysis over Python ast: program index, must-facts/guards, CFG + dominators, finite-domain abstract interpretation, event-language (NFA in DFA) inclusion, string-shape vs regex inclusion, affine width identities, taint/effects; no repository code is imported or executed"}],
        "checks": checks,
        "not_applicable": na,
        "notes": "Technique family: static analysis only. Verdict protocol: exit 0 / exit 1 + VIOLATION / exit 2 + ANALYSIS-ERROR (undecided, never a VIOLATION). Genuine defects found on the pinned tree were repaired by `fix:` commits in /repo and are recorded as `fixed:` lines in /verif/known_findings.txt.",
    }
    json.dump(m, open(os.path.join(HERE, "MANIFEST.json"), "w"), indent=1)
    print("claimed:", [c["property_id"] for c in checks], "n/a:", [x["property_id"] for x in na])

main()
