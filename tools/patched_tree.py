#!/venv/bin/python
"""Development helper: scratch export of /repo HEAD + one stored change (seeded/<id> or neutral/<id>) [+ VERIF_STRESS], run the
given checks, print refutations.   usage: patched_tree.py <seeded|neutral>/<id> C01 [C02 ..] [--keep]"""
import os
import shutil
import subprocess
import sys
import tempfile

VERIF = os.path.dirname(os.path.dirname(os.path.abspath(__file__)))
sys.path.insert(0, os.path.join(VERIF, "tools"))
import stress  # noqa: E402


def main():
    what = sys.argv[1]
    props = [a for a in sys.argv[2:] if not a.startswith("--")]
    tmp = tempfile.mkdtemp(prefix="patched_")
    try:
        subprocess.run(f"git -C /repo archive HEAD | tar -x -C {tmp}", shell=True, check=True)
        r = subprocess.run(f"patch -p1 -s < {os.path.join(VERIF, what, 'patch.diff')}", shell=True, cwd=tmp, capture_output=True, text=True)
        if r.returncode:
            print("patch does not apply", r.stdout[:300])
            return
        stress.stress_tree(tmp)
        for p in props:
            r = subprocess.run(f"./check {p} --tier quick --no-write --repo {tmp}", shell=True, cwd=VERIF, capture_output=True, text=True)
            for l in r.stdout.splitlines():
                if l.startswith(("REFUTED", "ANALYSIS-ERROR")) or "exit=" in l:
                    print(l[:600])
        print("tree:", tmp if "--keep" in sys.argv else "(removed)")
    finally:
        if "--keep" not in sys.argv:
            shutil.rmtree(tmp, ignore_errors=True)


main()
