#!/venv/bin/python
"""Confirm a seeded change produced in a scratch worktree and record it under /verif/seeded/<id>/.

usage: seed_eval.py <seed-id> <property> <worktree> [--needs "..."]

Steps (all recorded in meta.json):
  1. patch.diff = `git diff` of the worktree (source files under ak/ only);
  2. the repository's unedited suite in the worktree with the change      -> must pass 208/208;
  3. DEMO.py in the worktree with the change                                -> must exit non-zero;
  4. DEMO.py on a clean export of /repo HEAD (scratch dir, removed after)   -> must exit 0;
  5. apply patch.diff to a scratch export of /repo HEAD, run every registered quick check with --no-write --repo <scratch>;
     record which checks report a VIOLATION.
"""
import json
import os
import shutil
import subprocess
import sys
import tempfile

VERIF = os.path.dirname(os.path.dirname(os.path.abspath(__file__)))


def sh(cmd, cwd=None, timeout=600):
    r = subprocess.run(cmd, shell=True, cwd=cwd, capture_output=True, text=True, timeout=timeout)
    out = "\n".join(l for l in (r.stdout + r.stderr).splitlines() if "conda.cli.condarc" not in l)
    return r.returncode, out


def main():
    sid, prop, wt = sys.argv[1:4]
    needs = ""
    if "--needs" in sys.argv:
        needs = sys.argv[sys.argv.index("--needs") + 1]
    dest = os.path.join(VERIF, "seeded", sid)
    os.makedirs(dest, exist_ok=True)
    rc, diff = sh("git diff -- ak bin", cwd=wt)
    if not diff.strip():
        print("no diff in worktree")
        return 2
    open(os.path.join(dest, "patch.diff"), "w").write(diff + ("\n" if not diff.endswith("\n") else ""))
    meta = {"id": sid, "property": prop, "needs_to_manifest": needs, "ran": []}
    rc, out = sh("/venv/bin/python -m pytest -q -p no:cacheprovider 2>&1 | tail -3", cwd=wt)
    meta["suite_with_change"] = out.strip().splitlines()[-1] if out.strip() else ""
    meta["ran"].append(f"cd {wt} && /venv/bin/python -m pytest -q -p no:cacheprovider")
    suite_ok = "208 passed" in out and "failed" not in out
    demo = os.path.join(wt, "DEMO.py")
    if not os.path.exists(demo):
        print("no DEMO.py")
        return 2
    shutil.copy(demo, os.path.join(dest, "DEMO.py"))
    if os.path.exists(os.path.join(wt, "NOTES.md")):
        shutil.copy(os.path.join(wt, "NOTES.md"), os.path.join(dest, "NOTES.md"))
    rc1, out1 = sh("/venv/bin/python DEMO.py", cwd=wt, timeout=300)
    meta["demo_with_change"] = {"exit": rc1, "tail": out1.strip().splitlines()[-3:]}
    meta["ran"].append(f"cd {wt} && /venv/bin/python DEMO.py   # with the change")
    clean = tempfile.mkdtemp(prefix="akseed_clean_")
    try:
        sh(f"git -C /repo archive HEAD | tar -x -C {clean}")
        shutil.copy(demo, os.path.join(clean, "DEMO.py"))
        rc0, out0 = sh("/venv/bin/python DEMO.py", cwd=clean, timeout=300)
    finally:
        shutil.rmtree(clean, ignore_errors=True)
    meta["demo_without_change"] = {"exit": rc0, "tail": out0.strip().splitlines()[-3:]}
    meta["ran"].append("DEMO.py on a clean export of /repo HEAD (scratch dir, removed)")
    confirmed = suite_ok and rc1 != 0 and rc0 == 0
    meta["confirmed"] = confirmed
    # run the checks against a scratch export of /repo HEAD with the patch applied (/repo itself is not touched)
    results = {}
    scratch = tempfile.mkdtemp(prefix="akseed_chk_")
    try:
        sh(f"git -C /repo archive HEAD | tar -x -C {scratch}")
        rc, out = sh(f"patch -p1 -s < {os.path.join(dest, 'patch.diff')}", cwd=scratch)
        if rc != 0:
            print("patch does not apply to /repo HEAD:", out)
            return 2
        props = [c["property_id"] for c in json.load(open(os.path.join(VERIF, "MANIFEST.json")))["checks"]]
        from concurrent.futures import ThreadPoolExecutor

        def one(p):
            rc, out = sh(f"./check {p} --tier quick --no-write --repo {scratch}", cwd=VERIF)
            viol = [l.replace(scratch, "<scratch>") for l in out.splitlines() if l.startswith("REFUTED")]
            return p, {"exit": rc, "refuted": [v[:300] for v in viol[:4]], "analysis_error": [l[:300].replace(scratch, "<scratch>") for l in out.splitlines() if l.startswith("ANALYSIS-ERROR")][:2]}
        with ThreadPoolExecutor(max_workers=6) as ex:
            for p, r in ex.map(one, props):
                results[p] = r
    finally:
        shutil.rmtree(scratch, ignore_errors=True)
    meta["ran"].append("scratch export of /repo HEAD + patch.diff; ./check <each claimed property> --tier quick --no-write --repo <scratch>; scratch removed")
    meta["checks"] = {p: r for p, r in results.items() if r["exit"] != 0}
    meta["caught_by"] = sorted(p for p, r in results.items() if r["exit"] == 1)
    meta["caught_by_target_property_check"] = prop in meta["caught_by"]
    meta["undecided_by"] = sorted(p for p, r in results.items() if r["exit"] == 2)
    json.dump(meta, open(os.path.join(dest, "meta.json"), "w"), indent=1)
    print(json.dumps({k: meta[k] for k in ("id", "property", "confirmed", "suite_with_change", "caught_by", "undecided_by")}, indent=1))
    print("demo with change:", meta["demo_with_change"])
    print("demo without   :", meta["demo_without_change"])
    for p in meta["caught_by"]:
        for v in results[p]["refuted"][:2]:
            print("   ", v[:260])
    return 0


if __name__ == "__main__":
    sys.exit(main())
