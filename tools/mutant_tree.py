#!/venv/bin/python
"""Development helper: build the tree of one catalogue mutant (optionally respelled / renamed like the stress variants of
selftest/audit.py), run the property's check on it and print the refutations.
usage: mutant_tree.py C04 <mutant id> [--respell m1,m2,..] [--rename] [--keep]"""
import ast
import os
import shutil
import subprocess
import sys
import tempfile

VERIF = os.path.dirname(os.path.dirname(os.path.abspath(__file__)))
sys.path.insert(0, VERIF)
from selftest import audit  # noqa: E402


def load(path):
    src = open(path).read().rsplit("\nmain()", 1)[0]
    ns = {"__name__": "x", "__file__": path}
    exec(compile(src, path, "exec"), ns)
    return ns


def main():
    prop, mid = sys.argv[1], sys.argv[2]
    args = sys.argv[3:]
    mut = next(m for m in audit.catalogue(prop) if m["id"] == mid)
    tmp = tempfile.mkdtemp(prefix="mutant_")
    try:
        for d in ("ak", "bin"):
            shutil.copytree(os.path.join("/repo", d), os.path.join(tmp, d), ignore=shutil.ignore_patterns("__pycache__"))
        why = audit._apply(tmp, mut["edits"])
        if why:
            print("not applicable:", why)
            return
        files = [os.path.join(r, f) for r, _d, fs in os.walk(os.path.join(tmp, "ak")) for f in fs if f.endswith(".py")]
        if "--respell" in args:
            mech = load(os.path.join(VERIF, "tools", "mech_neutral.py"))
            for p in files:
                tree = ast.parse(open(p).read())
                for m in args[args.index("--respell") + 1].split(","):
                    tree = mech["MODES"][m]().visit(tree)
                    ast.fix_missing_locations(tree)
                open(p, "w").write(ast.unparse(tree) + "\n")
        if "--rename" in args:
            al = load(os.path.join(VERIF, "tools", "alpha_rename.py"))
            for p in files:
                al["rename_file"](p, "_q")
        r = subprocess.run(f"./check {prop} --tier quick --no-write --repo {tmp}", shell=True, cwd=VERIF, capture_output=True, text=True)
        for l in r.stdout.splitlines():
            if l.startswith(("REFUTED", "ANALYSIS-ERROR")) or "exit=" in l:
                print(l[:400])
        print("expect:", mut["expect"], "tree:", tmp if "--keep" in args else "(removed)")
    finally:
        if "--keep" not in args:
            shutil.rmtree(tmp, ignore_errors=True)


main()
