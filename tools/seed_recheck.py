#!/venv/bin/python
"""Re-run the registered quick checks against every confirmed seeded change (apply to /repo, check, undo) and record
`caught_now` in its meta.json.  Used after checks were strengthened."""
import json, os, subprocess, sys
VERIF = os.path.dirname(os.path.dirname(os.path.abspath(__file__)))

def sh(cmd, cwd=None):
    r = subprocess.run(cmd, shell=True, cwd=cwd, capture_output=True, text=True)
    return r.returncode, "\n".join(l for l in (r.stdout + r.stderr).splitlines() if "conda.cli.condarc" not in l)

def main():
    only = sys.argv[1:]
    props = [c["property_id"] for c in json.load(open(os.path.join(VERIF, "MANIFEST.json")))["checks"]]
    rc, out = sh("git -C /repo status --porcelain")
    assert not out.strip(), "/repo not clean"
    for d in sorted(os.listdir(os.path.join(VERIF, "seeded"))):
        if only and not any(o in d for o in only):
            continue
        mp = os.path.join(VERIF, "seeded", d, "meta.json")
        if not os.path.exists(mp):
            continue
        meta = json.load(open(mp))
        rc, out = sh(f"git -C /repo apply {os.path.join(VERIF, 'seeded', d, 'patch.diff')}")
        if rc != 0:
            print(d, "patch does not apply:", out[:200]); continue
        caught, und, why = [], [], {}
        try:
            for p in props:
                rc, out = sh(f"./check {p} --tier quick --no-write", cwd=VERIF)
                if rc == 1:
                    caught.append(p)
                    why[p] = [l[:260] for l in out.splitlines() if l.startswith("REFUTED")][:2]
                elif rc == 2:
                    und.append(p)
        finally:
            sh("git -C /repo checkout -- .")
        meta["caught_now"] = caught
        meta["undecided_now"] = und
        meta["refutations_now"] = why
        meta["caught_by_target_property_check_now"] = meta["property"] in caught
        json.dump(meta, open(mp, "w"), indent=1)
        print(f"{d}: first run caught_by={meta.get('caught_by')}  now={caught}  undecided={und}")
    rc, out = sh("git -C /repo status --porcelain")
    assert not out.strip()

main()
