#!/venv/bin/python
"""Re-run the registered quick checks against every confirmed seeded change and record `caught_now` in its meta.json.
Used after checks were strengthened.

Each seed is applied to its own scratch export of /repo HEAD under tempfile.mkdtemp() (removed afterwards) and the checks run
with `--repo <scratch> --no-write`, so seeds are evaluated in parallel and /repo itself is never touched.

usage: seed_recheck.py [substring ...] [--all-props] [-j N]
  default: only the check of the seed's own property plus the checks that caught it before; --all-props runs all 19.
"""
import json
import os
import shutil
import subprocess
import sys
import tempfile
from concurrent.futures import ThreadPoolExecutor

VERIF = os.path.dirname(os.path.dirname(os.path.abspath(__file__)))


def sh(cmd, cwd=None):
    r = subprocess.run(cmd, shell=True, cwd=cwd, capture_output=True, text=True)
    return r.returncode, "\n".join(l for l in (r.stdout + r.stderr).splitlines() if "conda.cli.condarc" not in l)


def one(d, props_all, all_props):
    mp = os.path.join(VERIF, "seeded", d, "meta.json")
    if not os.path.exists(mp):
        return None
    meta = json.load(open(mp))
    scratch = tempfile.mkdtemp(prefix="seedrc_")
    try:
        rc, out = sh(f"git -C /repo archive HEAD | tar -x -C {scratch}")
        if rc != 0:
            return f"{d}: export failed: {out[:200]}"
        rc, out = sh(f"patch -p1 -s < {os.path.join(VERIF, 'seeded', d, 'patch.diff')}", cwd=scratch)
        if rc != 0:
            return f"{d}: patch does not apply: {out[:200]}"
        sys.path.insert(0, os.path.join(VERIF, "tools"))
        import stress
        stressed = stress.stress_tree(scratch)
        props = props_all if all_props else sorted({meta["property"]} | set(meta.get("caught_by") or []) | set(meta.get("caught_now") or []))
        caught, und, why = [], [], {}
        for p in props:
            rc, out = sh(f"./check {p} --tier quick --no-write --repo {scratch}", cwd=VERIF)
            if rc == 1:
                caught.append(p)
                why[p] = [l[:260].replace(scratch, "<scratch>") for l in out.splitlines() if l.startswith("REFUTED")][:2]
            elif rc == 2:
                und.append(p)
        meta["caught_now"] = caught
        meta["undecided_now"] = und
        meta["refutations_now"] = why
        meta["checks_run_now"] = props
        meta["caught_by_target_property_check_now"] = meta["property"] in caught
        if not stressed:
            json.dump(meta, open(mp, "w"), indent=1)
        return f"{d}: first run caught_by={meta.get('caught_by')}  now={caught}  undecided={und}"
    finally:
        shutil.rmtree(scratch, ignore_errors=True)


def main():
    args = [a for a in sys.argv[1:]]
    all_props = "--all-props" in args
    jobs = 12
    if "-j" in args:
        jobs = int(args[args.index("-j") + 1])
        del args[args.index("-j"):args.index("-j") + 2]
    only = [a for a in args if not a.startswith("--")]
    props_all = [c["property_id"] for c in json.load(open(os.path.join(VERIF, "MANIFEST.json")))["checks"]]
    seeds = [d for d in sorted(os.listdir(os.path.join(VERIF, "seeded"))) if not only or any(o in d for o in only)]
    with ThreadPoolExecutor(max_workers=jobs) as ex:
        for line in ex.map(lambda d: one(d, props_all, all_props), seeds):
            if line:
                print(line, flush=True)


main()
