PY=/venv/bin/python
.PHONY: setup selftest all-quick all-thorough
setup:
	@test -x $(PY) || (echo "missing $(PY)"; exit 1)
	@$(PY) -c "import ast, sys; assert sys.version_info[:2] >= (3, 9)"
	@mkdir -p evidence/replay
	@chmod +x check
	@echo "setup ok"
selftest:
	$(PY) selftest/audit.py
all-quick:
	@for p in $$($(PY) -c "import json;print(' '.join(c['property_id'] for c in json.load(open('MANIFEST.json'))['checks']))"); do ./check $$p --tier quick | tail -1; done
all-thorough:
	@for p in $$($(PY) -c "import json;print(' '.join(c['property_id'] for c in json.load(open('MANIFEST.json'))['checks']))"); do ./check $$p --tier thorough | tail -1; done
