"""C17 — layered HTTP connections compose adapters without side effects."""
import ast

from sa.core import (AnalysisError, FUNC, assignments, call_name, class_attr, const, dotted, enclosing, enclosing_func,
                     enclosing_stmt, is_attr, is_name, is_self_attr, literal, norm, params, parent, walk_local, names_in)
from sa.guards import facts, MUTATORS
from sa.finite import Interp, C, K, S, TOP, kind_of

PROP = "C17"
REL = "ak/conn_http.py"
RELM = "ak/mcaller_http.py"
EXPLANATION = (
    "Kind-domain abstract interpretation, fresh/alias and effect analysis, ordering and sibling agreement over "
    "ak/conn_http.py and ak/mcaller_http.py. R17a: whatever the caller passes as adapters (None, a list/tuple, a single "
    "adapter) the chain MCallerHttp.clone -> HttpConn.__init__ -> _HttpConnBase.__init__ ends with a flat list (a wrap "
    "[x] happens exactly for the single kind); package-wide, every self-wrap `x = [x]` is guarded by a test that excludes "
    "lists. R17b: in-place mutations in request processing target only the header copy made by RequestArguments or "
    "attributes of the request record; params and data are only read. R17c: a connection's adapter list is a fresh list "
    "(own + parent's), own_adapters is never mutated, clone builds a new caller, the per-prefix cache is per instance and "
    "class-level maps are not written. R17d: request adapters run in list order, response processors over the reversed "
    "list, own adapters precede the parent's. R17e: the three auth adapters assert the Authorization header is absent "
    "before setting the same key, build Basic credentials as b64(id:secret) from their constructor arguments, and "
    "AUTH_TYPE is non-None exactly for them. R17f: connection choice requires exactly one matching component, caches one "
    "derived connection per prefix built from the base connection. R17g: the urllib Request is wired from its namesakes. "
    "URL/body encoding values are not decided."
)


def run(cx):
    repo = cx.repo
    for r, t in (("R17a", "adapter argument normalisation yields a flat list for every argument kind; self-wraps are guarded by a not-a-list test"),
                 ("R17b", "caller-owned headers/params/data are never mutated in place"),
                 ("R17c", "derived connections / clones share no mutable state with the original"),
                 ("R17d", "request adapters forward, response processors reversed, own before parent"),
                 ("R17e", "auth adapters: absent-then-set of one header key; Basic = b64(id:secret); AUTH_TYPE set exactly for them"),
                 ("R17f", "connection choice: exactly one component; one cached derived connection per prefix from the base connection"),
                 ("R17g", "urllib Request arguments derive from their namesakes"),
                 ("R17h", "body encoding by type: None -> no body, bytes -> as is, str -> utf-8, anything else -> JSON utf-8 with a default Content-Type; method default")):
        cx.rule(r, t)
    base = cx.cls(REL, "_HttpConnBase", "R17c")
    base_init = cx.func(REL, "_HttpConnBase.__init__", "R17a")
    hc_init = cx.func(REL, "HttpConn.__init__", "R17a")
    do_req = cx.func(REL, "_HttpConnImpl.do_request", "R17b")
    ra_init = cx.func(REL, "RequestArguments.__init__", "R17b")
    ra_args = cx.func(REL, "RequestArguments.args", "R17b")
    clone = cx.func(RELM, "MCallerHttp.clone", "R17a")
    mc_init = cx.func(RELM, "MCallerHttp.__init__", "R17c")
    get_conn = cx.func(RELM, "MCallerHttp.get_conn", "R17f")

    cx.guard(_r17a, cx, clone, hc_init, base_init)
    cx.guard(_self_wraps, cx, repo)
    from sa.inline import inlined
    do_req_inl, inl_names = inlined(repo.mod(REL), do_req)
    cx.guard(_r17b, cx, repo, do_req_inl, ra_init, ra_args)
    cx.guard(_r17c, cx, repo, base, base_init, clone, mc_init)
    cx.guard(_r17d, cx, repo, do_req, base_init)
    cx.guard(_r17e, cx, repo)
    cx.guard(_r17f, cx, get_conn)
    if inl_names:
        cx.note(f"R17g/R17h analyse do_request with its private helpers inlined: {inl_names}")
    cx.guard(_r17g, cx, do_req_inl)
    cx.guard(_r17h, cx, do_req_inl)


# ------------------------------------------------------------------------------------------------ R17a
def _collect_calls(interp, body, env, callee_names):
    """Run body; return list of (call node, positional values, keyword values) for calls of callee_names."""
    seen = []

    def hook(it, e, env2):
        nm = call_name(e)
        if nm in callee_names or (isinstance(e.func, ast.Attribute) and e.func.attr == "__init__" and "super().__init__" in callee_names and norm(e.func.value) == "super()"):
            seen.append((e, [it.ev(a, env2) for a in e.args], {k.arg: it.ev(k.value, env2) for k in e.keywords}))
        return None
    interp.call_hook = hook
    outs = interp.run(body, env)
    interp.call_hook = None
    return seen, outs


class _ListInterp(Interp):
    """List literals remember the kinds of their elements (to see a nested list)."""

    def ev(self, e, env):
        if isinstance(e, ast.List):
            vals = [super(_ListInterp, self).ev(x, env) for x in e.elts]
            return K("list", empty=not vals, tag=("wrap",) + tuple(_descr(v) for v in vals))
        return super().ev(e, env)


def _descr(v):
    if isinstance(v, K):
        return v.tag if v.kind == "other" and v.tag else (v.kind if v.tag is None else f"{v.kind}:{v.tag}")
    return kind_of(v) or "?"


INPUTS = [("None", C(None)), ("list", K("list", None, "caller-list")), ("tuple", K("tuple", None, "caller-tuple")),
          ("single adapter", K("other", False, "adapter"))]


def _flat(v):
    """v is a flat list of adapters (abstractly)."""
    if isinstance(v, K) and v.kind in ("list", "tuple"):
        if v.tag in ("caller-list", "caller-tuple", None, "fresh"):
            return True
        if isinstance(v.tag, tuple) and v.tag[0] == "wrap":
            return all(x == "adapter" for x in v.tag[1:])
    return False


def _r17a(cx, clone, hc_init, base_init):
    it = _ListInterp()
    p_clone = params(clone)[1]
    n = 0
    for label, val in INPUTS:
        # stage 1: clone
        calls, _ = _collect_calls(it, clone.body, {p_clone: val, "self.http_conn": K("other", False, "_HttpConnBase")}, {"HttpConn"})
        if not calls:
            cx.ob("R17c", clone, False, "clone does not derive a new HttpConn from the original's connection (the original would be shared or modified)", stmt=f"clone <- {label}")
            continue
        stage1 = []
        for c, pos, kw in calls:
            v = kw.get("adapters", pos[1] if len(pos) > 1 else None)
            stage1.append((c, v))
        for c, v1 in stage1:
            ok1 = v1 is not None and (_flat(v1) or (isinstance(v1, K) and v1.kind == 'other' and v1.tag == 'adapter'))
            cx.ob("R17a", c, ok1, f"clone({label}) hands HttpConn a flat adapter list or the single adapter ({v1!r})" if ok1 else
                  f"clone({label}) hands HttpConn adapters={v1!r}: a list wrapped in a list / not a list", stmt=f"clone <- {label}")
            n += 1
            if not ok1:
                continue
            # stage 2: HttpConn.__init__
            pa = "adapters"
            calls2, _ = _collect_calls(it, hc_init.body, {pa: v1, params(hc_init)[1]: K("other", False, "_HttpConnBase")}, {"super().__init__", "__init__"})
            cx.need(calls2, "R17a", hc_init, "HttpConn.__init__ does not call the base constructor")
            for c2, pos2, kw2 in calls2:
                v2 = pos2[0] if pos2 else kw2.get("adapters")
                _stage3(cx, it, base_init, v2, f"clone({label})")
    # direct construction HttpConn(conn, adapters=X)
    for label, val in INPUTS:
        calls2, _ = _collect_calls(it, hc_init.body, {"adapters": val, params(hc_init)[1]: K("other", False, "_HttpConnBase")}, {"super().__init__", "__init__"})
        for c2, pos2, kw2 in calls2:
            v2 = pos2[0] if pos2 else kw2.get("adapters")
            _stage3(cx, it, base_init, v2, f"HttpConn(adapters={label})")
    cx.count("R17a:abstract argument kinds", len(INPUTS) * 2)


def _stage3(cx, it, base_init, v2, label):
    pa, pc = params(base_init)[1], params(base_init)[2]
    outs = it.run(base_init.body, {pa: v2, pc: K("other", False, "_HttpConnBase")})
    finals = {repr(o.env.get("self.own_adapters")): o.env.get("self.own_adapters") for o in outs if o.how == "fall"}
    cx.need(finals, "R17a", base_init, "constructor has no normal exit in the abstract run")
    for r, v3 in finals.items():
        ok = v3 is not None and _flat(v3) and kind_of(v3) in ("list", "tuple")
        cx.ob("R17a", base_init, ok, f"{label}: own_adapters is a flat list ({v3!r})" if ok else
              f"{label}: own_adapters becomes {v3!r} (nested list or not a list)", stmt=f"own_adapters <- {label}")


def _self_wraps(cx, repo):
    """Package-wide: `x = [x]` must be guarded by a test that excludes x being a list already."""
    n = 0
    for m in repo.modules.values():
        for st in ast.walk(m.tree):
            if not (isinstance(st, ast.Assign) and len(st.targets) == 1 and isinstance(st.value, ast.List) and len(st.value.elts) == 1):
                continue
            t, e = st.targets[0], st.value.elts[0]
            te, ee = norm(t), norm(e)
            same = te == ee
            if not same and isinstance(t, ast.Attribute) and is_name(e) and t.attr == e.id:
                same = True     # self.x = [x]
            if not same:
                continue
            n += 1
            fs = facts(st)
            okay = False
            for tst, pol in fs:
                if isinstance(tst, ast.Call) and call_name(tst) == "isinstance" and len(tst.args) == 2 and norm(tst.args[0]) in (te, ee):
                    types = {norm(x).split(".")[-1] for x in (tst.args[1].elts if isinstance(tst.args[1], ast.Tuple) else [tst.args[1]])}
                    if not pol and types & {"list", "tuple"}:
                        okay = True
                    if pol and not (types & {"list", "tuple", "set", "Iterable", "Sequence"}):
                        okay = True
                if isinstance(tst, ast.Compare) and isinstance(tst.ops[0], ast.Is) and pol and norm(tst.left) in (te, ee):
                    okay = True
                if isinstance(tst, ast.BoolOp) and isinstance(tst.op, ast.Or) and pol:
                    # `x is None or isinstance(x, str)`: every disjunct must exclude a list
                    def excl(d):
                        if isinstance(d, ast.Compare) and isinstance(d.ops[0], ast.Is) and norm(d.left) in (te, ee):
                            return True
                        if isinstance(d, ast.Call) and call_name(d) == "isinstance" and norm(d.args[0]) in (te, ee):
                            ty = {norm(x).split(".")[-1] for x in (d.args[1].elts if isinstance(d.args[1], ast.Tuple) else [d.args[1]])}
                            return not (ty & {"list", "tuple", "set"})
                        if isinstance(d, ast.UnaryOp) and isinstance(d.op, ast.Not) and isinstance(d.operand, ast.Call) and call_name(d.operand) == "isinstance" \
                                and norm(d.operand.args[0]) in (te, ee):
                            ty = {norm(x).split(".")[-1] for x in (d.operand.args[1].elts if isinstance(d.operand.args[1], ast.Tuple) else [d.operand.args[1]])}
                            return bool(ty & {"list", "tuple"})
                        return False
                    if all(excl(d) for d in tst.values):
                        okay = True
            cx.ob("R17a", st, okay, "single value is wrapped only when it is known not to be a list" if okay else
                  "a value that may already be a list is wrapped into a list (nested list)")
    cx.at_least("R17a", "self-wrap idioms", n, 5)


# ------------------------------------------------------------------------------------------------ R17b
def _mutations(func):
    """(node, base-text, how) for every in-place mutation inside func."""
    out = []
    for n in walk_local(func):
        if isinstance(n, ast.Subscript) and isinstance(n.ctx, (ast.Store, ast.Del)):
            out.append((n, norm(n.value), "item store"))
        elif isinstance(n, ast.Call) and isinstance(n.func, ast.Attribute) and n.func.attr in MUTATORS:
            out.append((n, norm(n.func.value), n.func.attr + "()"))
        elif isinstance(n, ast.AugAssign) and isinstance(n.target, (ast.Name, ast.Attribute)):
            # += on a list / dict mutates in place; on str/int it rebinds.  Report with the target text.
            out.append((n, norm(n.target), "augmented assignment"))
        elif isinstance(n, ast.Attribute) and isinstance(n.ctx, (ast.Store, ast.Del)):
            out.append((n, norm(n.value), "attribute store ." + n.attr))
    return out


def _fresh_dict_expr(e):
    if isinstance(e, ast.Dict):
        return True
    if isinstance(e, ast.Call) and isinstance(e.func, ast.Attribute) and e.func.attr == "copy" and not e.args:
        return True
    if isinstance(e, ast.Call) and call_name(e) == "dict":
        return True
    if isinstance(e, ast.IfExp):
        return _fresh_dict_expr(e.body) and _fresh_dict_expr(e.orelse)
    return False


def header_mutation_paths(repo, do_req):
    """[(mutation node, path or None)] for the in-place changes of `headers` in do_request (private helpers expanded): path is a
    list of line numbers along which `headers` is still the caller's object when the change happens, None when on every path it
    was re-bound to the request record's copy or to a fresh dict first.  Shared by C17 (R17b) and C16 (R16f)."""
    from sa.inline import inlined as _inl
    from sa.cfg import CFG
    fn, _u = _inl(repo.modules[REL], do_req, nested=True)
    un = [st for st in walk_local(fn) if isinstance(st, ast.Assign) and isinstance(st.targets[0], ast.Tuple) and isinstance(st.value, ast.Call) and call_name(st.value) == "args"]
    g = CFG(fn)
    avoid = set()
    for st in walk_local(fn):
        if isinstance(st, ast.Assign):
            fresh = (st in un and any(is_name(e, "headers") for e in st.targets[0].elts)) or any(is_name(t, "headers") for t in st.targets) and _fresh_dict_expr(st.value)
            if fresh and g.node_of(st) is not None:
                avoid.add(g.node_of(st).id)
    out = []
    for node, basetxt, how in _mutations(fn):
        if basetxt.split(".")[0].split("[")[0] != "headers":
            continue
        tgt = g.node_of(enclosing_stmt(node))
        if tgt is None:
            raise AnalysisError("R17b", f"{REL}::do_request", "statement of a header mutation not found in the flow graph")
        pth = g.reach_avoiding(g.entry, {tgt.id}, avoid, follow_raise=False)
        out.append((node, None if pth is None else [getattr(x.ast, "lineno", None) for x in pth if x.ast is not None][-6:]))
    return out


def _r17b(cx, repo, do_req, ra_init, ra_args):
    # the record copies the headers
    hs = [st for st in walk_local(ra_init) if isinstance(st, ast.Assign) and any(is_self_attr(t, "headers") for t in st.targets)]
    cx.need(len(hs) == 1, "R17b", ra_init, "one assignment of self.headers expected")

    def fresh_dict(e):
        if isinstance(e, ast.Dict):
            return True
        if isinstance(e, ast.Call) and isinstance(e.func, ast.Attribute) and e.func.attr == "copy" and not e.args:
            return True
        if isinstance(e, ast.Call) and call_name(e) == "dict":
            return True
        if isinstance(e, ast.IfExp):
            return fresh_dict(e.body) and fresh_dict(e.orelse)
        if isinstance(e, ast.BoolOp):
            return False
        return False
    ok = fresh_dict(hs[0].value)
    cx.ob("R17b", hs[0], ok, "the request record keeps its own copy of the caller's headers" if ok else
          "the request record aliases the caller's headers dict (adapters and the id / content-type headers would modify it)")
    for attr in ("params", "data"):
        st = [s for s in walk_local(ra_init) if isinstance(s, ast.Assign) and any(is_self_attr(t, attr) for t in s.targets)]
        cx.need(len(st) == 1, "R17b", ra_init, f"self.{attr} assignment")
    # args() returns the record's fields in constructor order
    rets = [r for r in walk_local(ra_args) if isinstance(r, ast.Return)]
    fields = [norm(e) for e in rets[0].value.elts] if rets and isinstance(rets[0].value, ast.Tuple) else []
    want = ["self." + p for p in params(ra_init)[1:]]
    cx.ob("R17b", ra_args, fields == want, "args() returns the record's own fields in order" if fields == want else f"args() returns {fields}, constructor order is {want}")
    # do_request: the record is built from the arguments in order
    # (private helpers expanded in place: header defaults may be set in helpers that receive the dict)
    from sa.inline import inlined as _inl
    from sa.guards import xnorm_at as _xn
    do_req, _used_b = _inl(repo.modules[REL], do_req, nested=True)
    if _used_b:
        cx.note(f"R17b: do_request analysed with {_used_b} expanded in place")
    mk = [c for c in walk_local(do_req) if isinstance(c, ast.Call) and call_name(c) == "RequestArguments"]
    cx.need(len(mk) == 1, "R17b", do_req, "one RequestArguments construction expected")
    got = [_xn(a, mk[0]) for a in mk[0].args]
    want = ["self.address", "path", "method", "params", "data", "headers"]
    cx.ob("R17b", mk[0], got == want, "record is built from (address, path, method, params, data, headers)" if got == want else f"record built from {got}")
    # unpack statement(s): where the function takes the record's own copies back
    un = [st for st in walk_local(do_req) if isinstance(st, ast.Assign) and isinstance(st.targets[0], ast.Tuple) and isinstance(st.value, ast.Call) and call_name(st.value) == "args"]
    cx.need(len(un) == 1, "R17b", do_req, "unpacking of req_args.args() expected in do_request")
    unpack = un[0]
    names = [e.id for e in unpack.targets[0].elts]
    cx.ob("R17b", unpack, names == ["address", "path", "method", "params", "data", "headers"], "unpacked in field order" if names == ["address", "path", "method", "params", "data", "headers"] else f"unpacked as {names}")
    # every in-place change of `headers` happens on a dict of this call: on every path from the entry to the change, `headers`
    # was bound to the record's copy (the unpacking) or to a fresh dict - never still the caller's object
    from sa.cfg import CFG
    g = CFG(do_req)
    fresh_nodes = set()
    for st in walk_local(do_req):
        if isinstance(st, ast.Assign):
            for t in st.targets:
                if st is unpack and "headers" in names:
                    fresh_nodes.add(id(st))
                elif is_name(t, "headers") and fresh_dict(st.value):
                    fresh_nodes.add(id(st))
    avoid = {g.node_of(st).id for st in walk_local(do_req) if id(st) in fresh_nodes and g.node_of(st) is not None}
    caller_owned = {"headers", "params", "data"}
    n = 0
    for node, basetxt, how in _mutations(do_req):
        root = basetxt.split(".")[0].split("[")[0]
        if root not in caller_owned and not (root == "req_args" and any(basetxt.startswith("req_args." + a) for a in ("params", "data"))):
            continue
        if how == "augmented assignment" and root in ("path",):
            continue
        n += 1
        if root == "headers":
            tgt = g.node_of(enclosing_stmt(node))
            cx.need(tgt is not None, "R17b", node, "statement of a header mutation not found in the flow graph")
            pth = g.reach_avoiding(g.entry, {tgt.id}, avoid, follow_raise=False)
            ok_h = pth is None
            cx.ob("R17b", node, ok_h, "mutates the header copy of this call (record copy / fresh dict on every path)" if ok_h else
                  "mutates the caller's headers dict: on the path through lines " + str([getattr(x.ast, "lineno", None) for x in pth if x.ast is not None][-6:]) +
                  " `headers` is still the object the caller passed (the generated X-Request-ID / Content-Type stays in the caller's dict and is sent again with the next request)")
        else:
            cx.ob("R17b", node, False, f"{how} on the caller's {root} object")
    cx.at_least("R17b", "header mutations in do_request", n, 2)
    # adapters: process_req_args implementations
    impls = [(m, q, f) for m, q, f in repo.functions() if f.name == "process_req_args"]
    cx.at_least("R17b", "process_req_args implementations", len(impls), 5)
    for m, q, f in impls:
        ra = params(f)[1] if len(params(f)) > 1 else "req_args"
        for node, basetxt, how in _mutations(f):
            if not (basetxt == ra or basetxt.startswith(ra + ".")):
                continue
            if basetxt == ra:
                okm = how.startswith("attribute store")
                cx.ob("R17b", node, okm, f"re-binds a field of the request record ({how})" if okm else f"{how} on the record")
            elif basetxt == ra + ".headers":
                cx.ob("R17b", node, True, "mutates the record's header copy")
            else:
                cx.ob("R17b", node, False, f"{how} on {basetxt}: a caller-owned object is modified in place")


# ------------------------------------------------------------------------------------------------ R17c
def _fresh_list(e):
    if isinstance(e, (ast.List, ast.ListComp)):
        return True
    if isinstance(e, ast.BinOp) and isinstance(e.op, ast.Add):
        return True
    if isinstance(e, ast.Call) and call_name(e) in ("list", "sorted"):
        return True
    if isinstance(e, ast.Call) and isinstance(e.func, ast.Attribute) and e.func.attr == "copy":
        return True
    if isinstance(e, ast.Subscript) and isinstance(e.slice, ast.Slice):
        return True
    return False


def _r17c(cx, repo, base, base_init, clone, mc_init):
    n = 0
    for m in repo.modules.values():
        if m.rel not in (REL, RELM):
            continue
        for st in ast.walk(m.tree):
            if isinstance(st, ast.Assign):
                for t in st.targets:
                    if isinstance(t, ast.Attribute) and t.attr == "adapters":
                        n += 1
                        ok = _fresh_list(st.value)
                        cx.ob("R17c", st, ok, "adapter list of a connection is a freshly built list" if ok else
                              f"adapter list aliases {norm(st.value)}: add_adapter / later changes leak between connections")
    cx.at_least("R17c", "assignments of .adapters", n, 2)
    # own + parent order (R17d) and own_adapters never mutated
    for m in repo.modules.values():
        for f in [x for x in ast.walk(m.tree) if isinstance(x, FUNC)]:
            for node, basetxt, how in _mutations(f):
                if basetxt.endswith(".own_adapters") or basetxt == "own_adapters":
                    cx.ob("R17c", node, False, f"{how} on own_adapters, which may be the caller's list")
                if basetxt.endswith("_HTTP_PREFIX_MAP"):
                    cx.ob("R17c", node, False, f"{how} on the class-level prefix map (shared by all callers)")
    # add_adapter mutates self.adapters only
    add = repo.method(base, "add_adapter")
    if add is not None:
        for node, basetxt, how in _mutations(add):
            if how.startswith("attribute store"):
                continue
            ok = basetxt == "self.adapters"
            cx.ob("R17c", node, ok, "add_adapter appends to the connection's own fresh list" if ok else f"add_adapter mutates {basetxt}")
    # clone: new caller object from a new connection derived from self.http_conn
    rets = [r for r in walk_local(clone) if isinstance(r, ast.Return)]
    ok = len(rets) == 1 and isinstance(rets[0].value, ast.Call) and norm(rets[0].value.func) in ("type(self)", "self.__class__") and len(rets[0].value.args) == 1
    cx.ob("R17c", rets[0] if rets else clone, ok, "clone returns a new caller object" if ok else "clone does not return type(self)(<new connection>)")
    for node, basetxt, how in _mutations(clone):
        if basetxt.startswith("self"):
            cx.ob("R17c", node, False, f"clone modifies the original caller ({how} on {basetxt})")
    hc = [c for c in walk_local(clone) if isinstance(c, ast.Call) and call_name(c) == "HttpConn"]
    ok = len(hc) == 1 and hc[0].args and norm(hc[0].args[0]) == "self.http_conn"
    cx.ob("R17c", hc[0] if hc else clone, ok, "the clone's connection wraps the original's connection" if ok else "clone's connection is not derived from self.http_conn")
    # the cache is an instance attribute created in __init__
    st = [s for s in walk_local(mc_init) if isinstance(s, ast.Assign) and any(is_self_attr(t, "_mc_conns_by_prefix") for t in s.targets)]
    ok = len(st) == 1 and isinstance(st[0].value, ast.Dict) and not st[0].value.keys and parent(st[0]) is mc_init
    cx.ob("R17c", st[0] if st else mc_init, ok, "per-prefix connection cache is created empty per caller object" if ok else "per-prefix cache is not a fresh per-instance dict")
    mcls = enclosing(mc_init, (ast.ClassDef,))
    cl = class_attr(mcls, "_mc_conns_by_prefix")
    cx.ob("R17c", mcls, cl is None, "no class-level cache" if cl is None else "class-level connection cache is shared by all callers and clones", stmt="class-level cache")


# ------------------------------------------------------------------------------------------------ R17d
def _r17d(cx, repo, do_req, base_init):
    loops = [n for n in do_req.body if isinstance(n, ast.For)]
    p_ad = params(do_req)[1]
    req_loop = [l for l in loops if any(call_name(c) == "process_req_args" for c in ast.walk(l) if isinstance(c, ast.Call))]
    resp_loop = [l for l in loops if any(call_name(c) == "process_response" for c in ast.walk(l) if isinstance(c, ast.Call))]
    cx.need(len(req_loop) == 1 and len(resp_loop) == 1, "R17d", do_req, "request / response adapter loops")
    rl, pl = req_loop[0], resp_loop[0]
    ok = is_name(rl.iter, p_ad)
    cx.ob("R17d", rl, ok, "request adapters are applied in list order, each exactly once" if ok else f"request adapters iterate {norm(rl.iter)}")
    c = [x for x in ast.walk(rl) if isinstance(x, ast.Call) and call_name(x) == "process_req_args"][0]
    ok = isinstance(c.func, ast.Attribute) and is_name(c.func.value, rl.target.id) and len(c.args) == 1 and is_name(c.args[0], "req_args") and len(rl.body) == 1
    cx.ob("R17d", c, ok, "each adapter processes the one request record" if ok else "adapter call altered", stmt=norm(c) + " [call]")
    it = pl.iter
    rev = (isinstance(it, ast.Subscript) and is_name(it.value, p_ad) and isinstance(it.slice, ast.Slice) and it.slice.lower is None and it.slice.upper is None and it.slice.step is not None and norm(it.slice.step) == "-1") or \
          (isinstance(it, ast.Call) and call_name(it) == "reversed" and is_name(it.args[0], p_ad))
    cx.ob("R17d", pl, rev, "response processors run over the reversed adapter list" if rev else f"response processors iterate {norm(it)} (not the reversed list)")
    st = pl.body[0] if pl.body else None
    ok = len(pl.body) == 1 and isinstance(st, ast.Assign) and isinstance(st.value, ast.Call) and call_name(st.value) == "process_response" and \
        len(st.value.args) == 1 and norm(st.value.args[0]) == norm(st.targets[0])
    cx.ob("R17d", st or pl, ok, "each processor receives the previous processor's result" if ok else "response value is not threaded through the processors")
    rets = [r for r in do_req.body if isinstance(r, ast.Return)]
    ok = bool(rets) and st is not None and isinstance(st, ast.Assign) and norm(rets[-1].value) == norm(st.targets[0])
    cx.ob("R17d", rets[-1] if rets else do_req, ok, "the processed value is returned" if ok else "do_request does not return the processed value")
    # own + parent
    st = [s for s in walk_local(base_init) if isinstance(s, ast.Assign) and any(is_self_attr(t, "adapters") for t in s.targets)]
    cx.need(len(st) == 1, "R17d", base_init, "self.adapters assignment")
    v = st[0].value
    ok = isinstance(v, ast.BinOp) and isinstance(v.op, ast.Add) and norm(v.left) in ("self.own_adapters", params(base_init)[1]) and norm(v.right).endswith(".adapters") and "parent" in norm(v.right)
    if not ok and isinstance(v, ast.List) and len(v.elts) == 2 and all(isinstance(e, ast.Starred) for e in v.elts):
        ok = norm(v.elts[0].value) in ("self.own_adapters", params(base_init)[1]) and norm(v.elts[1].value).endswith(".adapters")
    cx.ob("R17d", st[0], ok, "own adapters first, then the parent's (inner prefixes are applied last = outermost)" if ok else
          f"adapter list is {norm(v)}: own adapters must precede the wrapped connection's")
    # request methods hand self.adapters and their own verb
    bcls = enclosing(base_init, (ast.ClassDef,))
    for verb in ("get", "post", "put", "delete", "patch"):
        f = cx.repo.method(bcls, verb)
        cx.need(f is not None, "R17d", f"{REL}::_HttpConnBase.{verb}", "vanished")
        c = [x for x in walk_local(f) if isinstance(x, ast.Call) and call_name(x) == "do_request"]
        ok = len(c) == 1 and len(c[0].args) >= 7 and norm(c[0].args[0]) == "self.adapters" and [norm(a) for a in c[0].args[1:]] == ["path", repr(verb.upper()).replace('"', "'"), "params", "data", "headers", "raw_response"]
        cx.ob("R17d", c[0] if c else f, ok, f"{verb}() sends self.adapters, its verb and the caller's arguments in order" if ok else
              f"{verb}() passes {[norm(a) for a in c[0].args] if c else '?'}")


# ------------------------------------------------------------------------------------------------ R17e
def _r17e(cx, repo):
    m = repo.mod(REL)
    ad_base = cx.cls(REL, "RequestAdapter", "R17e")
    adapters = [c for c in repo.subclasses(ad_base)]
    cx.at_least("R17e", "adapter classes", len(adapters), 4)
    setters = []
    for c in adapters:
        f = repo.method(c, "process_req_args")
        if f is None or enclosing(f, (ast.ClassDef,)) is not c:
            continue
        stores = [n for n in walk_local(f) if isinstance(n, ast.Subscript) and isinstance(n.ctx, ast.Store) and const(n.slice, str) and n.slice.value.lower() == "authorization"]
        at = class_attr(c, "AUTH_TYPE")
        has_type = at is not None and not (const(at) and at.value is None)
        if stores:
            setters.append(c)
        cx.ob("R17e", c, bool(stores) == has_type, ("AUTH_TYPE is set and the adapter sets Authorization" if stores else "no Authorization, AUTH_TYPE is None") if bool(stores) == has_type else
              ("adapter sets Authorization but AUTH_TYPE is None" if stores else "AUTH_TYPE is set but no Authorization header is produced"), stmt=f"class {c.name} AUTH_TYPE")
        for s in stores:
            key = s.slice.value
            dct = norm(s.value)
            st = enclosing_stmt(s)
            blk = parent(st)
            before = [x for x in f.body[: f.body.index(st)]] if st in f.body else []
            asserted = any(isinstance(x, ast.Assert) and isinstance(x.test, ast.Compare) and isinstance(x.test.ops[0], ast.NotIn) and const(x.test.left, str)
                           and x.test.left.value == key and norm(x.test.comparators[0]) == dct for x in before)
            cx.ob("R17e", s, asserted, f"asserts {key!r} is absent from the same dict before setting it (one Authorization header)" if asserted else
                  f"{key!r} is set without first asserting it is absent under the same spelling (a second auth layer would silently overwrite)")
            cx.ob("R17e", s, key == "Authorization", "header name is 'Authorization'" if key == "Authorization" else f"header name {key!r}", stmt=norm(st) + " [name]")
            n_stores = len(stores)
            cx.ob("R17e", s, n_stores == 1, "set once" if n_stores == 1 else "set several times", stmt=norm(st) + " [once]")
    cx.at_least("R17e", "authenticating adapters", len(setters), 3)
    # credentials: Basic
    for cname, a, b in (("BAuthConn.Adapter", 0, 1), ("ClientAuthConn.Adapter", 1, 2)):
        init = cx.func(REL, cname + ".__init__", "R17e")
        ps = params(init)[1:]
        st = [s for s in walk_local(init) if isinstance(s, ast.Assign) and any(is_self_attr(t, "bauth_header") for t in s.targets)]
        cx.need(len(st) == 1, "R17e", init, "bauth_header assignment")
        v = st[0].value
        ok = isinstance(v, ast.BinOp) and isinstance(v.op, ast.Add) and const(v.left, bytes) and v.left.value == b"Basic " and isinstance(v.right, ast.Call) and dotted(v.right.func) == "base64.b64encode"
        cred = None
        if ok:
            arg = v.right.args[0]
            ok = isinstance(arg, ast.Call) and isinstance(arg.func, ast.Attribute) and arg.func.attr == "encode" and isinstance(arg.func.value, ast.JoinedStr)
            if ok:
                js = arg.func.value.values
                ok = len(js) == 3 and isinstance(js[0], ast.FormattedValue) and const(js[1], str) and js[1].value == ":" and isinstance(js[2], ast.FormattedValue) and \
                    is_name(js[0].value, ps[a]) and is_name(js[2].value, ps[b]) and js[0].conversion == -1 and js[2].conversion == -1 and js[0].format_spec is None and js[2].format_spec is None
                enc = arg.args[0].value if arg.args and const(arg.args[0], str) else (arg.keywords[0].value.value if arg.keywords and const(arg.keywords[0].value, str) else "utf-8")
                ok = ok and enc.lower().replace("-", "") == "utf8"
        cx.ob("R17e", st[0], ok, f"Basic header = b'Basic ' + b64('{ps[a]}:{ps[b]}')" if ok else "Basic credentials are not b'Basic ' + base64(f'{id}:{secret}'.encode('utf-8')) of the constructor arguments")
        f = cx.func(REL, cname + ".process_req_args", "R17e")
        stv = [s for s in walk_local(f) if isinstance(s, ast.Assign) and isinstance(s.targets[0], ast.Subscript)]
        ok = len(stv) == 1 and norm(stv[0].value) == "self.bauth_header"
        cx.ob("R17e", stv[0] if stv else f, ok, "the prepared header value is sent" if ok else "Authorization value is not the prepared header")
    init = cx.func(REL, "TokenAuthConn.Adapter.__init__", "R17e")
    tok = params(init)[1]
    st = [s for s in walk_local(init) if isinstance(s, ast.Assign) and any(is_self_attr(t, "header") for t in s.targets)]
    ok = len(st) == 1 and isinstance(st[0].value, ast.JoinedStr) and len(st[0].value.values) == 2 and const(st[0].value.values[0], str) and st[0].value.values[0].value == "Bearer " \
        and isinstance(st[0].value.values[1], ast.FormattedValue) and is_name(st[0].value.values[1].value, tok)
    cx.ob("R17e", st[0] if st else init, ok, "token header = 'Bearer ' + token" if ok else "token header is not f'Bearer {token}'")
    # connection classes hand the adapter built from their own arguments, in order
    for cname in ("BAuthConn", "ClientAuthConn", "TokenAuthConn"):
        init = cx.func(REL, cname + ".__init__", "R17e")
        ps = params(init)
        sup = [c for c in walk_local(init) if isinstance(c, ast.Call) and isinstance(c.func, ast.Attribute) and c.func.attr == "__init__" and norm(c.func.value) == "super()"]
        ok = len(sup) == 1 and len(sup[0].args) == 2 and is_name(sup[0].args[1], ps[1]) and isinstance(sup[0].args[0], ast.Call) and norm(sup[0].args[0].func) == "self.Adapter" \
            and [norm(a) for a in sup[0].args[0].args] == ps[2:]
        cx.ob("R17e", sup[0] if sup else init, ok, f"{cname} installs its adapter built from its own arguments, in order" if ok else f"{cname} constructor wiring altered")
    # prefix adapter
    f = cx.func(REL, "RequestAdapterAddPathPrefix.process_req_args", "R17d")
    st = [s for s in walk_local(f) if isinstance(s, ast.Assign) and isinstance(s.targets[0], ast.Attribute) and s.targets[0].attr == "path"]
    ok = len(st) == 1 and isinstance(st[0].value, ast.BinOp) and isinstance(st[0].value.op, ast.Add) and norm(st[0].value.left) == "self.prefix"
    cx.ob("R17d", st[0] if st else f, ok, "the prefix is put in front of the path built so far" if ok else "prefix adapter does not prepend its prefix")


# ------------------------------------------------------------------------------------------------ R17f
def _r17f(cx, get_conn):
    asserts = [a for a in walk_local(get_conn) if isinstance(a, ast.Assert)]
    one = [a for a in asserts if isinstance(a.test, ast.Compare) and isinstance(a.test.ops[0], ast.Eq) and const(a.test.comparators[0], int) and a.test.comparators[0].value == 1
           and norm(a.test.left).startswith("len(")]
    cx.ob("R17f", one[0] if one else get_conn, len(one) == 1, "exactly one matching component is required" if len(one) == 1 else "the exactly-one-component assertion is missing")
    mk = [c for c in walk_local(get_conn) if isinstance(c, ast.Call) and call_name(c) == "HttpConn"]
    cx.need(len(mk) == 1, "R17f", get_conn, "one derived-connection construction expected")
    c = mk[0]
    base_ok = c.args and is_name(c.args[0]) and any(norm(v) == "self.http_conn" for _, v in assignments(get_conn, c.args[0].id) if v is not None)
    cx.ob("R17f", c, bool(base_ok), "per-prefix connection is derived from the caller's base connection" if base_ok else "derived connection does not wrap self.http_conn")
    kw = {k.arg: k.value for k in c.keywords}
    ad = kw.get("adapters")
    def _is_prefix_adapter(v):
        return isinstance(v, ast.Call) and call_name(v) == "RequestAdapterAddPathPrefix" and len(v.args) == 1
    if isinstance(ad, ast.Name):
        cands = [v for _, v in assignments(get_conn, ad.id) if v is not None]
    elif isinstance(ad, (ast.List, ast.Tuple)):
        cands = list(ad.elts) if len(ad.elts) == 1 else [None]
    else:
        cands = [ad]
    ok = bool(cands) and all(_is_prefix_adapter(v) for v in cands)
    if not ok and ad is not None and not any(isinstance(v, (ast.Call, ast.List, ast.Tuple)) or v is None for v in cands):
        raise AnalysisError("R17f", "ak/mcaller_http.py::MCallerHttp.get_conn", f"adapters argument `{norm(ad)[:60]}` not resolved")
    cx.ob("R17f", c, ok, "with exactly one path-prefix adapter" if ok else "derived connection does not get a single path-prefix adapter", stmt=norm(enclosing_stmt(c)) + " [adapter]")
    # cache: lookup key == store key == prefix used for the adapter
    stores = [n for n in walk_local(get_conn) if isinstance(n, ast.Subscript) and isinstance(n.ctx, ast.Store)]
    loads = [n for n in walk_local(get_conn) if isinstance(n, ast.Subscript) and isinstance(n.ctx, ast.Load) and any(norm(n.value) == norm(s.value) for s in stores)]
    ok = len(stores) == 1 and len(loads) == 1 and norm(stores[0].slice) == norm(loads[0].slice)
    if ok and isinstance(ad, ast.Name):
        adv = [v for _, v in assignments(get_conn, ad.id) if isinstance(v, ast.Call)]
        ok = bool(adv) and norm(adv[0].args[0]) == norm(stores[0].slice)
    cx.ob("R17f", stores[0] if stores else get_conn, ok, "cache is read and written under the prefix the adapter was built with" if ok else "cache key differs between lookup, store and adapter prefix")
    if stores:
        guard = any(isinstance(e, ast.Compare) and isinstance(e.ops[0], ast.In) and not pol and norm(e.left) == norm(stores[0].slice) for e, pol in facts(stores[0]))
        cx.ob("R17f", stores[0], guard, "a connection is created only when the prefix is not cached yet" if guard else "derived connection is re-created / overwritten although cached", stmt=norm(enclosing_stmt(stores[0])) + " [guard]")
    rets = [r for r in walk_local(get_conn) if isinstance(r, ast.Return)]
    cache = norm(stores[0].value) if stores else None

    def conn_value(v):      # a connection: a local name, or the cached entry for this prefix
        return isinstance(v, ast.Name) or (isinstance(v, ast.Subscript) and stores and norm(v.value) == cache and norm(v.slice) == norm(stores[0].slice))
    ok = bool(rets) and all(r.value is not None and conn_value(r.value) for r in rets)
    cx.ob("R17f", rets[0] if rets else get_conn, ok, "every exit returns a connection (the base one, the cached one or the new one)" if ok else
          "an exit of get_conn does not return the chosen connection", stmt="returns a connection")


# ------------------------------------------------------------------------------------------------ R17g
def _r17g(cx, do_req):
    rq = [c for c in walk_local(do_req) if isinstance(c, ast.Call) and dotted(c.func) in ("urllib.request.Request", "Request")]
    cx.need(len(rq) == 1, "R17g", do_req, "one urllib Request construction expected")
    c = rq[0]
    kw = {k.arg: k.value for k in c.keywords}
    url = c.args[0] if c.args else kw.get("url")

    def sources(e, depth=0, seen=None):
        seen = seen if seen is not None else set()
        out = set()
        for n in ast.walk(e):
            if isinstance(n, ast.Name) and isinstance(n.ctx, ast.Load) and n.id not in seen:
                seen.add(n.id)
                out.add(n.id)
                for st, v in assignments(do_req, n.id):
                    if v is not None and depth < 6:
                        out |= sources(v, depth + 1, seen)
                    elif isinstance(st, ast.AugAssign):
                        out |= sources(st.value, depth + 1, seen)
        return out
    checks = (("url", url, {"address", "path", "params"}, set()), ("data", kw.get("data"), {"data"}, {"headers", "method", "path", "params", "address"}),
              ("method", kw.get("method"), {"method"}, {"headers", "path", "params", "address"}), ("headers", kw.get("headers"), {"headers"}, {"data", "method", "path", "params", "address"}))
    for name, e, must, mustnot in checks:
        if e is None:
            cx.ob("R17g", c, False, f"Request gets no {name}", stmt=f"Request {name}")
            continue
        src = sources(e)
        ok = must <= src and not (mustnot & src)
        cx.ob("R17g", c, ok, f"Request {name} derives from {sorted(must)}" if ok else f"Request {name} derives from {sorted(src & (must | mustnot | {'address', 'path'}))}, expected {sorted(must)}", stmt=f"Request {name}")
    # the request handed to the opener is that request
    op = [x for x in walk_local(do_req) if isinstance(x, ast.Call) and call_name(x) == "open"]
    ok = len(op) == 1 and len(op[0].args) == 1 and is_name(op[0].args[0]) and any(v is c for _, v in assignments(do_req, op[0].args[0].id))
    cx.ob("R17g", op[0] if op else do_req, ok, "the assembled request is the one sent" if ok else "another object is sent")
    # url = address + path (+ '?' + urlencode(params))
    urls = [v for _, v in assignments(do_req, url.id)] if isinstance(url, ast.Name) else []
    def path_var(e):
        """a name holding the (possibly extended) path: `path` itself or a local initialised from it"""
        return isinstance(e, ast.Name) and (e.id == "path" or any(v is not None and is_name(v, "path") for _, v in assignments(do_req, e.id)))
    ok = len(urls) == 1 and isinstance(urls[0], ast.BinOp) and isinstance(urls[0].op, ast.Add) and is_name(urls[0].left, "address") and path_var(urls[0].right)
    cx.ob("R17g", c, ok, "url = address + path" if ok else "url is not address + path", stmt="url = address + path")
    enc = [x for x in walk_local(do_req) if isinstance(x, ast.Call) and call_name(x) == "urlencode"]
    ok = len(enc) == 1 and is_name(enc[0].args[0], "params") and any(is_name(e, "params") and pol for e, pol in facts(enc[0]))
    cx.ob("R17g", enc[0] if enc else do_req, ok, "params are url-encoded onto the path when present" if ok else "params are not url-encoded exactly when present")
    if enc:
        st = enclosing_stmt(enc[0])
        ok = isinstance(st, ast.AugAssign) and path_var(st.target) and isinstance(st.value, ast.BinOp) and const(st.value.left, str) and st.value.left.value == "?"
        cx.ob("R17g", st, ok, "path += '?' + urlencode(params)" if ok else "query string is not appended as '?' + urlencode(params)", stmt=norm(st) + " [form]")


# ------------------------------------------------------------------------------------------------ R17h
def _r17h(cx, do_req):
    # the segment between unpacking the (adapter-processed) arguments and building the urllib Request is interpreted over the
    # finite kinds of `data` / `method`; what reaches Request(data=.., method=..) is compared with the specification
    un = [st for st in do_req.body if isinstance(st, ast.Assign) and isinstance(st.targets[0], ast.Tuple) and isinstance(st.value, ast.Call) and call_name(st.value) == "args"]
    rq = [st for st in do_req.body if any(isinstance(c, ast.Call) and dotted(c.func) in ("urllib.request.Request", "Request") for c in ast.walk(st))]
    cx.need(len(un) == 1 and len(rq) == 1, "R17h", do_req, "argument unpacking and Request construction at the top level of do_request")
    seg = do_req.body[do_req.body.index(un[0]) + 1:do_req.body.index(rq[0])]
    rcall = next(c for c in ast.walk(rq[0]) if isinstance(c, ast.Call) and dotted(c.func) in ("urllib.request.Request", "Request"))
    kw = {k.arg: k.value for k in rcall.keywords}
    cx.need("data" in kw and "method" in kw, "R17h", rcall, "Request(data=.., method=..)")

    def hook(it, e, env):
        nm = call_name(e)
        if nm == "encode" and isinstance(e.func, ast.Attribute):
            recv = it.ev(e.func.value, env)
            enc = None
            for a in e.args:
                enc = a.value if const(a, str) else enc
            for k in e.keywords:
                if k.arg == "encoding" and const(k.value, str):
                    enc = k.value.value
            return K("bytes", None, ("encode", getattr(recv, "tag", repr(recv)), (enc or "utf-8").lower().replace("-", "")))
        if nm == "dumps" and norm(e.func).startswith("json.") and e.args:
            v = it.ev(e.args[0], env)
            extra = tuple(sorted(k.arg for k in e.keywords))
            return K("str", None, ("json", getattr(v, "tag", repr(v))) + extra)
        if nm == "upper" and isinstance(e.func, ast.Attribute) and not e.args:
            recv = e.func.value
            if isinstance(recv, ast.Call) and call_name(recv) == "str" and len(recv.args) == 1:
                v = it.ev(recv.args[0], env)
                return K("str", False, ("upper", getattr(v, "tag", repr(v))))
            v = it.ev(recv, env)
            return K("str", False, ("upper", getattr(v, "tag", repr(v))))
        return None
    base_env = {"address": K("str", False, "addr"), "path": K("str", None, "path"), "params": C(None), "headers": K("dict", None, "hdr"), "method": C(None), "data": C(None)}
    cases = [("None", C(None), ("none",)), ("bytes", K("bytes", None, "input"), ("same",)), ("str", K("str", None, "input"), ("encode", "input", "utf8")),
             ("dict", K("dict", None, "input"), ("encode", ("json", "input"), "utf8")), ("list", K("list", None, "input"), ("encode", ("json", "input"), "utf8")),
             ("other object", K("other", None, "input"), ("encode", ("json", "input"), "utf8")),
             ("empty bytes", K("bytes", True, "input"), ("same",)), ("empty str", K("str", True, "input"), ("encode", "input", "utf8")),
             ("empty dict", K("dict", True, "input"), ("encode", ("json", "input"), "utf8")), ("empty list", K("list", True, "input"), ("encode", ("json", "input"), "utf8"))]
    for label, val, want in cases:
        it = Interp(call_hook=hook)
        env = dict(base_env)
        env["data"] = val
        outs = it.run(seg, env)
        got = set()
        for o in outs:
            if o.how != "fall":
                got.add((o.how, str(o.value)))
                continue
            v = it.ev(kw["data"], o.env)
            if isinstance(v, C) and v.v is None:
                got.add(("none",))
            elif isinstance(v, K) and v.tag == "input":
                got.add(("same",))
            elif isinstance(v, K) and isinstance(v.tag, tuple):
                got.add(v.tag)
            else:
                got.add(("?", repr(v)))
        ok = got == {want}
        cx.ob("R17h", rcall, ok, f"data of kind {label}: body is {want}" if ok else f"data of kind {label}: body becomes {sorted(map(str, got))}, expected {want}", stmt=f"body for {label}")
    # method: given -> upper-cased str(method); absent -> POST with a (truthy) body, GET without
    mcases = [("None, no body", C(None), C(None), "GET"), ("None, body", C(None), K("dict", False, "input"), "POST"), ("None, empty body", C(None), K("dict", True, "input"), "GET"),
              ("'', body", C(""), K("str", False, "input"), "POST"), ("given", K("str", False, "m"), C(None), ("upper", "m")), ("given, body", K("other", False, "m"), K("dict", False, "input"), ("upper", "m"))]
    for label, mval, dval, want in mcases:
        it = Interp(call_hook=hook)
        env = dict(base_env)
        env["method"], env["data"] = mval, dval
        got = set()
        for o in it.run(seg, env):
            if o.how != "fall":
                got.add((o.how, str(o.value)))
                continue
            v = it.ev(kw["method"], o.env)
            got.add(v.v if isinstance(v, C) else v.tag if isinstance(v, K) else repr(v))
        ok = got == {want}
        cx.ob("R17h", rcall, ok, f"method {label}: {want}" if ok else f"method {label}: request method becomes {sorted(map(str, got))}, expected {want}", stmt=f"method for {label}")
    # Content-Type default only for the JSON branch and only when absent
    cts = [n for st in seg for n in ast.walk(st) if isinstance(n, ast.Subscript) and isinstance(n.ctx, ast.Store) and const(n.slice, str) and n.slice.value.lower() == "content-type"]
    ok = len(cts) == 1
    if ok:
        st = enclosing_stmt(cts[0])

        def is_data(e):     # `data` or a local initialised from it
            return isinstance(e, ast.Name) and (e.id == "data" or any(v is not None and is_name(v, "data") for _, v in assignments(do_req, e.id)))
        fs = facts(cts[0])
        absent = any(isinstance(e, ast.Compare) and len(e.ops) == 1 and const(e.left, str) and e.left.value == "Content-Type" and norm(e.comparators[0]) == norm(cts[0].value) and
                     (isinstance(e.ops[0], ast.NotIn) and pol or isinstance(e.ops[0], ast.In) and not pol) for e, pol in fs)

        def not_type(t):
            return any(isinstance(e, ast.Call) and call_name(e) == "isinstance" and not pol and is_data(e.args[0]) and
                       (is_name(e.args[1], t) or isinstance(e.args[1], ast.Tuple) and any(is_name(x, t) for x in e.args[1].elts)) for e, pol in fs)
        # which kinds of data reach the store: decided by interpreting the segment per kind and recording the store
        reach = {}
        for label, val, _w in cases:
            it = Interp(call_hook=hook)
            it.record_stores = True
            env = dict(base_env)
            env["data"] = val
            hit = False
            for o in it.run(seg, env):
                hit = hit or any(ev_[0] == "store" and ev_[4] is st for ev_ in o.env.get("@events", ()))
            reach[label] = hit
        json_kinds = {"dict", "list", "other object", "empty dict", "empty list"}
        kinds_ok = all(reach[k] == (k in json_kinds) for k in reach)
        ok = absent and kinds_ok and norm(st.value) == "'application/json'" and cts[0].slice.value == "Content-Type"
    cx.ob("R17h", cts[0] if cts else rcall, ok, "JSON bodies get Content-Type: application/json unless the caller set one" if ok else "Content-Type default is not (JSON branch only, only when absent, same key)")
    # response decoding
    rd = [st for st in do_req.body if isinstance(st, ast.If) and norm(st.test) == "not raw_response"]
    ok = len(rd) == 1 and any("decode('utf-8')" in norm(x) for x in rd[0].body) and any("json.loads" in norm(x) for x in ast.walk(rd[0])) and [norm(x) for x in rd[0].orelse] == ["ret_val = response"]
    # (decoding of the response is not part of the property: recorded when recognised, otherwise only noted)
    if ok:
        cx.ob("R17h", rd[0], True, "response: raw object on request, else utf-8 text parsed as JSON when non-empty")
    else:
        cx.note("R17h: response decoding is not in the form known to this check; the property does not speak about it, no obligation recorded")
