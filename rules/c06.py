"""C06 — history report: branch ordering and 'only matching commits are listed' (third sentence only)."""
import ast

from sa.core import (AnalysisError, FUNC, assignments, call_name, class_attr, const, dotted, enclosing, enclosing_func,
                     enclosing_stmt, is_attr, is_name, is_self_attr, literal, norm, params, parent, walk_local, names_in, ancestors)
from sa.guards import facts, enclosing_loops, split
from sa.finite import Interp, C, K, S, TOP

PROP = "C06"
REL = "ak/ghist.py"
EXPLANATION = (
    "Only the third sentence of the property (ordering of branches, and that no non-matching commit is listed) is decided; the "
    "attribution of commits to builds is the outcome of graph searches over arbitrary histories and is NOT decided. R06a: finite "
    "abstract interpretation of BranchName.cmp._cmp_sort_items over item kinds {int,str}^2 x relation {<,=,>} (values are "
    "touched only through isinstance, -, <, >): the sign is antisymmetric, zero exactly on equal items, ints sort below strings; "
    "the list extension is lexicographic with length as tie-break; Comparable derives the six operators from cmp with the "
    "matching comparison. R06b: branches are sorted by the BranchName component; numeric chunks become ints; the master/main "
    "entry is built with a string sort prefix put in front. R06c: the report formatter enumerates commits of a build only "
    "through RBuild.get_printable_rcommits, which filters on is_explicit; the 'not merged' set is filtered on is_explicit and on "
    "absence from this branch; is_explicit is the value of the search predicate on that commit, and the predicate is "
    "`search_text in commit.message`. R06d (cache discipline, a structural necessary condition of the attribution clauses): the "
    "per-repository caches of classified commits are written only by the registration step of the branch reader; the list "
    "cached under visited_commits belongs to an accumulator already popped off the live stack; a list read back from the "
    "cache is only iterated / tested / copied, never bound to an attribute that is grown in place nor mutated."
)


class _RelInterp(Interp):
    """Comparisons between the two compared items are decided by the abstract relation self.rel in {'lt','eq','gt'}."""

    def __init__(self, a, b, rel):
        super().__init__()
        self.a, self.b, self.rel = a, b, rel

    def test(self, t, env):
        if isinstance(t, ast.Compare) and len(t.ops) == 1 and {norm(t.left), norm(t.comparators[0])} == {self.a, self.b}:
            fwd = norm(t.left) == self.a
            rel = self.rel if fwd else {"lt": "gt", "gt": "lt", "eq": "eq"}[self.rel]
            op = t.ops[0]
            table = {ast.Gt: rel == "gt", ast.Lt: rel == "lt", ast.GtE: rel in ("gt", "eq"), ast.LtE: rel in ("lt", "eq"), ast.Eq: rel == "eq", ast.NotEq: rel != "eq"}
            if type(op) in table:
                return [(table[type(op)], env)]
        return super().test(t, env)


def run(cx):
    repo = cx.repo
    for r, t in (("R06a", "the branch comparator is a total order with ints below strings"),
                 ("R06b", "branches are sorted with it; master/main sorts last through a string prefix"),
                 ("R06c", "only commits matching the search text are listed"),
                 ("R06e", "'not merged' never lists a commit reachable from this branch's head"),
                 ("R06f", "'not merged' candidates: everything listed in or reachable from the previous branch")):
        cx.rule(r, t)
    cmpf = cx.func(REL, "BranchName.cmp", "R06a")
    inner = [f for f in ast.walk(cmpf) if isinstance(f, FUNC) and f is not cmpf]
    cx.need(len(inner) == 1, "R06a", cmpf, "item comparator")
    ic = inner[0]
    a, b = params(ic)
    n = 0
    for ka in ("int", "str"):
        for kb in ("int", "str"):
            for rel in ("lt", "eq", "gt"):
                if ka != kb and rel != "lt":
                    continue   # relation between an int and a str is irrelevant: one case each
                n += 1
                it = _RelInterp(a, b, rel)
                outs = it.run(ic.body, {a: K(ka, None, "x"), b: K(kb, None, "y")})
                signs = set()
                for o in outs:
                    if o.how != "return":
                        signs.add(f"{o.how}")
                        continue
                    v = o.value
                    if isinstance(v, C) and isinstance(v.v, int):
                        signs.add((v.v > 0) - (v.v < 0))
                    elif isinstance(o.node.value, ast.BinOp) and isinstance(o.node.value.op, ast.Sub) and {norm(o.node.value.left), norm(o.node.value.right)} == {a, b}:
                        s = {"lt": -1, "eq": 0, "gt": 1}[rel]
                        signs.add(s if norm(o.node.value.left) == a else -s)
                    else:
                        signs.add(f"?{norm(o.node.value)}")
                if ka == kb:
                    want = {"lt": -1, "eq": 0, "gt": 1}[rel]
                    label = f"({ka} x {rel} {kb} y)"
                else:
                    want = -1 if ka == "int" else 1
                    label = f"({ka}, {kb})"
                ok = signs == {want}
                cx.ob("R06a", ic, ok, f"{label}: sign {want}" if ok else f"{label}: comparator returns sign(s) {sorted(map(str, signs))}, a total order with ints below strings needs {want}", stmt=f"item compare {label}")
    cx.counts["R06a:abstract cases"] = n
    # list extension
    loops = [l for l in cmpf.body if isinstance(l, ast.For)]
    ok = len(loops) == 1 and norm(loops[0].iter) == "zip(self._sort_items, other._sort_items)"
    if ok:
        l = loops[0]
        body = [norm(s) for s in l.body]
        ok = len(l.body) == 2 and body[0] == f"result = {ic.name}({norm(l.target.elts[0])}, {norm(l.target.elts[1])})" and isinstance(l.body[1], ast.If) and norm(l.body[1].test) == "result != 0" \
            and [norm(s) for s in l.body[1].body] == ["return result"]
    cx.ob("R06a", loops[0] if loops else cmpf, ok, "items are compared pairwise in order; the first difference decides" if ok else "lexicographic comparison loop altered")
    last = cmpf.body[-1]
    ok = isinstance(last, ast.Return) and norm(last.value) == "len(self._sort_items) - len(other._sort_items)"
    cx.ob("R06a", last, ok, "equal prefixes: the shorter name sorts first" if ok else "length tie-break altered")
    # Comparable
    cmpb = cx.cls("ak/utils.py", "Comparable", "R06a")
    want = {"__lt__": "<", "__gt__": ">", "__eq__": "==", "__le__": "<=", "__ge__": ">=", "__ne__": "!="}
    for nm, op in want.items():
        f = repo.method(cmpb, nm)
        ok = f is not None and any(isinstance(r, ast.Return) and norm(r.value) == f"self.cmp({params(f)[1]}) {op} 0" for r in walk_local(f))
        cx.ob("R06a", f if f is not None else cmpb, ok, f"{nm} is cmp(other) {op} 0" if ok else f"Comparable.{nm} is not derived from cmp with `{op} 0`")
    bn = cx.cls(REL, "BranchName", "R06a")
    ok = any(norm(x) == "Comparable" for x in bn.bases)
    cx.ob("R06a", bn, ok, "BranchName takes its operators from Comparable" if ok else "BranchName no longer derives from Comparable")

    # ------------------------------------------------------------------ R06b
    rg_init = cx.func(REL, "RGraph.__init__", "R06b")
    srt = [c for c in walk_local(rg_init) if isinstance(c, ast.Call) and call_name(c) == "sort" and norm(c.func.value) == "branches_data"]
    ok = len(srt) == 1 and any(k.arg == "key" and isinstance(k.value, ast.Lambda) and norm(k.value.body) == f"{k.value.args.args[0].arg}[2]" for k in srt[0].keywords) and not any(k.arg == "reverse" for k in srt[0].keywords)
    cx.ob("R06b", srt[0] if srt else rg_init, ok, "branches are sorted ascending by their BranchName" if ok else "branch list is not sorted by the BranchName component")
    bl = [l for l in walk_local(rg_init) if isinstance(l, ast.For) and norm(l.iter) == "branches_data"]
    ok = len(bl) == 1 and srt and srt[0].lineno < bl[0].lineno
    cx.ob("R06b", bl[0] if bl else rg_init, ok, "branches are read in that order" if ok else "branches are not processed in sorted order")
    irb = cx.func(REL, "ProjectRepo.iter_release_branches", "R06b") if repo.has(REL, "ProjectRepo.iter_release_branches") else None
    if irb is None:
        cands = [f for m, q, f in repo.functions({REL}) if f.name == "iter_release_branches"]
        cx.need(len(cands) == 1, "R06b", f"{REL}::iter_release_branches", "branch enumerator")
        irb = cands[0]
    ys = [y for y in walk_local(irb) if isinstance(y, ast.Yield)]
    cx.need(len(ys) == 2, "R06b", irb, "two yield sites (master, release)")
    for y in ys:
        ok = isinstance(y.value, ast.Tuple) and len(y.value.elts) == 3
        third = y.value.elts[2] if ok else None
        d = [v for _, v in assignments(irb, third.id) if v is not None] if isinstance(third, ast.Name) else []
        is_master = any("master" in norm(e) for e, pol in facts(y) if pol)
        if is_master:
            mk = [v for v in d if isinstance(v, ast.Call) and call_name(v) == "BranchName" and any(k.arg == "sort_prefix" for k in v.keywords)]
            okm = ok and len(mk) >= 1
            if okm:
                sp = next(k.value for k in mk[0].keywords if k.arg == "sort_prefix")
                okm = isinstance(sp, ast.List) and len(sp.elts) >= 1 and const(sp.elts[0], str) and sp.elts[0].value >= "zzzz"
            cx.ob("R06b", y, okm, "master / main gets a string sort prefix (strings sort above every int and above ordinary remote names)" if okm else
                  "master / main is not given a leading string sort prefix: it can sort between release branches")
        else:
            okr = ok and any(isinstance(v, ast.Call) and call_name(v) == "BranchName" and not v.keywords and len(v.args) == 1 for v in d)
            cx.ob("R06b", y, okr, "release branches are compared by their plain name" if okr else "release branch entry altered")
    bn_init = cx.func(REL, "BranchName.__init__", "R06b")
    st = [s for s in walk_local(bn_init) if isinstance(s, ast.Assign) and norm(s.targets[0]) == "self._sort_items" and "sort_prefix" in norm(s.value)]
    ok = len(st) == 1 and norm(st[0].value) == "sort_prefix + self._sort_items"
    cx.ob("R06b", st[0] if st else bn_init, ok, "the prefix is put in front of the name's items" if ok else "sort prefix is not prepended")
    mk = cx.func(REL, "BranchName._mk_sort_items", "R06b")
    ys = [y for y in walk_local(mk) if isinstance(y, ast.Yield)]
    ok = len(ys) == 2 and any(isinstance(t, ast.Try) and any(isinstance(s, ast.Assign) and norm(s.value).startswith("int(") for s in t.body) and
                              any(norm(h.type) == "ValueError" for h in t.handlers) for t in walk_local(mk))
    cx.ob("R06b", mk, ok, "numeric chunks compare as numbers, others as strings" if ok else "numeric-aware item construction altered")
    sp = [v for _, v in assignments(mk, "s") if v is not None]
    ok = len(sp) == 1 and all(x in norm(sp[0]) for x in ("'/'", "'.'", "'-'", "'_'"))
    cx.ob("R06b", mk, ok, "names are split on / . - _" if ok else "chunk separators altered", stmt="separators")

    # ------------------------------------------------------------------ R06c
    gpr = cx.func(REL, "RBuild.get_printable_rcommits", "R06c")
    rets = [r for r in walk_local(gpr) if isinstance(r, ast.Return)]
    ok = len(rets) == 1 and isinstance(rets[0].value, ast.ListComp) and [norm(i) for i in rets[0].value.generators[0].ifs] == [f"{norm(rets[0].value.generators[0].target)}.is_explicit"] \
        and norm(rets[0].value.elt) == norm(rets[0].value.generators[0].target) and "self.rcommits.values()" in norm(rets[0].value.generators[0].iter)
    cx.ob("R06c", gpr, ok, "printable commits = the build's commits that match explicitly" if ok else "get_printable_rcommits does not filter exactly on is_explicit")
    fm = cx.cls(REL, "ReportFormatter", "R06c")
    n_enum = 0
    for f in [x for x in fm.body if isinstance(x, FUNC)]:
        for n in walk_local(f):
            if isinstance(n, ast.Attribute) and n.attr == "rcommits":
                cx.ob("R06c", n, False, "the formatter reads a build's raw commit map (non-matching commits could be listed)")
            if isinstance(n, ast.Call) and call_name(n) == "get_printable_rcommits":
                n_enum += 1
                cx.ob("R06c", n, True, "commits are enumerated through get_printable_rcommits")
    cx.at_least("R06c", "commit enumerations in the formatter", n_enum, 1)
    rb = [f for m, q, f in repo.functions({REL}) if f.name == "_read_branch"]
    cx.need(len(rb) == 1, "R06c", f"{REL}::_read_branch", "branch reader")
    nm = [v for _, v in assignments(rb[0], "not_merged_rcommits") if v is not None]
    # {k: v for k, v in all_commits_prev_branch.items() if v.is_explicit and k not in <sets of this branch> ...}: the names of the
    # comprehension's own variables and the spelling of the conjuncts are free
    conj = set()
    ok = len(nm) == 1 and isinstance(nm[0], ast.DictComp) and len(nm[0].generators) == 1
    if ok:
        g0 = nm[0].generators[0]
        ok = isinstance(g0.target, ast.Tuple) and len(g0.target.elts) == 2 and all(isinstance(e, ast.Name) for e in g0.target.elts)
    if ok:
        from sa.guards import canon_test
        k_, v_ = (e.id for e in g0.target.elts)
        for i in g0.ifs:
            conj |= canon_test(i)
        explicit = ("expr", f"{v_}.is_explicit", "", True)
        ok = explicit in conj and any(c[0] == "in" and c[1] == k_ and not c[3] for c in conj) \
            and all(c == explicit or (c[0] == "in" and c[1] == k_ and not c[3]) for c in conj) \
            and norm(g0.iter) == "all_commits_prev_branch.items()" and norm(nm[0].key) == k_ and norm(nm[0].value) == v_
    cx.ob("R06c", nm[0] if nm else rb[0], ok, "'not merged' = matching commits of the previous branch that are absent from this one" if ok else "'not merged' set filter altered")
    cx.guard(_r06e, cx, rb[0], nm[0] if nm else None, conj)
    # provenance of is_explicit
    rc_init = cx.func(REL, "RCommit.__init__", "R06c")
    ok = any(norm(s) == "self.is_explicit = is_explicit" for s in rc_init.body) and params(rc_init)[3] == "is_explicit"
    cx.ob("R06c", rc_init, ok, "RCommit stores the flag it is given" if ok else "RCommit.is_explicit altered")
    mk_sites = [c for m, q, f in repo.functions({REL}) for c in walk_local(f) if isinstance(c, ast.Call) and call_name(c) == "RCommit"]
    cx.at_least("R06c", "RCommit construction sites", len(mk_sites), 1)
    for c in mk_sites:
        ok = len(c.args) >= 3 and norm(c.args[2]).endswith(".selected_explicitely") and norm(c.args[0]) == norm(c.args[2]).rsplit(".", 1)[0] + ".commit"
        cx.ob("R06c", c, ok, "the flag is the accumulated 'selected explicitly' of that same commit" if ok else "RCommit is built with a flag not belonging to its commit")
    acc = [c for m, q, f in repo.functions({REL}) for c in walk_local(f) if isinstance(c, ast.Call) and call_name(c) == "_NodeAccumdat" and len(c.args) >= 2]
    cx.at_least("R06c", "accumulator construction sites", len(acc), 1)
    for c in acc:
        a0, a1 = c.args[0], c.args[1]
        ok = isinstance(a1, ast.Call) and norm(a1.func) == "search_predicate" and [norm(x) for x in a1.args] == [norm(a0)]
        if not ok and isinstance(a1, ast.Constant):
            ok = a1.value is False
        cx.ob("R06c", c, ok, "'selected explicitly' = search_predicate(that commit)" if ok else "'selected explicitly' is not the search predicate applied to the same commit")
    na = cx.func(REL, "RGraph._NodeAccumdat.__init__", "R06c")
    ok = any(norm(s) == "self.selected_explicitely = selected_explicitely" for s in na.body) and params(na)[1:3] == ["commit", "selected_explicitely"]
    cx.ob("R06c", na, ok, "the accumulator stores the flag unchanged" if ok else "_NodeAccumdat altered")
    sp = [f for m, q, f in repo.functions({REL}) for n in walk_local(f) if isinstance(n, ast.Assign) and is_name(n.targets[0], "search_predicate") and isinstance(n.value, ast.Lambda) for f in [n]]
    ok = len(sp) == 1 and norm(sp[0].value.body) == f"search_text in {sp[0].value.args.args[0].arg}.message"
    cx.ob("R06c", sp[0] if sp else REL, ok, "a commit matches iff the search text occurs in its message" if ok else "search predicate is not `search_text in commit.message`")
    cx.guard(_r06d, cx, repo, rb[0])


_COPIERS = {"list", "tuple", "sorted", "set", "frozenset", "dict", "len", "any", "all", "bool", "iter", "enumerate", "reversed", "sum", "min", "max", "isinstance", "repr", "str"}
_CACHES = ("done_commits", "visited_commits", "selected_commits")


def _r06d(cx, repo, rb):
    """Cache discipline of the per-repository commit caches.

    The caches hold the classification of commits made while reading lower-sorted branches and are consulted instead of
    re-examining a commit.  A value stored there is therefore frozen: (1) the caches are written only by the branch reader,
    write-once (guarded by `not in` assertions); (2) the list stored under visited_commits is the parents list of an
    accumulator that has been popped off the live DFS stack; (3) a value read back from visited_commits is only iterated /
    tested / copied - binding it to an attribute that has in-place mutation sites (the accumulators' rc_parents) or
    mutating it would change the cached ancestors of every commit sharing it.
    """
    cx.rule("R06d", "cached classifications of commits are frozen: written once by the branch reader, never aliased into a live accumulator")
    cache_cls = cx.cls(REL, "RGraph._RepoCache", "R06d") if repo.has(REL, "RGraph._RepoCache") else None
    # (1) who may write
    n_writes = 0
    for m, q, f in repo.functions({REL}):
        for n in walk_local(f):
            tgt = None
            if isinstance(n, (ast.Assign, ast.AugAssign, ast.Delete)):
                tl = n.targets if not isinstance(n, ast.AugAssign) else [n.target]
                for t in tl:
                    b = t.value if isinstance(t, ast.Subscript) else t
                    if isinstance(b, ast.Attribute) and b.attr in _CACHES:
                        tgt = (b.attr, "store")
            elif isinstance(n, ast.Call) and isinstance(n.func, ast.Attribute) and n.func.attr in ("add", "update", "pop", "clear", "discard", "remove", "setdefault", "popitem") \
                    and isinstance(n.func.value, ast.Attribute) and n.func.value.attr in _CACHES:
                tgt = (n.func.value.attr, n.func.attr)
            if tgt is None:
                continue
            if f.name == "__init__" and isinstance(n, ast.Assign) and is_self_attr(n.targets[0]):
                continue
            n_writes += 1
            ok = f is rb and tgt[1] in ("store", "add") and not isinstance(n, (ast.AugAssign, ast.Delete))
            if ok:
                cx.ob("R06d", n, True, f"{tgt[0]}: written by the registration step of the branch reader")
            else:
                cx.ob("R06d", n, False, f"{tgt[0]} is modified ({tgt[1]}) outside the registration step of the branch reader")
    cx.at_least("R06d", "cache write sites", n_writes, 3)
    # (2) what is stored under visited_commits
    stores = [n for n in walk_local(rb) if isinstance(n, ast.Assign) and isinstance(n.targets[0], ast.Subscript) and isinstance(n.targets[0].value, ast.Attribute) and n.targets[0].value.attr == "visited_commits"]
    cx.need(len(stores) >= 1, "R06d", rb, "store into visited_commits")
    for s in stores:
        v = s.value
        ok = isinstance(v, ast.Attribute) and isinstance(v.value, ast.Name)
        why = "stored value is not an accumulator's list"
        if ok:
            owner = v.value.id
            blk = parent(s)
            # owner bound by <stack>.pop() earlier in an enclosing statement list of the same loop iteration
            binds = [(st, val) for st, val in assignments(rb, owner) if val is not None]
            ok = len(binds) == 1 and isinstance(binds[0][1], ast.Call) and call_name(binds[0][1]) == "pop" and binds[0][0].lineno < s.lineno
            why = f"`{owner}` is not taken off the live stack (pop) before its list is cached"
            if ok:
                stack = norm(binds[0][1].func.value)
                later = [c for c in walk_local(rb) if isinstance(c, ast.Call) and call_name(c) in ("append", "insert", "extend") and norm(c.func.value) == stack and any(owner in names_in(a) for a in c.args)]
                muts = [c for c in walk_local(rb) if isinstance(c, ast.Call) and call_name(c) in MUT and norm(c.func.value) == norm(v) and c.lineno > s.lineno and _same_iteration(c, s)]
                ok = not later and not muts
                why = f"`{owner}` is pushed back / its list is mutated after being cached"
        elif isinstance(v, ast.Call) and call_name(v) in ("list", "tuple") or isinstance(v, (ast.List, ast.ListComp)):
            ok = True
        cx.ob("R06d", s, ok, "the cached list belongs to an accumulator already popped off the live stack (nothing appends to it afterwards)" if ok else why)
    # (3) reads of visited_commits values
    mut_attrs = set()
    for m, q, f in repo.functions({REL}):
        for c in walk_local(f):
            if isinstance(c, ast.Call) and call_name(c) in MUT and isinstance(c.func.value, ast.Attribute):
                mut_attrs.add(c.func.value.attr)
            if isinstance(c, ast.AugAssign) and isinstance(c.target, ast.Attribute):
                mut_attrs.add(c.target.attr)
    n_reads = 0
    all_funcs = [f for _m, _q, f in repo.functions({REL})]
    queue = []          # (function, [nodes that evaluate to a frozen cached list])
    for f in all_funcs:
        reads = []
        for n in walk_local(f):
            if isinstance(n, ast.Subscript) and isinstance(n.ctx, ast.Load) and isinstance(n.value, ast.Attribute) and n.value.attr == "visited_commits":
                reads.append(n)
            elif isinstance(n, ast.Call) and isinstance(n.func, ast.Attribute) and n.func.attr in ("get", "values", "items", "pop", "setdefault") and isinstance(n.func.value, ast.Attribute) and n.func.value.attr == "visited_commits":
                reads.append(n)
        n_reads += len(reads)
        if reads:
            queue.append((f, reads))
    returned_by = set()
    while queue:
        f, reads = queue.pop(0)
        work = list(reads)
        seen = set()
        while work:
            r = work.pop()
            if id(r) in seen:
                continue
            seen.add(id(r))
            p = parent(r)
            if isinstance(p, ast.Return) and f.name.startswith("_") and not f.name.startswith("__"):
                # a private helper hands the cached list to its callers: the value is followed into every call site
                if f.name not in returned_by:
                    returned_by.add(f.name)
                    for g in all_funcs:
                        sites = [c for c in walk_local(g) if isinstance(c, ast.Call) and call_name(c) == f.name]
                        if sites:
                            queue.append((g, sites))
                    cx.note(f"R06d: the cached list is returned by the private helper {f.name}; its call sites are checked like direct reads")
                continue
            use, ok, detail = _classify_use(r, p, mut_attrs)
            if use == "bind":
                nm = p.targets[0].id
                for u in walk_local(f):
                    if isinstance(u, ast.Name) and u.id == nm and isinstance(u.ctx, ast.Load) and u.lineno >= p.lineno:
                        work.append(u)
                continue
            if use == "loopvar":
                # `for k, v in cache.items()` / `for v in cache.values()`: the value variable is the frozen list
                tv = p.target.elts[-1] if isinstance(p.target, ast.Tuple) else p.target
                if isinstance(tv, ast.Name):
                    for u in ast.walk(p):
                        if isinstance(u, ast.Name) and u.id == tv.id and isinstance(u.ctx, ast.Load):
                            work.append(u)
                continue
            cx.ob("R06d", r, ok, detail, stmt=norm(enclosing_stmt(r))[:90] + f" [{norm(r)[:40]}]")
    cx.at_least("R06d", "reads of visited_commits", n_reads, 1)
    # positive control: the accumulators' parents list does have in-place mutation sites (otherwise rule (3) is vacuous)
    cx.need("rc_parents" in mut_attrs, "R06d", rb, "in-place growth of rc_parents (the reason why aliasing a cached list matters)")


MUT = {"append", "extend", "insert", "pop", "remove", "clear", "sort", "reverse", "update", "add", "discard", "setdefault", "popitem"}


def _same_iteration(a, b):
    la, lb = enclosing_loops(a), enclosing_loops(b)
    return bool(la) and bool(lb) and la[0] is lb[0]


def _classify_use(r, p, mut_attrs):
    """(kind, ok, detail) for one use of a frozen cached list `r` whose syntactic parent is `p`."""
    if isinstance(p, ast.Call) and isinstance(r, ast.Call) and r.func.attr in ("values", "items") and False:
        pass
    if isinstance(r, ast.Call) and r.func.attr in ("values", "items"):
        if isinstance(p, (ast.For, ast.comprehension)) and p.iter is r:
            return ("loopvar", True, "") if isinstance(p, ast.For) else ("read", True, "cached lists enumerated in a comprehension")
        if isinstance(p, ast.Call) and call_name(p) in _COPIERS:
            return "read", True, "cache view consumed by a copying / reducing builtin"
        return "read", False, "a view of the cached lists escapes"
    if isinstance(r, ast.Call) and r.func.attr in ("pop", "setdefault"):
        return "read", False, f"visited_commits.{r.func.attr}() modifies the cache while reading it"
    if isinstance(p, (ast.For, ast.comprehension)) and p.iter is r:
        return "read", True, "the cached list is only iterated"
    if isinstance(p, ast.Compare) and r in p.comparators and all(isinstance(o, (ast.In, ast.NotIn, ast.Eq, ast.NotEq, ast.Is, ast.IsNot)) for o in p.ops):
        return "read", True, "membership / equality test on the cached list"
    if isinstance(p, ast.Compare) and p.left is r:
        return "read", True, "comparison of the cached list"
    if isinstance(p, (ast.If, ast.While, ast.UnaryOp, ast.BoolOp, ast.IfExp, ast.Assert)) and not (isinstance(p, ast.IfExp) and r is not p.test):
        return "read", True, "truth test of the cached list"
    if isinstance(p, ast.Call) and r in p.args and isinstance(p.func, ast.Name) and p.func.id in _COPIERS:
        return "read", True, f"consumed by {p.func.id}() (copy / reduction)"
    if isinstance(p, ast.Call) and isinstance(p.func, ast.Attribute) and p.func.value is r:
        if p.func.attr in MUT:
            return "read", False, f"the cached list is mutated in place (.{p.func.attr})"
        if p.func.attr in ("copy", "index", "count", "__len__", "__contains__", "__iter__"):
            return "read", True, f".{p.func.attr}() does not modify the cached list"
        return "read", False, f"unknown method .{p.func.attr}() on the cached list"
    if isinstance(p, ast.Call) and r in p.args and isinstance(p.func, ast.Attribute) and p.func.attr == "extend":
        return "read", True, "copied element-wise into another list"
    if isinstance(p, ast.Subscript) and p.value is r and isinstance(p.ctx, ast.Load):
        return "read", True, "element / slice read"
    if isinstance(p, ast.Subscript) and p.value is r:
        return "read", False, "an element of the cached list is replaced / deleted"
    if isinstance(p, ast.Starred) or isinstance(p, ast.BinOp):
        return "read", True, "used to build a new list"
    if isinstance(p, ast.AugAssign) and p.target is r:
        return "read", False, "the cached list is extended in place (+=)"
    if isinstance(p, ast.AugAssign) and p.value is r:
        return "read", True, "its elements are added to another container"
    if isinstance(p, ast.Assign) and p.value is r:
        t = p.targets[0]
        if len(p.targets) == 1 and isinstance(t, ast.Name):
            return "bind", True, ""
        if isinstance(t, ast.Attribute):
            if t.attr in mut_attrs:
                return "read", False, f"the cached list object itself becomes `{norm(t)}`, and `.{t.attr}` is grown in place elsewhere: later appends corrupt the cached ancestors shared by other commits"
            return "read", True, f"aliased as `{norm(t)}`, an attribute that is never modified in place"
        return "read", False, f"the cached list is stored into `{norm(t)}` (alias of a frozen value)"
    if isinstance(p, ast.Return):
        return "read", False, "the cached list is returned (escapes)"
    if isinstance(p, ast.Call):
        return "read", False, f"the cached list is passed to {norm(p.func)}() which may keep or modify it"
    if isinstance(p, ast.Expr):
        return "read", True, "value unused"
    return "read", False, f"unrecognised use of the cached list ({type(p).__name__})"


def _local_deps(func, name, seen=None):
    """Names the value of local `name` depends on: through its assignments and through in-place growth (add/update/append/extend)."""
    seen = set() if seen is None else seen
    if name in seen:
        return set()
    seen.add(name)
    out = set()
    exprs = [v for _, v in assignments(func, name) if v is not None]
    for n in walk_local(func):
        if isinstance(n, ast.Call) and isinstance(n.func, ast.Attribute) and is_name(n.func.value, name) and n.func.attr in ("add", "update", "append", "extend"):
            exprs += list(n.args)
            # what controls / feeds the loop the growth sits in
            for l in enclosing_loops(n):
                exprs.append(l.test if isinstance(l, ast.While) else l.iter)
        if isinstance(n, (ast.For, ast.comprehension)) and name in names_in(n.target):
            exprs.append(n.iter)
    for e in exprs:
        for x in ast.walk(e):
            if isinstance(x, ast.Name) and isinstance(x.ctx, ast.Load):
                out.add(x.id)
                out |= _local_deps(func, x.id, seen)
            if isinstance(x, ast.Attribute):
                out.add("." + x.attr)
    return out


def _r06e(cx, rb, comp, conj):
    """A matching commit reachable from this head must never be listed under 'not merged' - also when it belongs to no build
    of this branch (the head lies inside, or coincides with, the history of a lower-sorted branch: the commit walk stops on
    the cached head at once and the branch gets no builds of its own).  Structural necessary condition: the filter excludes a
    set that is computed from the head's accumulated report-related parents (the root accumulator of the walk) by following
    `.parents`, not only the commits filed under this branch's builds."""
    cx.need(comp is not None, "R06e", rb, "'not merged' comprehension")
    root = [st for st, v in assignments(rb, "result_accumdata") if v is not None]
    cx.need(len(root) == 1, "R06e", rb, "root accumulator of the commit walk (result_accumdata)")
    excl = []
    for c in conj:      # canonical conjuncts of the filter: ("in", <key variable>, <set>, False) are the exclusions
        if c[0] == "in" and not c[3]:
            excl.append(c[2])
    hit = None
    cls_node = enclosing(rb, (ast.ClassDef,))

    def closure_loop_in(func, setname, seeds_ok):
        """a worklist loop in `func` that fills `setname` and is re-fed with <x>.parents; seeds_ok(worklist name) says the
        worklist starts from the head's report-related parents"""
        for l in [n for n in walk_local(func) if isinstance(n, (ast.While, ast.For))]:
            fills = [c for c in ast.walk(l) if isinstance(c, ast.Call) and isinstance(c.func, ast.Attribute) and is_name(c.func.value, setname) and c.func.attr in ("add", "update", "setdefault")] + \
                    [c for c in ast.walk(l) if isinstance(c, ast.Subscript) and isinstance(c.ctx, ast.Store) and is_name(c.value, setname)]
            if not fills:
                continue
            feeds = []
            for c in ast.walk(l):
                if isinstance(c, ast.Call) and isinstance(c.func, ast.Attribute) and c.func.attr in ("extend", "append", "update", "add") and isinstance(c.func.value, ast.Name) \
                        and any(isinstance(a, ast.Attribute) and a.attr == "parents" for x in c.args for a in ast.walk(x)):
                    feeds.append(c.func.value.id)
                if isinstance(c, ast.AugAssign) and isinstance(c.target, ast.Name) and any(isinstance(a, ast.Attribute) and a.attr == "parents" for a in ast.walk(c.value)):
                    feeds.append(c.target.id)
            for w in feeds:
                consumed = (isinstance(l, ast.While) and w in names_in(l.test)) or any(isinstance(c, ast.Call) and isinstance(c.func, ast.Attribute) and is_name(c.func.value, w) and c.func.attr in ("pop", "popleft") for c in ast.walk(l))
                if consumed and seeds_ok(w):
                    return True
        return False

    def helper_closure(v):
        """`self.<helper>(.. result_accumdata.rc_parents ..)` where the helper returns the closure over .parents of that argument"""
        if not (isinstance(v, ast.Call) and isinstance(v.func, ast.Attribute) and is_name(v.func.value, "self", "cls") and cls_node is not None
                and any("result_accumdata.rc_parents" in norm(a) for a in v.args)):
            return False
        h = next((f_ for f_ in cls_node.body if isinstance(f_, FUNC) and f_.name == v.func.attr), None)
        if h is None:
            return False
        hp = [p_ for p_ in params(h) if p_ not in ("self", "cls")]
        k_ = next(i_ for i_, a in enumerate(v.args) if "result_accumdata.rc_parents" in norm(a))
        if k_ >= len(hp):
            return False
        seedp = hp[k_]
        for r_ in [r_ for r_ in walk_local(h) if isinstance(r_, ast.Return) and isinstance(r_.value, ast.Name)]:
            if closure_loop_in(h, r_.value.id, lambda w: any(val is not None and seedp in names_in(val) for _, val in assignments(h, w)) or w == seedp):
                return True
        return False

    def closure_value(v, depth):
        """does the value of expression v contain the closure?"""
        if isinstance(v, ast.Name):
            return is_closure(v.id, depth + 1)
        if isinstance(v, ast.BinOp) and isinstance(v.op, ast.BitOr):
            return closure_value(v.left, depth) or closure_value(v.right, depth)
        if isinstance(v, ast.Call) and isinstance(v.func, ast.Attribute) and v.func.attr == "union":
            return any(closure_value(x, depth) for x in [v.func.value] + list(v.args))
        if isinstance(v, ast.Call) and call_name(v) in ("set", "frozenset", "list", "sorted") and len(v.args) == 1:
            return closure_value(v.args[0], depth)
        return helper_closure(v)

    def is_closure(name, depth=0):
        """does the set `name` (local of the branch reader) contain the closure over .parents of result_accumdata.rc_parents?"""
        if depth > 3:
            return False
        if closure_loop_in(rb, name, lambda w: any(v is not None and "result_accumdata.rc_parents" in norm(v) for _, v in assignments(rb, w))):
            return True
        for _, v in assignments(rb, name):
            if v is not None and not (isinstance(v, ast.Name) and v.id == name) and closure_value(v, depth):
                return True
        for c in walk_local(rb):
            # sets grown in place from a closure value: name.update(X), name |= X
            if isinstance(c, ast.Call) and isinstance(c.func, ast.Attribute) and is_name(c.func.value, name) and c.func.attr == "update" and c.args \
                    and not (isinstance(c.args[0], ast.Name) and c.args[0].id == name) and closure_value(c.args[0], depth):
                return True
            if isinstance(c, ast.AugAssign) and is_name(c.target, name) and isinstance(c.op, ast.BitOr) and closure_value(c.value, depth):
                return True
        return False
    for name in excl:
        if is_closure(name):
            hit = name
    # R06f: the candidates.  The comprehension runs over a collection that must hold, besides the commits listed in the builds
    # of the previous branch, everything reachable from that branch's heads (a branch whose head lies inside a lower branch
    # lists nothing of it, and the commits would be lost for all following branches)
    g0 = comp.generators[0]
    cand = g0.iter.func.value if isinstance(g0.iter, ast.Call) and call_name(g0.iter) in ("items", "values") and isinstance(g0.iter.func, ast.Attribute) else g0.iter
    cx.need(isinstance(cand, ast.Name), "R06f", comp, "collection of the 'not merged' candidates")
    seeded = closure_loop_in(rb, cand.id, lambda w: any(v is not None and "prev_branch.rheads" in norm(v) for _, v in assignments(rb, w)))
    if not seeded:
        for _, v in assignments(rb, cand.id):
            pass
    cx.ob("R06f", comp, seeded,
          f"`{cand.id}` also holds the closure over .parents of the previous branch's heads" if seeded else
          f"the candidates `{cand.id}` are only the commits listed in the builds of the previous branch: when that branch's head lies inside an even lower-sorted branch it lists "
          "nothing of that history, and matching commits reachable from lower branches (not from this head) are missing from 'not merged' here and in every following branch",
          stmt="'not merged' candidates")
    cx.ob("R06e", comp, hit is not None,
          f"commits in `{hit}` - the closure over .parents of the head's report-related parents - are excluded" if hit else
          f"the filter excludes only {excl or 'nothing'}, none of which is derived from the commits reachable from the head (result_accumdata.rc_parents followed through .parents): "
          "with two branches whose heads coincide, or a higher-sorted head on an older commit of the lower branch, the walk stops on the cached head, the branch has no builds, "
          "and every matching commit of the lower branch - although reachable from this head - is listed as not merged",
          stmt="'not merged' excludes what the head reaches")
