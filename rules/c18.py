"""C18 — objects read from a sheet match their source cells (value <-> origin clause, ladder origins)."""
import ast

from sa.core import (AnalysisError, FUNC, assignments, call_name, class_attr, const, dotted, enclosing, enclosing_func,
                     enclosing_stmt, is_attr, is_name, is_self_attr, literal, norm, params, parent, walk_local, names_in, ancestors)
from sa.guards import canon_test, facts, enclosing_loops
from sa.finite import Interp, C, K, S, TOP

PROP = "C18"
REL = "ak/xlsread.py"
EXPLANATION = (
    "Def-use / sibling-agreement rules on ak/xlsread.py. Column binding, range detection, the end-of-table rules and which "
    "rows a ladder fill touches depend on sheet contents and are NOT decided; the first clause (the value of an attribute is "
    "the conversion of the cell(s) whose coordinate get_attr_origin reports) is. R18a: in XlsObject.__init__ on each of the "
    "four branches the stored value and the recorded origin derive from the same cell object (val_from_cell(cell) with "
    "cell.coordinate; ranged: the reader's own pair), or both are the default and a non-cell marker; value and origin are "
    "stored under the same attribute name. R18b: CellRangeDict and CellRangeSet compute origins identically over the same "
    "zip(titles, cells) that produces the value. R18c: get_attr_origin returns the recorded origin (optionally prefixed by the "
    "sheet name); for ranged attributes the range is derived from the recorded map only. R18d: the ladder fill copies *cell "
    "objects* of the previous effective row (so origins follow values), only into empty leading cells, and the previous row "
    "becomes the filled row on every iteration. R18e: the three lists handed to construct are index-aligned with _ATTRS: built "
    "by comprehensions / loops over the same rule list, and a row cell is selected by the column id bound for that attribute."
)


def run(cx):
    cx.guard(_r18g, cx)
    repo = cx.repo
    for r, t in (("R18a", "value and recorded origin of an attribute derive from the same cell"),
                 ("R18b", "range readers compute origins over the same (title, cell) pairs as the value"),
                 ("R18c", "get_attr_origin returns what was recorded"),
                 ("R18d", "ladder fill copies cell objects of the previous effective row"),
                 ("R18e", "cells, types and defaults are index-aligned with the attribute list")):
        cx.rule(r, t)
    init = cx.func(REL, "XlsObject.__init__", "R18a")
    gao = cx.func(REL, "XlsObject.get_attr_origin", "R18c")
    it = cx.func(REL, "XlsTableReader.iter_table", "R18d")
    from sa.inline import inlined
    it, _inl = inlined(repo.mod(REL), it)      # private helpers of the reader (e.g. an extracted ladder-fill) are analysed in place
    cfr = cx.func(REL, "_ObjScrCellsMap.cells_from_row", "R18e")
    btr = cx.func(REL, "_ObjScrCellsMap.bind_titles_row", "R18e")

    # ------------------------------------------------------------------ R18a
    loops = [l for l in init.body if isinstance(l, ast.For)]
    cx.need(len(loops) == 1 and isinstance(loops[0].iter, ast.Call) and call_name(loops[0].iter) == "zip", "R18a", init, "attribute loop over zip(...)")
    lp = loops[0]
    names = [norm(t) for t in lp.target.elts]
    srcs = [norm(a) for a in lp.iter.args]
    ok = srcs[0] == "self._ATTRS" and len(names) == 4 and srcs[1:] == params(init)[1:4]
    cx.ob("R18a", lp, ok, "attribute names, cell types, cells and defaults are walked in parallel" if ok else f"attribute loop zips {srcs}")
    a_name, a_type, a_cell, a_dflt = names
    tail0 = lp.body[-2:]
    V = O = None
    for st in lp.body:
        if isinstance(st, ast.Expr) and isinstance(st.value, ast.Call) and call_name(st.value) == "setattr" and len(st.value.args) == 3 and is_name(st.value.args[2]):
            V = st.value.args[2].id
        if isinstance(st, ast.Assign) and isinstance(st.targets[0], ast.Subscript) and norm(st.targets[0].value) == "self._attrs_origins" and is_name(st.value):
            O = st.value.id
    cx.need(V and O, "R18a", lp, "value / origin locals of the attribute loop")
    val_stores = [s for s in ast.walk(lp) if isinstance(s, ast.Assign) and is_name(s.targets[0], V)] + \
                 [s for s in ast.walk(lp) if isinstance(s, ast.Assign) and isinstance(s.targets[0], ast.Tuple) and any(is_name(e, V) for e in s.targets[0].elts)]
    org_stores = [s for s in ast.walk(lp) if isinstance(s, ast.Assign) and is_name(s.targets[0], O)]
    n_br = 0
    from sa.guards import _block_of
    blocks = {}
    for s in val_stores + org_stores:
        blocks.setdefault(id(_block_of(s)[2]), []).append(s)
    for stmts in blocks.values():
        n_br += 1
        texts = [norm(s) for s in stmts]
        anchor = stmts[0]
        joined = " ; ".join(texts)
        if any("val_from_cells" in t for t in texts):
            s = next(s for s in stmts if "val_from_cells" in norm(s))
            ok = isinstance(s.targets[0], ast.Tuple) and [norm(e) for e in s.targets[0].elts] == [V, O] and isinstance(s.value, ast.Call) and \
                norm(s.value.func.value) == a_type
            if ok:
                un = [x for x in _block_of(s)[2] if isinstance(x, ast.Assign) and isinstance(x.targets[0], ast.Tuple) and is_name(x.value, a_cell)]
                ok = len(un) == 1 and [norm(a) for a in s.value.args] == [norm(e) for e in un[0].targets[0].elts]
            cx.ob("R18a", s, ok, "ranged attribute: value and origins come from one call on the attribute's own (titles, cells)" if ok else "ranged attribute: value and origins are not produced together from the attribute's cells")
        elif any("val_from_cell(" in t for t in texts):
            v = next(s for s in stmts if "val_from_cell(" in norm(s))
            o = next((s for s in stmts if is_name(s.targets[0], O)), None)
            ok = norm(v.value) == f"{a_type}.val_from_cell({a_cell})" and o is not None and norm(o.value) == f"{a_cell}.coordinate"
            cx.ob("R18a", v, ok, "single cell: value = convert(cell), origin = that cell's coordinate" if ok else
                  f"value is {norm(v.value)} but the recorded origin is {norm(o.value) if o is not None else 'missing'}: get_attr_origin would point at another cell")
        else:
            v = next((s for s in stmts if is_name(s.targets[0], V)), None)
            o = next((s for s in stmts if is_name(s.targets[0], O)), None)
            ok = v is not None and o is not None and norm(v.value) == f"{a_dflt}()" and const(o.value, str) and o.value.value.startswith("<")
            cx.ob("R18a", anchor, ok, "no cell: the declared default with a non-cell origin marker" if ok else "default branch altered (value / origin marker)")
    cx.at_least("R18a", "value/origin branches", n_br, 4)
    tail = lp.body[-2:]
    ok = len(tail) == 2 and norm(tail[0]) == f"setattr(self, {a_name}, {V})" and norm(tail[1]) == f"self._attrs_origins[{a_name}] = {O}"
    cx.ob("R18a", tail[0] if tail else lp, ok, "value and origin are stored under the same attribute name, for every attribute" if ok else "value / origin are not both stored under the attribute's name at the end of each iteration")
    # ------------------------------------------------------------------ R18b
    readers = [(q, f) for m, q, f in repo.functions({REL}) if f.name == "val_from_cells" and not any(isinstance(s, ast.Assert) and const(s.test) and not s.test.value for s in f.body)]
    cx.at_least("R18b", "range readers", len(readers), 2)
    origin_texts = set()
    for q, f in readers:
        t_p, c_p = params(f)[1], params(f)[2]
        rr0 = [x for x in walk_local(f) if isinstance(x, ast.Return) and isinstance(x.value, ast.Tuple) and len(x.value.elts) == 2 and all(isinstance(e, ast.Name) for e in x.value.elts)]
        cx.need(len(rr0) == 1, "R18b", f, "range reader must return (value, origins)")
        vn, on = (e.id for e in rr0[0].value.elts)
        od = [v for _, v in assignments(f, on) if v is not None]
        vd = [v for _, v in assignments(f, vn) if v is not None]
        ok = len(od) == 1 and isinstance(od[0], ast.DictComp) and norm(od[0].generators[0].iter) == f"zip({t_p}, {c_p})" and not od[0].generators[0].ifs
        if ok:
            kt, ct = [norm(e) for e in od[0].generators[0].target.elts]
            ok = norm(od[0].key) == kt and norm(od[0].value) == f"{ct}.coordinate"
            origin_texts.add(ast.dump(od[0]))
        cx.ob("R18b", f, ok, f"{q}: origins = {{title: cell.coordinate}} over zip(titles, cells)" if ok else f"{q}: origins are not title -> that cell's coordinate over zip(titles, cells)")
        ok = len(vd) == 1 and isinstance(vd[0], (ast.DictComp, ast.SetComp)) and norm(vd[0].generators[0].iter) == f"zip({t_p}, {c_p})"
        if ok:
            kt, ct = [norm(e) for e in vd[0].generators[0].target.elts]
            conv = f"self.cell_type.val_from_cell({ct})"
            if isinstance(vd[0], ast.DictComp):
                ok = norm(vd[0].key) == kt and norm(vd[0].value) == conv and not vd[0].generators[0].ifs
            else:
                ok = norm(vd[0].elt) == kt and [norm(i) for i in vd[0].generators[0].ifs] == [conv]
        cx.ob("R18b", f, ok, f"{q}: the value pairs each title with the conversion of its own cell" if ok else f"{q}: value does not pair a title with its own cell", stmt=f"def {f.name}(...) [value]")
        r = [x for x in walk_local(f) if isinstance(x, ast.Return)]
        ok = len(r) == 1 and norm(r[0].value) == f"({vn}, {on})"
        cx.ob("R18b", r[0] if r else f, ok, "returns (value, origins)" if ok else "return pair altered")
    cx.ob("R18b", REL, len(origin_texts) == 1, "the range readers record origins identically" if len(origin_texts) == 1 else "range readers disagree on how origins are recorded", construct=f"{REL}::range readers", stmt="sibling agreement")
    # ------------------------------------------------------------------ R18c
    od = [v for _, v in assignments(gao, "origins") if v is not None]
    ok = len(od) == 1 and norm(od[0]) == f"self._attrs_origins.get({params(gao)[1]})"
    cx.ob("R18c", gao, ok, "the origin is looked up under the attribute's name" if ok else "origin lookup altered", stmt="lookup")
    for r in [x for x in walk_local(gao) if isinstance(x, ast.Return)]:
        v = r.value
        ok = isinstance(v, ast.BinOp) and isinstance(v.op, ast.Add) and is_name(v.left, "ws_prefix")
        src = norm(v.right) if ok else norm(v)
        if ok:
            if src in ("origins", "val_cell_origin", "cells_range_descr") or (const(v.right, str) and v.right.value.startswith("<")):
                ok = True
            else:
                ok = False
        cx.ob("R18c", r, ok, f"returns (sheet prefix +) {src}" if ok else f"returns {src}: not the recorded origin")
    vo = [v for _, v in assignments(gao, "val_cell_origin") if v is not None]
    ok = any(norm(v) == f"origins.get({params(gao)[2]})" for v in vo) and all(norm(v) == f"origins.get({params(gao)[2]})" or const(v, str) for v in vo)
    cx.ob("R18c", gao, ok, "a ranged key is looked up in the recorded map" if ok else "ranged-key lookup altered", stmt="ranged key")
    cc = [v for _, v in assignments(gao, "cells_coords") if v is not None]
    ok = len(cc) == 1 and norm(cc[0]) == "sorted(origins.values())"
    cx.ob("R18c", gao, ok, "the range description is derived from the recorded coordinates only" if ok else "range description is not built from origins.values()", stmt="range description")
    # ------------------------------------------------------------------ R18d
    # the ladder fill, with the names discovered from the code: F[i] = P[i] where F is a fresh copy `list(<row>)` of the sheet row
    main = next(l for l in it.body if isinstance(l, ast.For))
    rowv = norm(main.target)
    fills = []
    for s_ in walk_local(it):
        if isinstance(s_, ast.Assign) and len(s_.targets) == 1:
            t_ = s_.targets[0]
            while isinstance(t_, ast.Attribute):       # `F[i].value = ..` writes into the cell object of the sheet
                t_ = t_.value
            if isinstance(t_, ast.Subscript) and isinstance(t_.value, ast.Name) and any(v is not None and norm(v) == f"list({rowv})" for _, v in assignments(it, t_.value.id)):
                if t_ is not s_.targets[0]:
                    cx.ob("R18d", s_, False, f"ladder fill writes `{norm(s_.targets[0])}`: the cell object of the sheet is modified / a value is copied, so the reported origin no longer holds the value")
                else:
                    fills.append(s_)
    cx.need(len(fills) == 1, "R18d", it, "ladder fill assignment")
    f0 = fills[0]
    X = f0.targets[0].value.id
    i = norm(f0.targets[0].slice)
    pv = f0.value.value.id if isinstance(f0.value, ast.Subscript) and isinstance(f0.value.value, ast.Name) and norm(f0.value.slice) == i else None
    # P must be the variable that holds the previous effective row: assigned at the top level of the row loop from the row built for this iteration
    eff = [s_ for s_ in main.body if isinstance(s_, ast.Assign) and pv is not None and is_name(s_.targets[0], pv) and isinstance(s_.value, ast.Name)]
    ok = pv is not None and bool(eff)
    cx.ob("R18d", f0, ok, "an empty leading cell is replaced by the *cell object* of the previous effective row (origin follows the value)" if ok else
          f"ladder fill stores {norm(f0.value)}: a value / another cell, so the reported origin no longer holds the value")
    if isinstance(f0.targets[0].slice, ast.Slice):
        # the fill as one slice assignment  F[a:b] = P[a:b]  with  b = a + <number of leading blank cells of the row from a on>
        cx.guard(_slice_fill, cx, it, f0, X, rowv)
    else:
        fs = {(norm(e), pol) for e, pol in facts(f0)}
        ok = (f"self._cell_is_empty({X}[{i}])", True) in fs or (f"cls._cell_is_empty({X}[{i}])", True) in fs
        cx.ob("R18d", f0, ok, "only empty cells are filled" if ok else "non-empty cells may be overwritten", stmt=norm(f0) + " [guard]")
        lp2 = enclosing_loops(f0)[0]
        brk = [b for b in ast.walk(lp2) if isinstance(b, ast.Break)]
        ok = len(brk) == 1 and norm(lp2.iter) == f"range(first_col_pos, len({X}))" and any(norm(e) in (f"self._cell_is_empty({X}[{i}])", f"cls._cell_is_empty({X}[{i}])") and not pol for e, pol in facts(brk[0]))
        cx.ob("R18d", lp2, ok, "filling stops at the first non-empty cell, starting at the first titled column" if ok else "ladder fill range / stop condition altered")
    # where the ladder starts: the first column that has a title at all (also columns of ranged groups / columns no rule names)
    fc = [(stt, v) for stt, v in assignments(it, "first_col_pos") if v is not None and not (isinstance(v, ast.Constant) and v.value is None)]
    ok = len(fc) == 1 and isinstance(fc[0][1], ast.Call) and call_name(fc[0][1]) == "next" and isinstance(fc[0][1].args[0], ast.GeneratorExp)
    why = "first_col_pos is not `next(position of the first titled column, None)`"
    if ok:
        g = fc[0][1].args[0]
        gen = g.generators[0]
        ok = len(g.generators) == 1 and norm(gen.iter) == "enumerate(cols_names)" and isinstance(gen.target, ast.Tuple) and len(gen.target.elts) == 2 and norm(g.elt) == norm(gen.target.elts[0])
        if ok:
            nm = norm(gen.target.elts[1])
            conds = [norm(c) for c in gen.ifs]
            # "has a title", however spelled: name / name != '' / len(name) > 0 / bool(name) (and their mirrored / negated forms)
            cts = canon_test(gen.ifs[0]) if len(gen.ifs) == 1 else set()
            ok = len(cts) == 1 and next(iter(cts)) in (("expr", nm, "", True), ("==", *sorted((nm, "''")), False), ("<", "0", f"len({nm})", True),
                                                       ("==", *sorted(("0", f"len({nm})")), False), ("expr", f"bool({nm})", "", True))
            why = f"the ladder starts at the first column satisfying `{' and '.join(conds) or 'True'}`, not at the first titled column: blank cells in leading titled columns the condition leaves out " \
                  "(ranged groups, columns no rule names) are not filled from above, so the objects differ from those of the filled-in table and origins point at blank cells"
    cx.ob("R18d", fc[0][0] if fc else it, ok, "the ladder starts at the first titled column" if ok else why, stmt="ladder start column")
    # the effective row of this iteration: the variable E copied into P at the end of the loop body; E is either the sheet row
    # itself or the filled copy (directly or through one more name), and nothing else
    E = eff[0].value.id if eff else None

    def origins(name, depth=0):
        out = set()
        for _, v in assignments(it, name):
            if v is None:
                continue
            if isinstance(v, ast.Name) and v.id not in (name,) and depth < 3 and v.id != rowv:
                out |= origins(v.id, depth + 1)
            else:
                out.add(norm(v))
        return out
    og = origins(E) if E else set()
    ok = E is not None and og <= {f"list({rowv})", rowv} and f"list({rowv})" in og
    cx.ob("R18d", it, ok, "the filled row is a fresh list (the sheet's row is not modified)" if ok else f"the effective row `{E}` is bound to {sorted(og)}", stmt="fresh row")
    ok = E is not None and any(parent(s_) is main for s_ in eff)
    cx.ob("R18d", eff[-1] if eff else it, ok, "the previous row is updated to the filled row on every data row" if ok else "prev_row is not updated to the filled row for every data row")
    cons = [c for c in walk_local(it) if isinstance(c, ast.Call) and call_name(c) == "construct"]
    ok = len(cons) == 1 and E is not None and norm(cons[0].args[0]) == f"*cells_map.cells_from_row({E})"
    cx.ob("R18d", cons[0] if cons else it, ok, "objects are built from the filled row" if ok else f"objects are not built from the effective row `{E}`")
    # ------------------------------------------------------------------ R18e
    r = [x for x in walk_local(cfr) if isinstance(x, ast.Return) and isinstance(x.value, ast.Tuple)]
    ok = len(r) == 1 and [norm(e) for e in r[0].value.elts] == ["self.cells_types", "cells", "self.defaults_factories"]
    cx.ob("R18e", r[0] if r else cfr, ok, "returns (types, cells, defaults) in constructor order" if ok else "cells_from_row return order altered")
    cd = [v for _, v in assignments(cfr, "cells") if v is not None]
    ok = len(cd) == 1 and isinstance(cd[0], ast.ListComp) and norm(cd[0].generators[0].iter) == "self.columns_map" and not cd[0].generators[0].ifs
    cx.ob("R18e", cd[0] if cd else cfr, ok, "one entry per bound attribute, in order" if ok else "cells list is not built one-per-entry of columns_map")
    helper = [f for f in ast.walk(cfr) if isinstance(f, FUNC) and f is not cfr]
    ok = len(helper) == 1
    if ok:
        h = helper[0]
        p = params(h)[0]
        rets = {norm(x.value) for x in walk_local(h) if isinstance(x, ast.Return)}
        ok = f"row[{p}]" in rets and any("[row[i] for i in" in t for t in rets)
    cx.ob("R18e", helper[0] if helper else cfr, ok, "a cell is selected from the row by the column id bound for the attribute" if ok else "cell selection by bound column id altered")
    cmap = cx.cls(REL, "_ObjScrCellsMap", "R18e")
    ci = repo.method(cmap, "__init__")
    ok = any(norm(s) == "self.cells_types = [rr.cell_type for rr in self.attrs_rules]" for s in ci.body)
    cx.ob("R18e", ci, ok, "cell types follow the rule list" if ok else "cells_types is not built from attrs_rules in order")
    ml = [l for l in btr.body if isinstance(l, ast.For) and norm(l.iter) == "self.attrs_rules"]
    ok = len(ml) == 1
    if ok:
        l = ml[0]
        apps_c = [c for c in ast.walk(l) if isinstance(c, ast.Call) and call_name(c) == "append" and norm(c.func.value) == "self.columns_map"]
        apps_d = [c for c in ast.walk(l) if isinstance(c, ast.Call) and call_name(c) == "append" and norm(c.func.value) == "self.defaults_factories"]
        ok = len(apps_c) == 3 and len(apps_d) == 1 and parent(enclosing_stmt(apps_d[0])) is l and not any(isinstance(x, ast.Continue) and enclosing_loops(x)[0] is l for x in ast.walk(l))
    cx.ob("R18e", ml[0] if ml else btr, ok, "every rule appends exactly one column binding and one default, in rule order" if ok else "bindings / defaults are not appended once per rule")
    col = [v for _, v in assignments(btr, "col_id") if v is not None]
    ok = len(col) == 1 and norm(col[0]).startswith("col_names_ids.get(attr_rrules.column_name")
    cx.ob("R18e", btr, ok, "a plain attribute is bound to the position of its own column title" if ok else "column binding altered", stmt="col_id")
    rr = cx.func(REL, "XlsObjReadRules.__init__", "R18e")
    fin = [s for s in rr.body if isinstance(s, ast.Assign) and norm(s.targets[0]) == "self.attrs_rules" and isinstance(s.value, ast.ListComp)]
    ok = len(fin) == 1 and norm(fin[0].value) == "[attrs_rules_map[attr_name] for attr_name in self.obj_class._ATTRS]"
    cx.ob("R18e", fin[0] if fin else rr, ok, "rules are ordered like the class's attribute list" if ok else "rule list is not ordered by _ATTRS")
    cn = [v for _, v in assignments(it, "col_names_ids") if v is not None]
    ok = len(cn) == 1 and isinstance(cn[0], ast.DictComp) and norm(cn[0].generators[0].iter) == "enumerate(cols_names)" and not cn[0].generators[0].ifs and \
        [norm(e) for e in cn[0].generators[0].target.elts] == [norm(cn[0].value), norm(cn[0].key)]
    cx.ob("R18e", it, ok, "column ids are positions in the title row" if ok else "title -> position map altered", stmt="col_names_ids")


def _slice_fill(cx, it, f0, X, rowv):
    """F[a:b] = P[a:b]: a is the first titled column, b = a + H(<row>[a:]) where the private helper H returns the position of the
    first cell of its argument that is not blank (len if all are).  H's test is evaluated on the partition of cell values of
    R18g: it must hold exactly for the cells that are data."""
    from sa.guards import expand_at
    from sa.inline import inlined as _inl
    from sa.finite import K as _K, C as _C
    sl = f0.targets[0].slice
    a = norm(sl.lower) if sl.lower is not None else None
    same = isinstance(f0.value, ast.Subscript) and isinstance(f0.value.slice, ast.Slice) and norm(f0.value.slice) == norm(sl)
    cx.need(a is not None and sl.upper is not None and sl.step is None and same, "R18d", f0, "slice form of the ladder fill not recognised")
    ok = a == "first_col_pos"
    cx.ob("R18d", f0, ok, "filling starts at the first titled column" if ok else f"the ladder fill starts at {a}, not at the first titled column", stmt=norm(f0) + " [start]")
    b = expand_at(sl.upper, f0)
    hc = b.right if isinstance(b, ast.BinOp) and isinstance(b.op, ast.Add) and norm(b.left) == a else b.left if isinstance(b, ast.BinOp) and isinstance(b.op, ast.Add) and norm(b.right) == a else None
    cx.need(isinstance(hc, ast.Call) and isinstance(hc.func, ast.Attribute) and is_name(hc.func.value, "self", "cls") and len(hc.args) == 1, "R18d", f0,
            f"upper end of the filled slice `{norm(b)}` is not <start> + <count of leading blank cells>")
    arg = hc.args[0]
    ok = isinstance(arg, ast.Subscript) and isinstance(arg.slice, ast.Slice) and arg.slice.upper is None and arg.slice.step is None and norm(arg.slice.lower) == a \
        and norm(arg.value) in (rowv, X)
    cx.ob("R18d", f0, ok, "the blank cells are counted in the current row, from the start column on" if ok else f"blank cells are counted in `{norm(arg)}`", stmt=norm(f0) + " [counted in]")
    owner = enclosing(it, (ast.ClassDef,))
    H = next((m for m in owner.body if isinstance(m, FUNC) and m.name == hc.func.attr), None)
    cx.need(H is not None, "R18d", f0, f"helper {hc.func.attr} not found")
    H, _u = _inl(cx.repo.modules[REL], H, nested=True, tests=True)
    ps = [p for p in params(H) if p not in ("self", "cls")]
    body = [s_ for s_ in H.body if not (isinstance(s_, ast.Expr) and isinstance(s_.value, ast.Constant))]
    lp = body[0] if body and isinstance(body[0], ast.For) else None
    shape_ok = len(ps) == 1 and len(body) == 2 and lp is not None and isinstance(lp.target, ast.Tuple) and len(lp.target.elts) == 2 and norm(lp.iter) == f"enumerate({ps[0]})" \
        and isinstance(body[1], ast.Return) and norm(body[1].value) == f"len({ps[0]})" and not lp.orelse
    cx.need(shape_ok, "R18d", H, "counting helper is not `for n, cell in enumerate(cells): <stop at the first data cell: return n>; return len(cells)`")
    nvar, cvar = norm(lp.target.elts[0]), norm(lp.target.elts[1])
    classes = [("None", _K("none"), True), ("''", _K("str", empty=True), True), ("white space only", _K("str", empty=False, tag="ws"), True),
               ("text", _K("str", empty=False, tag="text"), False), ("int 0", _K("int", tag="zero"), False), ("int != 0", _K("int", tag="nonzero"), False),
               ("float 0.0", _K("float", tag="zero"), False), ("float != 0", _K("float", tag="nonzero"), False), ("False", _C(False), False),
               ("True", _C(True), False), ("date / other object", _K("other", empty=False, tag="datetime"), False)]
    for label, val, blank in classes:
        outs = _CellInterp().run(lp.body, {f"{cvar}.value": val, nvar: S((("ref", nvar),))})
        stops = set()
        for o in outs:
            if o.how == "return":
                if not (isinstance(o.value, S) and o.value == S((("ref", nvar),))):
                    raise AnalysisError("R18d", f"{REL}::{H.name}", f"the helper returns {o.value!r} inside the loop, not the position")
                stops.add(True)
            elif o.how in ("fall", "continue"):
                stops.add(False)
            else:
                raise AnalysisError("R18d", f"{REL}::{H.name}", f"loop body ends with {o.how} for a cell holding {label}")
        ok = stops == {not blank}
        cx.ob("R18d", H, ok, f"a leading cell holding {label} {'is filled from above' if blank else 'stops the fill'}" if ok else
              f"a leading cell holding {label} {'stops the fill' if blank else 'is treated as blank: it is overwritten by the cell above (value and origin of another row)'}"
              + (" on some paths" if len(stops) > 1 else ""), stmt=f"{H.name}({label})", semantic=True)


# ---------------------------------------------------------------------- R18g: the blank-cell predicate
class _CellInterp(Interp):
    """str(), .strip() on the finite partition of cell values."""

    def call(self, e, env):
        name = call_name(e)
        f = e.func
        if name == "str" and isinstance(f, ast.Name) and len(e.args) == 1:
            v = self.ev(e.args[0], env)
            if isinstance(v, K) and v.kind == "str":
                return v
            if isinstance(v, C) and isinstance(v.v, str):
                return K("str", empty=(v.v == ""), tag=None if v.v == "" else ("ws" if not v.v.strip() else "text"))
            if isinstance(v, (K, C)):
                return K("str", empty=False, tag="text")      # 'None', '0', 'False', a date ... never blank
            return TOP
        if isinstance(f, ast.Attribute) and name in ("strip", "lstrip", "rstrip") and not e.args:
            v = self.ev(f.value, env)
            if isinstance(v, C) and isinstance(v.v, str):
                return C(getattr(v.v, name)())
            if isinstance(v, K) and v.kind == "str":
                if v.empty or v.tag == "ws":
                    return K("str", empty=True) if name == "strip" or v.empty else TOP
                return K("str", empty=False, tag="text")
            return TOP
        if isinstance(f, ast.Attribute) and name == "isspace" and not e.args:
            v = self.ev(f.value, env)
            if isinstance(v, K) and v.kind == "str":
                return C(v.tag == "ws")
            return TOP
        if name == "len" and len(e.args) == 1:
            v = self.ev(e.args[0], env)
            if isinstance(v, K) and v.kind == "str" and v.empty is not None:
                return K("int", tag="zero" if v.empty else "nonzero")
            return TOP
        return super().call(e, env)


def _r18g(cx):
    """The blank-cell predicate decides the end-of-table rules and the ladder fill.  Cell values are touched only through
    `is None`, truthiness, isinstance, str() and strip(): all uniform on the partition below, so the abstract run is exact."""
    from sa.finite import K as _K, C as _C
    cx.rule("R18g", "a cell is blank exactly when it holds None, '' or only white space (0, 0.0, False, dates are data)")
    f = cx.func(REL, "XlsTableReader._cell_is_empty", "R18g")
    from sa.inline import inlined as _inl
    f, _used = _inl(cx.repo.modules[REL], f, nested=True, tests=True)
    if _used:
        cx.note(f"R18g: the blank-cell predicate is analysed with {_used} expanded in place")
    ps = [p for p in params(f) if p not in ("self", "cls")]
    cx.need(len(ps) == 1, "R18g", f, "one cell parameter")
    cell = ps[0]
    classes = [("None", _K("none"), True), ("''", _K("str", empty=True), True), ("white space only", _K("str", empty=False, tag="ws"), True),
               ("text", _K("str", empty=False, tag="text"), False), ("int 0", _K("int", tag="zero"), False), ("int != 0", _K("int", tag="nonzero"), False),
               ("float 0.0", _K("float", tag="zero"), False), ("float != 0", _K("float", tag="nonzero"), False), ("False", _C(False), False),
               ("True", _C(True), False), ("date / other object", _K("other", empty=False, tag="datetime"), False)]
    for label, val, want in classes:
        it = _CellInterp()
        outs = it.run(f.body, {f"{cell}.value": val})
        res = set()
        for o in outs:
            if o.how == "return" and isinstance(o.value, C) and isinstance(o.value.v, bool):
                res.add(o.value.v)
            elif o.how == "return" and isinstance(o.value, _K) and o.value.kind == "str" and o.value.empty is not None:
                res.add(not o.value.empty)      # `return value and ...` style results are used for their truth
            else:
                raise AnalysisError("R18g", f"{REL}::_cell_is_empty", f"result for a cell holding {label} is not decided ({o})")
        ok = res == {want}
        cx.ob("R18g", f, ok, f"cell holding {label}: {'blank' if want else 'data'}" if ok else
              f"a cell holding {label} is classified as {'blank' if True in res else 'data'}{' on some paths' if len(res) > 1 else ''}: "
              + ("rows / leading cells holding it are treated as blank (table ends early, ladder fill overwrites it)" if not want else "blank cells are treated as data"),
              stmt=f"_cell_is_empty({label})")
    users = [c for m, q, g in cx.repo.functions({REL}) for c in walk_local(g) if isinstance(c, ast.Call) and call_name(c) == "_cell_is_empty"]
    cx.at_least("R18g", "uses of the blank-cell predicate", len(users), 2)
