"""C11 — pretty-printed JSON-like data reads back as the same data (token skeleton)."""
import ast

from sa.core import (AnalysisError, FUNC, assignments, call_name, class_attr, const, dotted, enclosing, enclosing_func,
                     enclosing_stmt, is_attr, is_name, is_self_attr, literal, norm, params, parent, walk_local, names_in)
from sa.guards import facts, enclosing_loops
from sa import events
from sa.finite import Interp, C, K, S, TOP

PROP = "C11"
REL = "ak/ppobj.py"
EXPLANATION = (
    "Event-language inclusion + def-use + constant folding + kind-domain interpretation on PrettyPrinter in ak/ppobj.py. R11a: "
    "every yield / buffered append of _gen_ch_chunks_for_obj is classified ({ } [ ] COMMA COLON KEY S V NL IND OTHER) and the "
    "language of event sequences over all paths (CFG x the boolean flags is_first / is_first_in_line x the one-line buffer mode; "
    "loops are cycles, the recursive call is the letter V, i.e. structural induction on the data) is shown to be included in "
    "the JSON token skeleton  S | OTHER | { (KEY COLON v (COMMA KEY COLON v)*)? } | [ (v (COMMA v)*)? ]  after erasing newline and "
    "indent events. R11b: in every element loop the value event depends on the loop variable, loops range over the container "
    "itself / the sorted keys / a filter-free comprehension, and no continue/break skips an element. R11c: all dict loops iterate "
    "the one sorted(keys, key=_mk_type_sort_value). R11d: constant tables (True/False/None vs true/false/null selected by "
    "fmt_json), one '\"' on each side of strings and string keys, None is the only line break and _gen_ch_lines cuts exactly "
    "there and flushes the rest. R11e: for every JSON kind classified simple the simple-value renderer returns (bool before "
    "number), non-empty containers go to the container branches guarded by the matching isinstance. Round-trip equality on "
    "values, thresholds/offsets and number formatting are not decided."
)

SPEC = {
    ("q0", "S"): "acc", ("q0", "OTHER"): "acc", ("q0", "{"): "d0", ("q0", "["): "l0",
    ("d0", "}"): "acc", ("d0", "KEY"): "d1", ("d1", "COLON"): "d2", ("d2", "S"): "d3", ("d2", "V"): "d3",
    ("d3", "COMMA"): "d4", ("d3", "}"): "acc", ("d4", "KEY"): "d1",
    ("l0", "]"): "acc", ("l0", "S"): "l1", ("l0", "V"): "l1", ("l1", "COMMA"): "l2", ("l1", "]"): "acc", ("l2", "S"): "l1", ("l2", "V"): "l1",
}
ERASE = {"NL", "IND"}
BRACKETS = {"{": "{", "}": "}", "[": "[", "]": "]", ",": "COMMA", ":": "COLON"}


def _lit_shape(e):
    if isinstance(e, ast.Constant) and isinstance(e.value, str):
        return ("lit", e.value)
    if isinstance(e, ast.BinOp) and isinstance(e.op, ast.Mult):
        l, r = e.left, e.right
        if isinstance(r, ast.Constant) and isinstance(r.value, str):
            l, r = r, l
        if isinstance(l, ast.Constant) and l.value == " ":
            return ("spaces",)
    if isinstance(e, ast.BinOp) and isinstance(e.op, ast.Add):
        l, r = _lit_shape(e.left), _lit_shape(e.right)
        if l == ("spaces",) and r and r[0] == "lit":
            return ("spaces+", r[1])
        if l and r and l[0] == "lit" and r[0] == "lit":
            return ("lit", l[1] + r[1])
    return None


class Classifier:
    def __init__(self, func, cp_name, buffer=None):
        self.f = func
        self.cp = cp_name
        self.buffer = buffer
        self.loopvars = {}
        for n in walk_local(func):
            if isinstance(n, ast.For):
                for t in ast.walk(n.target):
                    if isinstance(t, ast.Name):
                        self.loopvars[t.id] = n.iter

    def expr(self, e, depth=0):
        if depth > 4:
            return "UNKNOWN"
        if isinstance(e, ast.Constant) and e.value is None:
            return "NL"
        if isinstance(e, ast.Call) and isinstance(e.func, ast.Attribute):
            f = e.func
            if f.attr == "_simple_val_to_ch_chunk":
                return "S"
            if f.attr == "_dict_key_to_sc_chunk":
                return "KEY"
            if f.attr == self.f.name:
                return "V"
            if is_name(f.value, self.cp) and f.attr == "text" and len(e.args) == 1:
                sh = _lit_shape(e.args[0])
                if sh is None:
                    if isinstance(e.args[0], ast.Call) and call_name(e.args[0]) == "str":
                        return "OTHER"
                    return "UNKNOWN"
                if sh == ("spaces",):
                    return "IND"
                s = sh[1].strip()
                if s == "":
                    return "IND"
                return BRACKETS.get(s, "UNKNOWN")
        if isinstance(e, ast.Name):
            if e.id in self.loopvars:
                it = self.loopvars[e.id]
                if isinstance(it, ast.Call) and call_name(it) == "enumerate" and it.args:
                    it = it.args[0]
                if isinstance(it, ast.Name):
                    for _, d in assignments(self.f, it.id):
                        if isinstance(d, ast.ListComp) and len(d.generators) == 1:
                            return self.expr(d.elt, depth + 1)   # a filter is judged by R11b, not here
                return "UNKNOWN"
            ds = {self.expr(d, depth + 1) for _, d in assignments(self.f, e.id) if d is not None}
            if len(ds) == 1:
                return ds.pop()
        return "UNKNOWN"

    def __call__(self, st):
        if isinstance(st, ast.Assign) and len(st.targets) == 1 and is_name(st.targets[0], self.buffer or "") and isinstance(st.value, ast.List):
            return ("@init", self.buffer, tuple(self.expr(x) for x in st.value.elts))
        if isinstance(st, ast.Expr):
            v = st.value
            if isinstance(v, ast.Yield):
                return self.expr(v.value) if v.value is not None else "NL"
            if isinstance(v, ast.YieldFrom):
                if self.buffer and is_name(v.value, self.buffer):
                    return ("@flush", self.buffer)
                return self.expr(v.value)
            if isinstance(v, ast.Call) and isinstance(v.func, ast.Attribute) and self.buffer and is_name(v.func.value, self.buffer):
                if v.func.attr == "append" and len(v.args) == 1:
                    return ("@append", self.buffer, self.expr(v.args[0]))
                if v.func.attr == "extend" and len(v.args) == 1 and isinstance(v.args[0], (ast.List, ast.Tuple)):
                    return ("@append*", self.buffer, tuple(self.expr(x) for x in v.args[0].elts))
                return "UNKNOWN"
        if isinstance(st, ast.AugAssign) and self.buffer and is_name(st.target, self.buffer):
            if isinstance(st.op, ast.Add) and isinstance(st.value, (ast.List, ast.Tuple)):
                return ("@append*", self.buffer, tuple(self.expr(x) for x in st.value.elts))
            return "UNKNOWN"
        if isinstance(st, ast.Return) and st.value is not None:
            return "UNKNOWN"
        return None


def _block_of_stmt(st):
    p_ = parent(st)
    for fld in ("body", "orelse", "finalbody"):
        lst = getattr(p_, fld, None)
        if isinstance(lst, list) and st in lst:
            return lst
    return []


def _buffer_items(x, buf):
    """expressions a statement node puts into the buffered list: buf.append(e), buf.extend([e..]), buf += [e..]"""
    if not buf:
        return []
    if isinstance(x, ast.Call) and isinstance(x.func, ast.Attribute) and is_name(x.func.value, buf):
        if x.func.attr == "append" and len(x.args) == 1:
            return [x.args[0]]
        if x.func.attr == "extend" and len(x.args) == 1 and isinstance(x.args[0], (ast.List, ast.Tuple)):
            return list(x.args[0].elts)
    if isinstance(x, ast.AugAssign) and is_name(x.target, buf) and isinstance(x.value, (ast.List, ast.Tuple)):
        return list(x.value.elts)
    return []


def run(cx):
    repo = cx.repo
    for r, t in (("R11a", "yield language of _gen_ch_chunks_for_obj is included in the JSON token skeleton"),
                 ("R11b", "one element per loop iteration, in order, none skipped"),
                 ("R11c", "dict entries are emitted in the one sorted key order"),
                 ("R11d", "literal tables, quoting, and line cutting at NL only"),
                 ("R11e", "simple / compound split is exhaustive on the JSON kinds")):
        cx.rule(r, t)
    gen = cx.func(REL, "PrettyPrinter._gen_ch_chunks_for_obj", "R11a")
    lines = cx.func(REL, "PrettyPrinter._gen_ch_lines", "R11d")
    simple = cx.func(REL, "PrettyPrinter._simple_val_to_ch_chunk", "R11e")
    is_simple = cx.func(REL, "PrettyPrinter._value_is_simple", "R11e")
    key_fn = cx.func(REL, "PrettyPrinter._dict_key_to_sc_chunk", "R11d")
    pcls = cx.cls(REL, "PrettyPrinter", "R11d")
    ps = params(gen)
    cx.need(len(ps) >= 3, "R11a", gen, "parameters")
    cp, obj = ps[1], ps[2]

    # ---------------------------------------------------------------- R11a
    # the buffer: a list variable that is flushed with `yield from <name>`
    bufs = {n.value.id for n in walk_local(gen) if isinstance(n, ast.YieldFrom) and isinstance(n.value, ast.Name)}
    cx.need(len(bufs) <= 1, "R11a", gen, f"more than one buffered region: {sorted(bufs)}")
    buf = next(iter(bufs), None)
    cl = Classifier(gen, cp, buf)
    res = events.check(gen, cl, SPEC, "q0", {"acc"}, erase=ERASE, buffers={buf: None} if buf else None, known_tests=events.reference_tests(gen))
    if not res.violations and res.uncertain:
        # only along paths through a test on state the event engine does not track: a loss of precision, not a finding
        raise AnalysisError("R11a", f"{REL}::_gen_ch_chunks_for_obj", f"event language not decided: the only irregular paths go through a test on untracked state (line {res.uncertain[0][1][-1] if res.uncertain[0][1] else '?'}: {res.uncertain[0][0][:60]})")
    cx.counts.update({"R11a:cfg nodes": res.cfg_nodes, "R11a:product states": res.states, "R11a:transitions": res.transitions,
                      "R11a:event sites by letter": dict(res.letters)})
    n_sites = sum(1 for n in walk_local(gen) if isinstance(n, (ast.Yield, ast.YieldFrom)))
    cx.at_least("R11a", "yield sites", n_sites, 25)
    if not res.violations:
        cx.ob("R11a", gen, True, f"every event sequence is a JSON token skeleton ({res.states} product states, {res.transitions} transitions, {n_sites} yield sites)", stmt="inclusion")
    seen_msgs = set()
    for msg, path in res.violations[:6]:
        if msg in seen_msgs:
            continue
        seen_msgs.add(msg)
        cx.ob("R11a", gen, False, f"{msg}; path through lines {path[-14:]}", stmt=msg.split(" is not")[0][:60] if "event" in msg else "exit")
    # container branches are guarded by the matching isinstance
    for n in walk_local(gen):
        v = n.value if isinstance(n, ast.Yield) else (n.args[0] if isinstance(n, ast.Call) and isinstance(n.func, ast.Attribute) and buf and is_name(n.func.value, buf) and n.args else None)
        elts = [v] if v is not None else (n.value.elts if isinstance(n, ast.Assign) and buf and is_name(n.targets[0], buf) and isinstance(n.value, ast.List) else [])
        for x in elts:
            L = cl.expr(x)
            if L in ("{", "}", "["  , "]"):
                want = "dict" if L in "{}" else "list"
                g = any(isinstance(e, ast.Call) and call_name(e) == "isinstance" and pol and is_name(e.args[0], obj) and norm(e.args[1]) == want for e, pol in facts(n))
                cx.ob("R11e", n, g, f"'{L}' is emitted only for a {want}" if g else f"'{L}' is emitted outside the isinstance({obj}, {want}) branch")

    # ---------------------------------------------------------------- R11b / R11c
    sk = [(st, v) for st, v in assignments(gen, "sorted_keys")] if assignments(gen, "sorted_keys") else []
    sorted_names = set()
    for n in walk_local(gen):
        if isinstance(n, ast.Assign) and isinstance(n.value, ast.Call) and call_name(n.value) == "sorted" and isinstance(n.targets[0], ast.Name):
            sorted_names.add(n.targets[0].id)
            v = n.value
            ok = len(v.args) == 1 and norm(v.args[0]) in (f"{obj}.keys()", obj, f"list({obj})", f"{obj}") and any(k.arg == "key" and norm(k.value).endswith("_mk_type_sort_value") for k in v.keywords) \
                and not any(k.arg == "reverse" for k in v.keywords)
            cx.ob("R11c", n, ok, "keys are sorted once with the type-aware key" if ok else f"key order is {norm(v)[:70]}")
    cx.need(sorted_names, "R11c", gen, "no sorted key list")
    n_loops = 0
    for loop in [n for n in walk_local(gen) if isinstance(n, ast.For)]:
        letters = set()
        for x in ast.walk(loop):
            if isinstance(x, ast.Yield) and x.value is not None:
                letters.add(cl.expr(x.value))
            elif isinstance(x, ast.YieldFrom):
                letters.add(cl.expr(x.value))
            else:
                for e_ in _buffer_items(x, buf):
                    letters.add(cl.expr(e_))
        if not (letters & {"S", "V", "KEY"}):
            continue
        n_loops += 1
        it = loop.iter
        if isinstance(it, ast.Call) and call_name(it) == "enumerate" and len(it.args) == 1:
            it = it.args[0]
        tv = [t.id for t in ast.walk(loop.target) if isinstance(t, ast.Name)]
        is_dict_loop = "KEY" in letters
        if is_dict_loop:
            ok = isinstance(it, ast.Name) and it.id in sorted_names
            cx.ob("R11c", loop, ok, "dict entries iterate the sorted keys" if ok else f"dict entries iterate {norm(it)} instead of the sorted keys")
        else:
            src_ok = is_name(it, obj)
            if isinstance(it, ast.Name) and not src_ok:
                ds = [d for _, d in assignments(gen, it.id)]
                src_ok = len(ds) == 1 and isinstance(ds[0], ast.ListComp) and len(ds[0].generators) == 1 and not ds[0].generators[0].ifs and is_name(ds[0].generators[0].iter, obj)
            cx.ob("R11b", loop, src_ok, "list elements iterate the container itself (or a filter-free comprehension over it)" if src_ok else
                  f"list elements iterate {norm(loop.iter)}: elements may be dropped, duplicated or reordered")
        # the value event depends on the loop variable
        for x, e in [(x, e) for x in ast.walk(loop) for e in (
                [x.value] if isinstance(x, ast.Yield) and x.value is not None else [x.value] if isinstance(x, ast.YieldFrom) else _buffer_items(x, buf))]:
            L = cl.expr(e)
            if L in ("S", "V", "KEY"):
                used = names_in(e) & set(tv)
                if L == "KEY":
                    ok = isinstance(e, ast.Call) and len(e.args) == 2 and is_name(e.args[1]) and e.args[1].id in tv
                    cx.ob("R11b", x, ok, "the key event is the loop's key" if ok else f"key event `{norm(e)[:50]}` is not the current key")
                elif is_dict_loop:
                    ok = any(isinstance(s, ast.Subscript) and is_name(s.value, obj) and is_name(s.slice) and s.slice.id in tv for s in ast.walk(e))
                    cx.ob("R11b", x, ok, "the value event is the value of the current key" if ok else f"value event `{norm(e)[:60]}` is not {obj}[<current key>]")
                else:
                    cx.ob("R11b", x, bool(used), "the element event is the current element" if used else f"element event `{norm(e)[:60]}` does not depend on the loop variable")
        # nothing skips an element
        for x in ast.walk(loop):
            if isinstance(x, ast.Continue):
                cx.ob("R11b", x, False, "`continue` in an element loop skips the element's events")
            if isinstance(x, ast.Break):
                fs = [(norm(e), pol) for e, pol in facts(x)]
                last = any(pol and "==" in t and "len(" in t and "- 1" in t for t, pol in fs)
                cx.ob("R11b", x, last, "break only after the last element" if last else "`break` may leave the element loop early: elements are dropped")
    cx.at_least("R11b", "element loops", n_loops, 5)

    # ---------------------------------------------------------------- R11d
    tbl = class_attr(pcls, "_CONSTANTS_LITERALS")
    cx.need(tbl is not None, "R11d", f"{REL}::PrettyPrinter._CONSTANTS_LITERALS", "vanished")
    try:
        t = literal(tbl)
    except ValueError as e:
        raise AnalysisError("R11d", "_CONSTANTS_LITERALS", str(e))
    want = ({True: "True", False: "False", None: "None"}, {True: "true", False: "false", None: "null"})
    ok = isinstance(t, tuple) and len(t) == 2 and all(_same_table(a, b) for a, b in zip(t, want))
    cx.ob("R11d", tbl, ok, "constant tables: Python spellings, then JSON spellings" if ok else f"constant tables deviate: {t}")
    init = cx.func(REL, "PrettyPrinter.__init__", "R11d")
    st = [s for s in walk_local(init) if isinstance(s, ast.Assign) and any(is_self_attr(x, "_consts") for x in s.targets)]
    ok = len(st) == 1 and norm(st[0].value) == "self._CONSTANTS_LITERALS[1 if fmt_json else 0]"
    cx.ob("R11d", st[0] if st else init, ok, "fmt_json selects the JSON table" if ok else "table selection by fmt_json altered")
    # quoting of keys
    kp = params(key_fn)[2]
    d = [v for _, v in assignments(key_fn, "key_str")]
    ok = len(d) == 1 and isinstance(d[0], ast.IfExp) and norm(d[0].body) in (f"'\"' + {kp} + '\"'",) and norm(d[0].test) == f"isinstance({kp}, str)" and norm(d[0].orelse) == f"str({kp})"
    cx.ob("R11d", key_fn, ok, "string keys get one '\"' on each side, other keys str()" if ok else "key quoting altered")
    # _gen_ch_lines: cut at None, flush the rest
    cx.guard(_lines_rule, cx, lines)

    # ---------------------------------------------------------------- R11e
    cx.guard(_kinds, cx, simple, is_simple, gen, obj)


def _same_table(a, b):
    if not isinstance(a, dict) or len(a) != 3:
        return False
    for k, v in b.items():
        hit = [va for ka, va in a.items() if ka is k]
        if hit != [v]:
            return False
    return True


def _lines_rule(cx, lines):
    loops = [n for n in lines.body if isinstance(n, ast.For)]
    cx.need(len(loops) == 1, "R11d", lines, "one loop over the chunks")
    lp = loops[0]
    v = norm(lp.target)
    buf_inits = [s for s in walk_local(lines) if isinstance(s, ast.Assign) and isinstance(s.value, ast.List) and not s.value.elts and isinstance(s.targets[0], ast.Name)]
    cx.need(buf_inits, "R11d", lines, "line buffer")
    b = buf_inits[0].targets[0].id
    from sa.guards import canon_facts
    apps_ = [c for c in ast.walk(lp) if isinstance(c, ast.Call) and call_name(c) == "append" and is_name(c.func.value, b)]
    ys = [s for s in ast.walk(lp) if isinstance(s, ast.Expr) and isinstance(s.value, ast.Yield)]
    rs = [s for s in ast.walk(lp) if isinstance(s, ast.Assign) and is_name(s.targets[0], b)]
    if len(apps_) != 1 or len(ys) != 1 or len(rs) != 1:
        raise AnalysisError("R11d", f"{REL}::PrettyPrinter._gen_ch_lines", "line cutting loop not recognised (one append, one yield, one reset expected)")
    is_nl, not_nl = ("is", v, "None", True), ("is", v, "None", False)
    ok = [norm(a) for a in apps_[0].args] == [v] and not_nl in canon_facts(apps_[0]) \
        and norm(ys[0].value.value) == f"CHText.make({b})" and is_nl in canon_facts(ys[0]) \
        and isinstance(rs[0].value, ast.List) and not rs[0].value.elts and is_nl in canon_facts(rs[0]) \
        and parent(ys[0]) is parent(rs[0]) and _block_of_stmt(ys[0]).index(ys[0]) < _block_of_stmt(rs[0]).index(rs[0]) \
        and not any(isinstance(x, ast.Break) for x in ast.walk(lp))
    cx.ob("R11d", lp, ok, "a line is emitted exactly at each NL and every other chunk is kept, in order" if ok else "line cutting is not `if chunk is None: yield line; reset else: append`")
    after = lines.body[lines.body.index(lp) + 1:]
    ok = len(after) == 1 and isinstance(after[0], ast.If) and norm(after[0].test) == b and any(isinstance(s, ast.Expr) and isinstance(s.value, ast.Yield) and norm(s.value.value) == f"CHText.make({b})" for s in after[0].body)
    cx.ob("R11d", after[0] if after else lines, ok, "the remaining chunks are flushed as the last line" if ok else "the last (unterminated) line is not flushed")
    c = [x for x in ast.walk(lp.iter) if isinstance(x, ast.Call) and call_name(x) == "_gen_ch_chunks_for_obj"]
    ok = len(c) == 1 and norm(c[0].args[1]) == params(lines)[2]
    cx.ob("R11d", lp, ok, "lines are cut from the chunks of the whole object" if ok else "chunk source altered", stmt=norm(lp.iter)[:60] + " [source]")


def _kinds(cx, simple, is_simple, gen, obj):
    def hook(it, e, env):
        if call_name(e) == "is_keyword_value" and len(e.args) == 1:
            v = it.ev(e.args[0], env)
            if isinstance(v, C):
                return C(v.v is True or v.v is False or v.v is None)
            if isinstance(v, K):
                return C(False)
        return None
    KINDS = [("str", K("str", None)), ("True", C(True)), ("False", C(False)), ("None", C(None)), ("int", K("int")), ("float", K("float")),
             ("empty dict", K("dict", True)), ("empty list", K("list", True)), ("non-empty dict", K("dict", False)), ("non-empty list", K("list", False))]
    pv = params(is_simple)[1]
    sv = params(simple)[2]
    for label, val in KINDS:
        it = Interp(call_hook=hook)
        outs = it.run(is_simple.body, {pv: val})
        rets = {o.value.v if isinstance(o.value, C) else repr(o.value) for o in outs if o.how == "return"}
        want = not label.startswith("non-empty")
        ok = rets == {want}
        cx.ob("R11e", is_simple, ok, f"{label}: classified {'simple' if want else 'compound'}" if ok else f"{label}: _value_is_simple gives {sorted(map(str, rets))}", stmt=f"classify {label}")
        if not want:
            continue
        it2 = Interp(call_hook=hook)
        calls = []

        def hook2(it_, e, env, _h=hook):
            r = _h(it_, e, env)
            if r is not None:
                return r
            if isinstance(e.func, ast.Attribute) and isinstance(e.func.value, ast.Name) and e.func.value.id == params(simple)[1]:
                calls.append((e.func.attr, e.args[0] if e.args else None))
                # the text of the argument is only meaningful while the parameter still holds the value that came in
                same = env.get(sv) == val
                arg_txt = norm(e.args[0] if e.args else e)
                if e.args:
                    av = it_.ev(e.args[0], env)
                    if isinstance(av, C) and isinstance(av.v, str):
                        arg_txt = repr(av.v)         # a constant however it is spelled (`"{}" if is_dict else "[]"`)
                return K("other", False, "chunk:" + e.func.attr + ":" + arg_txt + ("" if same else f" [with {sv} re-bound to another value before]"))
            return None
        it2.call_hook = hook2
        outs = it2.run(simple.body, {sv: val})
        oks = [o for o in outs if o.how == "return"]
        bad = [o for o in outs if o.how != "return"]
        exp = {"str": ("text", f"'\"' + {sv} + '\"'"), "True": ("keyword", f"self._consts[{sv}]"), "False": ("keyword", f"self._consts[{sv}]"), "None": ("keyword", f"self._consts[{sv}]"),
               "int": ("number", f"str({sv})"), "float": ("number", f"str({sv})"), "empty dict": ("text", "'{}'"), "empty list": ("text", "'[]'")}[label]
        got = {o.value.tag for o in oks if isinstance(o.value, K) and o.value.tag}
        ok = not bad and got == {f"chunk:{exp[0]}:{exp[1]}"}
        if not ok and label in ("int", "float") and not bad and got == {f"chunk:number:repr({sv})"}:
            ok = True       # repr and str coincide on ints and floats
        cx.ob("R11e", simple, ok, f"{label}: rendered as {exp[0]}({exp[1]})" if ok else
              f"{label}: rendered as {sorted(got)}{' / ' + str([(o.how, o.value) for o in bad]) if bad else ''}, expected {exp[0]}({exp[1]})", stmt=f"render {label}")
    # routing in the generator: first test is the simple test
    first = gen.body[0] if gen.body else None
    while first is not None and isinstance(first, ast.Expr) and isinstance(first.value, ast.Constant):
        first = gen.body[gen.body.index(first) + 1]
    ok = isinstance(first, ast.If) and isinstance(first.test, ast.Call) and call_name(first.test) == "_value_is_simple" and is_name(first.test.args[0], obj)
    cx.ob("R11e", first if first is not None else gen, ok, "simple values are routed to the simple renderer first" if ok else "the simple-value test is not the first dispatch")
