"""C03 — left-recursive grammars are rejected; accepted grammars always terminate (necessary structure)."""
import ast

from sa.core import (AnalysisError, FUNC, assignments, call_name, class_attr, const, dotted, enclosing, enclosing_func,
                     enclosing_stmt, is_attr, is_name, is_self_attr, literal, norm, params, parent, walk_local, names_in, ancestors)
from sa.guards import facts, split, enclosing_loops
from sa import events

PROP = "C03"
REL = "ak/llparser.py"
EXPLANATION = (
    "Belief-contradiction and progress rules on the recursion check and the parse loop of ak/llparser.py. R03a (must-facts): in "
    "_verify_grammar_structure_part2 every site that abandons a production (_next_prod) is either the end-of-production site or "
    "has a non-nullability fact about a symbol of the prefix being skipped (`X not in nullables`, a boolean defined by such a "
    "test, or `X in terminals`) - membership in the set of already examined symbols is NOT such a fact, because that set also "
    "holds nullable non-terminals; symmetrically every site that steps past a symbol (_next_symbol) has the fact `X in "
    "nullables`; the cycle test compares the current symbol with every symbol on the DFS stack; every "
    "symbol of the grammar is a DFS root unless already examined. R03b: the only exception raised there is GrammarIsRecursive, a "
    "GrammarError. R03c (event language on the CFG of LLParser.parse): between two visits of the main loop head there is at "
    "least one progress action (next_matched, push via _put_on_stack, switch_to_next_prod), i.e. no iteration stutters; the "
    "roll-back scan strictly decreases. Termination itself (a lexicographic measure valid only for non-left-recursive "
    "grammars) is a manual argument and is not decided."
)


def run(cx):
    repo = cx.repo
    for r, t in (("R03a", "abandoning / stepping past a symbol in the recursion check is justified by (non-)nullability"),
                 ("R03b", "recursion check raises only GrammarIsRecursive (a GrammarError)"),
                 ("R03c", "no stuttering iteration of the parse loop")):
        cx.rule(r, t)
    ver = cx.func(REL, "LLParser._verify_grammar_structure_part2", "R03a")
    parse = cx.func(REL, "LLParser.parse", "R03c")
    nullables = params(ver)[1]

    # helper names: which nested function abandons the production / steps to the next symbol
    helpers = {f.name: f for f in ast.walk(ver) if isinstance(f, FUNC) and f is not ver}
    abandon = step = None
    for nm, f in helpers.items():
        txt = " ; ".join(norm(s) for s in f.body)
        if "[2] += 1" in txt and "[3] = 0" in txt:
            abandon = nm
        elif "[3] += 1" in txt and "[2]" not in txt:
            step = nm
    cx.need(abandon and step, "R03a", ver, "the two cursor helpers (next production / next symbol) not recognised")

    def bool_defs(name):
        """tests defining a boolean local: list of (test expr or True/False const)"""
        out = []
        for _, v in assignments(ver, name):
            if v is not None:
                out.append(v)
        return out

    def nonnullable_fact(fs):
        for e, pol in fs:
            t = norm(e)
            if isinstance(e, ast.Compare) and len(e.ops) == 1 and norm(e.comparators[0]) == nullables:
                if (isinstance(e.ops[0], ast.NotIn) and pol) or (isinstance(e.ops[0], ast.In) and not pol):
                    return f"{norm(e.left)} not in {nullables}"
            if isinstance(e, ast.Compare) and len(e.ops) == 1 and isinstance(e.ops[0], ast.In) and pol and norm(e.comparators[0]).endswith("terminals") and "processed" not in norm(e.comparators[0]):
                return t
            if isinstance(e, ast.Name):
                ds = bool_defs(e.id)
                if ds and not pol and all((isinstance(d, ast.Compare) and isinstance(d.ops[0], ast.In) and norm(d.comparators[0]) == nullables) or (const(d, bool) and d.value is True) for d in ds):
                    return f"{e.id} is False, i.e. {[norm(d) for d in ds if not const(d)]} fails"
        return None

    def nullable_fact(fs):
        for e, pol in fs:
            if isinstance(e, ast.Compare) and len(e.ops) == 1 and norm(e.comparators[0]) == nullables:
                if (isinstance(e.ops[0], ast.In) and pol) or (isinstance(e.ops[0], ast.NotIn) and not pol):
                    return f"{norm(e.left)} in {nullables}"
        return None

    n_ab = n_st = 0
    for c in walk_local(ver):
        if isinstance(c, ast.Call) and call_name(c) == abandon:
            n_ab += 1
            fs = facts(c)
            end = any(isinstance(e, ast.Compare) and isinstance(e.ops[0], ast.GtE) and pol and norm(e.comparators[0]).startswith("len(") and norm(e.comparators[0]).endswith(".production)") for e, pol in fs)
            nn = nonnullable_fact(fs)
            ok = end or nn is not None
            why = "end of the production reached" if end else (f"justified by {nn}" if nn else "")
            if not ok:
                shortcut = [norm(e) for e, pol in fs if pol and isinstance(e, ast.Compare) and isinstance(e.ops[0], ast.In) and "processed" in norm(e.comparators[0])]
                why = ("the production is abandoned without knowing that a symbol of the skipped prefix is non-nullable" +
                       (f" (only `{shortcut[0]}` is known, and that set also holds nullable symbols: a left recursion hidden behind an already examined nullable symbol is missed)" if shortcut else ""))
            cx.ob("R03a", c, ok, why)
        if isinstance(c, ast.Call) and call_name(c) == step:
            n_st += 1
            nf = nullable_fact(facts(c))
            cx.ob("R03a", c, nf is not None, f"steps past a symbol known nullable ({nf})" if nf else
                  "the check steps past a symbol without knowing it is nullable (a later symbol would be reported as reachable without consuming a token)")
    cx.at_least("R03a", "sites abandoning a production", n_ab, 4)
    cx.at_least("R03a", "sites stepping past a symbol", n_st, 2)
    # cycle test: compares the current symbol with every stack entry, raises on equality, precedes any shortcut
    raises = [r for r in walk_local(ver) if isinstance(r, ast.Raise)]
    cx.need(len(raises) >= 1, "R03b", ver, "no raise in the recursion check")
    for r in raises:
        ok = r.exc is not None and call_name(r.exc) == "GrammarIsRecursive"
        cx.ob("R03b", r, ok, "raises GrammarIsRecursive" if ok else f"raises {norm(r.exc)[:40] if r.exc else 'bare'}")
    gir = cx.cls(REL, "GrammarIsRecursive", "R03b")
    ok = any(norm(b) == "GrammarError" for b in gir.bases)
    cx.ob("R03b", gir, ok, "GrammarIsRecursive is a GrammarError" if ok else "GrammarIsRecursive no longer derives from GrammarError")
    rz = raises[0]
    lp = enclosing_loops(rz)
    ok = bool(lp) and isinstance(lp[0], ast.For) and "enumerate(stack)" in norm(lp[0].iter) and any(
        isinstance(e, ast.Compare) and isinstance(e.ops[0], ast.Eq) and pol and {norm(e.left), norm(e.comparators[0])} == {"stack_symbol", "cur_symbol"} for e, pol in facts(rz))
    cx.ob("R03a", rz, ok, "a cycle is reported exactly when the current symbol is already on the DFS stack" if ok else "cycle test is not `current symbol == some symbol on the whole stack`")
    # push: go deeper into the current symbol with its own productions, from its first production / symbol
    pushes = [c for c in walk_local(ver) if isinstance(c, ast.Call) and call_name(c) == "append" and norm(c.func.value) == "stack"]
    ok = len(pushes) == 1 and norm(pushes[0].args[0]) == "[cur_symbol, self.prods_map[cur_symbol], 0, 0]"
    cx.ob("R03a", pushes[0] if pushes else ver, ok, "descends into the current symbol's own productions from the start" if ok else "DFS push altered")
    roots = [l for l in ver.body if isinstance(l, ast.For)]
    ok = len(roots) == 1 and "self.prods_map.items()" in norm(roots[0].iter)
    if ok:
        first = roots[0].body[0]
        ok = isinstance(first, ast.If) and "processed_symbols" in norm(first.test) and any(isinstance(x, ast.Continue) for x in first.body)
    cx.ob("R03a", roots[0] if roots else ver, ok, "every symbol of the grammar is a DFS root unless already examined" if ok else "not every symbol is used as a DFS root")
    # the examined set starts as the terminals only: a non-terminal put there in advance is never walked
    ps_name = next((norm(c.func.value) for c in walk_local(ver) if isinstance(c, ast.Call) and call_name(c) == "add" and "processed" in norm(c.func.value)), "processed_symbols")
    inits = [(st, v) for st, v in assignments(ver, ps_name) if v is not None]
    ok = len(inits) == 1 and norm(inits[0][1]) in ("set(self.terminals)", "set(terminals)", "set(self.terminals.copy())", "self.terminals.copy()", "{*self.terminals}")
    cx.ob("R03a", inits[0][0] if inits else ver, ok, "the examined set initially holds the terminals only" if ok else
          f"the examined set is initialised as `{norm(inits[0][1]) if inits else '?'}`: every non-terminal in it is skipped by the search without its productions being walked, "
          f"so a cycle running through it is not found")
    for m_ in [c for c in walk_local(ver) if isinstance(c, ast.Call) and call_name(c) in ("update", "__ior__") and norm(c.func.value) == ps_name] + \
            [a for a in walk_local(ver) if isinstance(a, ast.AugAssign) and norm(a.target) == ps_name]:
        cx.ob("R03a", m_, False, "symbols are added to the examined set in bulk (not after their productions were walked)")
    pa = [c for c in walk_local(ver) if isinstance(c, ast.Call) and call_name(c) == "add" and "processed" in norm(c.func.value)]
    ok = len(pa) == 1 and any(isinstance(e, ast.Compare) and isinstance(e.ops[0], ast.GtE) and pol and "len(prod_rules)" in norm(e.comparators[0]) for e, pol in facts(pa[0]))
    cx.ob("R03a", pa[0] if pa else ver, ok, "a symbol counts as examined only after all its productions were walked" if ok else "symbols are marked examined before all productions are walked")
    # the constructor calls the check with the nullables of the same grammar, after the table is built
    ctor = cx.func(REL, "LLParser.__init__", "R03a")
    c = [x for x in walk_local(ctor) if isinstance(x, ast.Call) and call_name(x) == ver.name]
    ok = len(c) == 1 and norm(c[0].args[0]) == "nullables" and parent(enclosing_stmt(c[0])) is ctor
    cx.ob("R03a", c[0] if c else ctor, ok, "the constructor always runs the recursion check with this grammar's nullables" if ok else "recursion check is not run unconditionally by the constructor")

    # ------------------------------------------------------------------ R03c
    main = [w for w in parse.body if isinstance(w, ast.While) and const(w.test) and w.test.value is True]
    cx.need(len(main) == 1, "R03c", parse, "main `while True` loop of parse")
    mw = main[0]
    PROG = ("next_matched", "_put_on_stack", "switch_to_next_prod")

    def classify(st):
        if enclosing_func(st) is not parse:
            return None
        letters = []
        for c in ast.walk(st):
            if isinstance(c, ast.Call) and call_name(c) in PROG:
                letters.append("P")
        return tuple(letters) if letters else None
    spec = {("s0", "P"): "s0", ("s0", "HEAD"): "h", ("h", "P"): "p", ("p", "P"): "p", ("p", "HEAD"): "h"}
    res = events.check(parse, classify, spec, "s0", {"s0", "h", "p"}, loop_letters={id(mw): "HEAD"})
    cx.counts["R03c:product states"] = res.states
    if not res.violations:
        cx.ob("R03c", mw, True, f"every iteration of the parse loop performs a progress action before the next one starts ({res.states} product states)", stmt="no stuttering")
    for msg, pth in res.violations[:3]:
        cx.ob("R03c", mw, False, f"an iteration of the parse loop can repeat without any progress action (match, push, next alternative): path through lines {pth[-10:]}", stmt="no stuttering")
    # the body cannot fall off its end silently: last statement raises
    last = mw.body[-1]
    ok = isinstance(last, ast.Raise) and call_name(last.exc) == "ParsingError"
    cx.ob("R03c", last, ok, "when nothing can be tried any more a ParsingError is raised" if ok else "the loop body does not end by raising ParsingError")
    # rollback scan decreases
    scans = [w for w in ast.walk(mw) if isinstance(w, ast.While) and w is not mw]
    for w in scans:
        v = norm(w.test.left) if isinstance(w.test, ast.Compare) else None
        dec = any(isinstance(s, ast.AugAssign) and norm(s.target) == v and isinstance(s.op, ast.Sub) and const(s.value, int) and s.value.value >= 1 and parent(s) is w for s in w.body)
        ok = v is not None and isinstance(w.test.ops[0], ast.GtE) and dec
        cx.ob("R03c", w, ok, "the roll-back scan moves strictly down the stack" if ok else "roll-back scan may not terminate")
    # rollback applies the next alternative on the truncated stack
    sw = [c for c in ast.walk(mw) if isinstance(c, ast.Call) and call_name(c) == "switch_to_next_prod"]
    ok = len(sw) == 1 and norm(sw[0].func.value) == "parse_stack[-1]"
    if ok:
        blk = parent(enclosing_stmt(sw[0])).body
        i = blk.index(enclosing_stmt(sw[0]))
        ok = i > 0 and norm(blk[i - 1]) == "parse_stack = parse_stack[:rollback_point + 1]"
        g = {(norm(e), pol) for e, pol in facts(sw[0])}
        ok = ok and ("rollback_point >= 0", True) in g
    cx.ob("R03c", sw[0] if sw else mw, ok, "roll-back cuts the stack at the entry with an untried alternative and advances it" if ok else "roll-back does not truncate to the rollback point and switch its alternative")
    brk = [b for b in ast.walk(mw) if isinstance(b, ast.Break) and scans and enclosing_loops(b)[0] is scans[0]]
    ok = len(brk) == 1 and any("cur_prod_id < len(" in norm(e) and pol for e, pol in facts(brk[0]))
    cx.ob("R03c", brk[0] if brk else mw, ok, "the roll-back point has an untried alternative" if ok else "roll-back point selection altered")
    # push uses the alternatives of the table and the current cursor
    ps = [c for c in ast.walk(mw) if isinstance(c, ast.Call) and call_name(c) == "_StackElement"]
    ok = len(ps) == 1 and [norm(a) for a in ps[0].args] == ["cur_symbol", "top.cur_token_pos", "prods"]
    cx.ob("R03c", ps[0] if ps else mw, ok, "expansion pushes (symbol, current cursor, alternatives from the table)" if ok else "pushed stack element altered")
