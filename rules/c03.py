"""C03 — left-recursive grammars are rejected; accepted grammars always terminate (necessary structure)."""
import ast

from sa.core import (AnalysisError, FUNC, assignments, call_name, class_attr, const, dotted, enclosing, enclosing_func,
                     enclosing_stmt, is_attr, is_name, is_self_attr, literal, norm, params, parent, walk_local, names_in, ancestors)
from sa.guards import canon_facts, canon_test, facts, split, enclosing_loops
from sa import events

PROP = "C03"
REL = "ak/llparser.py"
EXPLANATION = (
    "Belief-contradiction and progress rules on the recursion check and the parse loop of ak/llparser.py. R03a (must-facts): in "
    "_verify_grammar_structure_part2 every site that abandons a production (_next_prod) is either the end-of-production site or "
    "has a non-nullability fact about a symbol of the prefix being skipped (`X not in nullables`, a boolean defined by such a "
    "test, or `X in terminals`) - membership in the set of already examined symbols is NOT such a fact, because that set also "
    "holds nullable non-terminals; symmetrically every site that steps past a symbol (_next_symbol) has the fact `X in "
    "nullables`; the cycle test compares the current symbol with every symbol on the DFS stack; every "
    "symbol of the grammar is a DFS root unless already examined. R03b: the only exception raised there is GrammarIsRecursive, a "
    "GrammarError. R03c (event language on the CFG of LLParser.parse): between two visits of the main loop head there is at "
    "least one progress action (next_matched, push via _put_on_stack, switch_to_next_prod), i.e. no iteration stutters; the "
    "roll-back scan strictly decreases. Termination itself (a lexicographic measure valid only for non-left-recursive "
    "grammars) is a manual argument and is not decided."
)


def run(cx):
    repo = cx.repo
    for r, t in (("R03a", "abandoning / stepping past a symbol in the recursion check is justified by (non-)nullability"),
                 ("R03b", "recursion check raises only GrammarIsRecursive (a GrammarError)"),
                 ("R03c", "no stuttering iteration of the parse loop")):
        cx.rule(r, t)
    ver = cx.func(REL, "LLParser._verify_grammar_structure_part2", "R03a")
    parse = cx.func(REL, "LLParser.parse", "R03c")
    nullables = params(ver)[1]

    # The DFS cursor lives in the stack entries [symbol, productions, production index, symbol index]: "abandon the production"
    # is `<entry>[2] += 1`, "step past a symbol" is `<entry>[3] += 1`, wherever they are written (local helpers taking the
    # stack or the entry, wrappers around them).  All local helpers are expanded in place and the sites are found by effect.
    def bool_defs(name):
        """tests defining a boolean local: list of (test expr or True/False const)"""
        out = []
        for _, v in assignments(ver, name):
            if v is not None:
                out.append(v)
        return out

    def nonnullable_fact(fs):
        for e, pol in fs:
            t = norm(e)
            if isinstance(e, ast.Compare) and len(e.ops) == 1 and norm(e.comparators[0]) == nullables:
                if (isinstance(e.ops[0], ast.NotIn) and pol) or (isinstance(e.ops[0], ast.In) and not pol):
                    return f"{norm(e.left)} not in {nullables}"
            if isinstance(e, ast.Compare) and len(e.ops) == 1 and isinstance(e.ops[0], ast.In) and pol and norm(e.comparators[0]).endswith("terminals") and "processed" not in norm(e.comparators[0]):
                return t
            if isinstance(e, ast.Name):
                ds = bool_defs(e.id)
                if ds and not pol and all((isinstance(d, ast.Compare) and isinstance(d.ops[0], ast.In) and norm(d.comparators[0]) == nullables) or (const(d, bool) and d.value is True) for d in ds):
                    return f"{e.id} is False, i.e. {[norm(d) for d in ds if not const(d)]} fails"
        return None

    def nullable_fact(fs):
        for e, pol in fs:
            if isinstance(e, ast.Compare) and len(e.ops) == 1 and norm(e.comparators[0]) == nullables:
                if (isinstance(e.ops[0], ast.In) and pol) or (isinstance(e.ops[0], ast.NotIn) and not pol):
                    return f"{norm(e.left)} in {nullables}"
        return None

    from sa.inline import inlined
    ver_i, used_i = inlined(cx.repo.modules[REL], ver, depth=4)
    if used_i:
        cx.note(f"R03a: {used_i} expanded in place")

    def cursor_field(st):
        """2 / 3 for `<entry>[2] += 1` / `<entry>[3] += 1` (entry: a name or <stack>[-1]), else None"""
        if isinstance(st, ast.AugAssign) and isinstance(st.op, ast.Add) and const(st.value, int) and st.value.value == 1 and isinstance(st.target, ast.Subscript):
            from sa.guards import expand_at
            sl = expand_at(st.target.slice, st)         # a local constant naming the field index is read through
            if const(sl, int) and sl.value in (2, 3):
                return sl.value
        return None
    n_ab = n_st = 0
    for c in walk_local(ver_i):
        fld = cursor_field(c)
        if fld == 2:
            n_ab += 1
            fs = facts(c)
            end = any(isinstance(e, ast.Compare) and isinstance(e.ops[0], ast.GtE) and pol and norm(e.comparators[0]).startswith("len(") and norm(e.comparators[0]).endswith(".production)") for e, pol in fs)
            nn = nonnullable_fact(fs)
            ok = end or nn is not None
            why = "end of the production reached" if end else (f"justified by {nn}" if nn else "")
            if not ok:
                shortcut = [norm(e) for e, pol in fs if pol and isinstance(e, ast.Compare) and isinstance(e.ops[0], ast.In) and "processed" in norm(e.comparators[0])]
                why = ("the production is abandoned without knowing that a symbol of the skipped prefix is non-nullable" +
                       (f" (only `{shortcut[0]}` is known, and that set also holds nullable symbols: a left recursion hidden behind an already examined nullable symbol is missed)" if shortcut else ""))
            cx.ob("R03a", c, ok, why, stmt=f"abandon #{n_ab}: {norm(c)}")
            # abandoning a production also restarts its symbol index
            blk = getattr(parent(c), "body", []) if c in getattr(parent(c), "body", []) else getattr(parent(c), "orelse", [])
            from sa.guards import expand_at as _xa

            def _idx(x):
                sl = _xa(x.targets[0].slice, x)
                return sl.value if const(sl, int) else None
            reset = any(isinstance(x, ast.Assign) and isinstance(x.targets[0], ast.Subscript) and _idx(x) == 3
                        and const(x.value, int) and x.value.value == 0 and norm(x.targets[0].value) == norm(c.target.value) for x in blk)
            cx.ob("R03a", c, reset, "the next production is walked from its first symbol" if reset else "the symbol index is not reset when the production is abandoned", stmt=f"abandon #{n_ab}: reset")
        if fld == 3:
            n_st += 1
            nf = nullable_fact(facts(c))
            cx.ob("R03a", c, nf is not None, f"steps past a symbol known nullable ({nf})" if nf else
                  "the check steps past a symbol without knowing it is nullable (a later symbol would be reported as reachable without consuming a token)", stmt=f"step #{n_st}: {norm(c)}")
    cx.at_least("R03a", "sites abandoning a production", n_ab, 4)
    cx.at_least("R03a", "sites stepping past a symbol", n_st, 2)
    # cycle test: compares the current symbol with every stack entry, raises on equality, precedes any shortcut
    raises = [r for r in walk_local(ver) if isinstance(r, ast.Raise)]
    cx.need(len(raises) >= 1, "R03b", ver, "no raise in the recursion check")
    for r in raises:
        ok = r.exc is not None and call_name(r.exc) == "GrammarIsRecursive"
        cx.ob("R03b", r, ok, "raises GrammarIsRecursive" if ok else f"raises {norm(r.exc)[:40] if r.exc else 'bare'}")
    gir = cx.cls(REL, "GrammarIsRecursive", "R03b")
    ok = any(norm(b) == "GrammarError" for b in gir.bases)
    cx.ob("R03b", gir, ok, "GrammarIsRecursive is a GrammarError" if ok else "GrammarIsRecursive no longer derives from GrammarError")
    rz = raises[0]
    verdict, why = _cycle_test(rz, ver)
    if verdict is None:
        raise AnalysisError("R03a", f"{REL}::{ver.name}", f"cycle test not recognised ({why})")
    cx.ob("R03a", rz, verdict, "a cycle is reported exactly when the current symbol is already on the DFS stack" if verdict else
          f"cycle test is not `current symbol == some symbol on the whole stack` ({why})")
    # push: go deeper into the current symbol with its own productions, from its first production / symbol
    pushes = [c for c in walk_local(ver) if isinstance(c, ast.Call) and call_name(c) == "append" and norm(c.func.value) == "stack"]
    ok = len(pushes) == 1 and norm(pushes[0].args[0]) == "[cur_symbol, self.prods_map[cur_symbol], 0, 0]"
    cx.ob("R03a", pushes[0] if pushes else ver, ok, "descends into the current symbol's own productions from the start" if ok else "DFS push altered")
    roots = [l for l in ver.body if isinstance(l, ast.For)]
    ok = len(roots) == 1 and "self.prods_map.items()" in norm(roots[0].iter)
    if ok:
        first = roots[0].body[0]
        ok = isinstance(first, ast.If) and "processed_symbols" in norm(first.test) and any(isinstance(x, ast.Continue) for x in first.body)
    cx.ob("R03a", roots[0] if roots else ver, ok, "every symbol of the grammar is a DFS root unless already examined" if ok else "not every symbol is used as a DFS root")
    # the examined set starts as the terminals only: a non-terminal put there in advance is never walked
    ps_name = next((norm(c.func.value) for c in walk_local(ver) if isinstance(c, ast.Call) and call_name(c) == "add" and "processed" in norm(c.func.value)), "processed_symbols")
    inits = [(st, v) for st, v in assignments(ver, ps_name) if v is not None]
    ok = len(inits) == 1 and norm(inits[0][1]) in ("set(self.terminals)", "set(terminals)", "set(self.terminals.copy())", "self.terminals.copy()", "{*self.terminals}")
    cx.ob("R03a", inits[0][0] if inits else ver, ok, "the examined set initially holds the terminals only" if ok else
          f"the examined set is initialised as `{norm(inits[0][1]) if inits else '?'}`: every non-terminal in it is skipped by the search without its productions being walked, "
          f"so a cycle running through it is not found")
    for m_ in [c for c in walk_local(ver) if isinstance(c, ast.Call) and call_name(c) in ("update", "__ior__") and norm(c.func.value) == ps_name] + \
            [a for a in walk_local(ver) if isinstance(a, ast.AugAssign) and norm(a.target) == ps_name]:
        cx.ob("R03a", m_, False, "symbols are added to the examined set in bulk (not after their productions were walked)")
    pa = [c for c in walk_local(ver) if isinstance(c, ast.Call) and call_name(c) == "add" and "processed" in norm(c.func.value)]
    # the entry is unpacked as (symbol, productions, production index, symbol index): "all productions walked" is
    # production index >= len(productions), whatever the four names are
    unp = [st_ for st_ in walk_local(ver) if isinstance(st_, ast.Assign) and isinstance(st_.targets[0], ast.Tuple) and len(st_.targets[0].elts) == 4
           and all(isinstance(x_, ast.Name) for x_ in st_.targets[0].elts)]
    cands_ = [("prod_rules", "cur_prod_id")] + [(u_.targets[0].elts[1].id, u_.targets[0].elts[2].id) for u_ in unp]
    from sa.guards import canon_facts as _cfs
    ok = len(pa) == 1 and any(("<", pid_n, f"len({rules_n})", False) in _cfs(pa[0]) for rules_n, pid_n in cands_)
    cx.ob("R03a", pa[0] if pa else ver, ok, "a symbol counts as examined only after all its productions were walked" if ok else "symbols are marked examined before all productions are walked")
    # the constructor calls the check with the nullables of the same grammar, after the table is built
    ctor = cx.func(REL, "LLParser.__init__", "R03a")
    c = [x for x in walk_local(ctor) if isinstance(x, ast.Call) and call_name(x) == ver.name]
    ok = len(c) == 1 and norm(c[0].args[0]) == "nullables" and parent(enclosing_stmt(c[0])) is ctor
    cx.ob("R03a", c[0] if c else ctor, ok, "the constructor always runs the recursion check with this grammar's nullables" if ok else "recursion check is not run unconditionally by the constructor")

    # ------------------------------------------------------------------ R03c
    main = [w for w in parse.body if isinstance(w, ast.While) and const(w.test) and w.test.value is True]
    cx.need(len(main) == 1, "R03c", parse, "main `while True` loop of parse")
    mw = main[0]
    PROG = ("next_matched", "_put_on_stack", "switch_to_next_prod")

    def classify(st):
        if enclosing_func(st) is not parse:
            return None
        letters = []
        for c in ast.walk(st):
            if isinstance(c, ast.Call) and call_name(c) in PROG:
                letters.append("P")
            elif isinstance(c, ast.Call) and call_name(c) != "_StackElement" and any(isinstance(a_, ast.Call) and call_name(a_) == "_StackElement" for a_ in c.args):
                letters.append("P")         # a new stack element is built and handed on (push), whatever the pushing helper is called
        return tuple(letters) if letters else None
    spec = {("s0", "P"): "s0", ("s0", "HEAD"): "h", ("h", "P"): "p", ("p", "P"): "p", ("p", "HEAD"): "h"}
    res = events.check(parse, classify, spec, "s0", {"s0", "h", "p"}, loop_letters={id(mw): "HEAD"}, known_tests=events.reference_tests(parse))
    if not res.violations and res.uncertain:
        # only along paths through a test on state the event engine does not track: a loss of precision, not a finding
        raise AnalysisError("R03c", f"{REL}::LLParser.parse", f"progress of the parse loop not decided: the only irregular paths go through a test on untracked state (line {res.uncertain[0][1][-1] if res.uncertain[0][1] else '?'}: {res.uncertain[0][0][:60]})")
    cx.counts["R03c:product states"] = res.states
    if not res.violations:
        cx.ob("R03c", mw, True, f"every iteration of the parse loop performs a progress action before the next one starts ({res.states} product states)", stmt="no stuttering")
    for msg, pth in res.violations[:3]:
        cx.ob("R03c", mw, False, f"an iteration of the parse loop can repeat without any progress action (match, push, next alternative): path through lines {pth[-10:]}", stmt="no stuttering", semantic=True)
    # the body cannot fall off its end silently: last statement raises
    last = mw.body[-1]
    if isinstance(last, ast.For) and last.orelse and not any(isinstance(x, ast.Return) for x in ast.walk(last)):
        # `for .. : .. break` + `else: raise`: the else-branch is what runs when nothing was found
        last = last.orelse[-1]
    ok = isinstance(last, ast.Raise) and call_name(last.exc) == "ParsingError"
    cx.ob("R03c", last, ok, "when nothing can be tried any more a ParsingError is raised" if ok else "the loop body does not end by raising ParsingError")
    # ---- roll-back: the entry the stack is cut at has an untried alternative, and the search for it terminates.
    # Recognised: an inline downward scan (while rollback_point >= 0: .. break .. rollback_point -= 1), or a helper called as
    # `rollback_point = self.<helper>(parse_stack)` that walks the stack from the top and returns the position / -1.
    def untried_test(e, pol):
        """Is the fact `e` (with polarity) equivalent to  <entry>.cur_prod_id <= len(<entry>.prod_rs) - 2 ?  -> True / False / None"""
        if not (isinstance(e, ast.Compare) and len(e.ops) == 1):
            return None

        def atom(x):
            if isinstance(x, ast.Attribute) and x.attr == "cur_prod_id":
                return "c"
            if isinstance(x, ast.Call) and call_name(x) == "len" and x.args and isinstance(x.args[0], ast.Attribute) and x.args[0].attr == "prod_rs":
                return "L"
            return None
        from sa.poly import linear as _lin
        a, b = _lin(e.left, atom=atom), _lin(e.comparators[0], atom=atom)
        if a is None or b is None:
            return None
        d = {k: a.get(k, 0) - b.get(k, 0) for k in set(a) | set(b)}
        d = {k: v for k, v in d.items() if v != 0}
        if set(d) - {1} != {"c", "L"} or d.get("c") != -d.get("L") or abs(d["c"]) != 1:
            return None
        op = type(e.ops[0])
        if not pol:
            op = {ast.Lt: ast.GtE, ast.GtE: ast.Lt, ast.Gt: ast.LtE, ast.LtE: ast.Gt}.get(op)
        if op is None:
            return None
        k = d.get(1, 0)
        if d["c"] == -1:     # -(c - L) + k  op 0   ->   c - L  op'  k
            op = {ast.Lt: ast.Gt, ast.Gt: ast.Lt, ast.LtE: ast.GtE, ast.GtE: ast.LtE}[op]
            k = k
        else:
            k = -k
        # now:  c - L  op  k
        bound = {ast.Lt: k - 1, ast.LtE: k}.get(op)   # c - L <= bound
        if bound is None:
            return False
        return bound == -2
    scans = [w for w in ast.walk(mw) if isinstance(w, ast.While) and w is not mw]
    sw = [c for c in ast.walk(mw) if isinstance(c, ast.Call) and call_name(c) == "switch_to_next_prod"]
    ok = len(sw) == 1 and norm(sw[0].func.value) == "parse_stack[-1]"
    rp = None
    if ok:
        blk = parent(enclosing_stmt(sw[0])).body
        i2 = blk.index(enclosing_stmt(sw[0]))
        cut = blk[i2 - 1] if i2 > 0 else None
        ok = isinstance(cut, ast.Assign) and is_name(cut.targets[0], "parse_stack") and isinstance(cut.value, ast.Subscript) and is_name(cut.value.value, "parse_stack") \
            and isinstance(cut.value.slice, ast.Slice) and cut.value.slice.lower is None and isinstance(cut.value.slice.upper, ast.BinOp) \
            and isinstance(cut.value.slice.upper.op, ast.Add) and isinstance(cut.value.slice.upper.left, ast.Name) and const(cut.value.slice.upper.right, int) and cut.value.slice.upper.right.value == 1
        if ok:
            rp = cut.value.slice.upper.left.id
            g = canon_facts(sw[0])      # spelling-free: rp >= 0 / not rp < 0 / 0 <= rp ; rp > -1 ; rp != -1
            in_for = any(isinstance(l, ast.For) and is_name(l.target, rp) for l in enclosing_loops(sw[0]))
            ok = in_for or ("<", rp, "0", False) in g or ("<", "-1", rp, True) in g or ("==", *sorted(("-1", rp)), False) in g
    cx.ob("R03c", sw[0] if sw else mw, ok, "roll-back cuts the stack at the entry with an untried alternative and advances it" if ok else "roll-back does not truncate to the rollback point and switch its alternative")
    if rp is not None and any(isinstance(l, ast.For) and is_name(l.target, rp) for l in ast.walk(mw)):
        # the roll-back point is the variable of a `for` over a descending range: terminates; the cut happens under the test
        fl = next(l for l in ast.walk(mw) if isinstance(l, ast.For) and is_name(l.target, rp))
        desc = isinstance(fl.iter, ast.Call) and call_name(fl.iter) == "range" and len(fl.iter.args) == 3 and norm(fl.iter.args[2]) == "-1" and norm(fl.iter.args[1]) == "-1" \
            and norm(fl.iter.args[0]) in ("len(parse_stack) - 1",)
        if not desc:
            raise AnalysisError("R03c", f"{REL}::LLParser.parse", "roll-back scan range not recognised")
        vs = [untried_test(e, pol) for e, pol in facts(sw[0])]
        if True not in vs and False not in vs:
            raise AnalysisError("R03c", f"{REL}::LLParser.parse", "test selecting the roll-back point not recognised")
        cx.ob("R03c", sw[0], True in vs, "the roll-back point (descending scan of the stack) has an untried alternative" if True in vs else
              "the scan stops at an entry that may have no untried alternative (switching it runs past its last production)")
    elif rp is not None:
        defs = [(st, v) for st, v in assignments(parse, rp) if v is not None]
        helper = None
        for st, v in defs:
            if isinstance(v, ast.Call) and isinstance(v.func, ast.Attribute) and is_name(v.func.value, "self", "cls") and repo.has(REL, f"LLParser.{v.func.attr}"):
                helper = cx.func(REL, f"LLParser.{v.func.attr}", "R03c")
        nxt = [v for st, v in defs if isinstance(v, ast.Call) and isinstance(v.func, ast.Name) and v.func.id == "next" and len(v.args) == 2
               and isinstance(v.args[0], ast.GeneratorExp)]
        if helper is None and len(nxt) == 1 and len(defs) == 1:
            # rollback_point = next((i for i in <descending positions> if <entry i has an untried alternative>), -1)
            ge = nxt[0].args[0]
            dflt = nxt[0].args[1]
            g0 = ge.generators[0]
            it_txt = norm(g0.iter).replace(" ", "")
            desc = it_txt in ("reversed(range(len(parse_stack)))", "range(len(parse_stack)-1,-1,-1)")
            shape = len(ge.generators) == 1 and isinstance(g0.target, ast.Name) and is_name(ge.elt, g0.target.id) and len(g0.ifs) == 1 and \
                isinstance(dflt, ast.UnaryOp) and isinstance(dflt.op, ast.USub) and const(dflt.operand, int) and dflt.operand.value == 1
            if not (desc and shape):
                raise AnalysisError("R03c", f"{REL}::LLParser.parse", "roll-back point by next(): form not recognised")
            cond = g0.ifs[0]
            verdict = None
            entry = f"parse_stack[{g0.target.id}]"
            if isinstance(cond, ast.Call) and isinstance(cond.func, ast.Attribute) and norm(cond.func.value) == entry and not cond.args:
                # a predicate method of the stack element
                se_cls = cx.cls(REL, "_StackElement", "R03c")
                pm = repo.method(se_cls, cond.func.attr)
                body = [b for b in (pm.body if pm is not None else []) if not (isinstance(b, ast.Expr) and isinstance(b.value, ast.Constant))]
                if len(body) == 1 and isinstance(body[0], ast.Return) and body[0].value is not None:
                    verdict = untried_test(body[0].value, True)
            elif isinstance(cond, ast.Compare) and all(norm(x.value) == entry for x in ast.walk(cond) if isinstance(x, ast.Attribute) and x.attr in ("cur_prod_id", "prod_rs")):
                verdict = untried_test(cond, True)
            if verdict is None:
                raise AnalysisError("R03c", f"{REL}::LLParser.parse", "test selecting the roll-back point not recognised")
            cx.ob("R03c", nxt[0], verdict, "the roll-back point (first entry from the top with an untried alternative) is selected by a descending search" if verdict else
                  "the search stops at an entry that may have no untried alternative (switching it runs past its last production)")
        elif helper is not None:
            # helper form: every `return <non-constant>` is under the untried test on the entry at that position; other returns are -1;
            # the walk is a for over a range (terminates)
            rets = [r for r in walk_local(helper) if isinstance(r, ast.Return)]
            pos_rets = [r for r in rets if r.value is not None and not (isinstance(r.value, ast.UnaryOp) or const(r.value))]
            neg_rets = [r for r in rets if r not in pos_rets]
            okh = bool(pos_rets) and all(isinstance(r.value, ast.UnaryOp) and const(r.value.operand, int) and r.value.operand.value == 1 for r in neg_rets) and bool(neg_rets)
            verdicts = []
            for r in pos_rets:
                vs = [untried_test(e, pol) for e, pol in facts(r)]
                verdicts.append(True if True in vs else False if False in vs else None)
            loops_h = [l for l in walk_local(helper) if isinstance(l, (ast.For, ast.While))]
            if not okh or None in verdicts or not loops_h or any(isinstance(l, ast.While) for l in loops_h):
                raise AnalysisError("R03c", f"{REL}::LLParser.{helper.name}", "roll-back point helper not recognised")
            cx.ob("R03c", helper, all(verdicts), "the roll-back point (found by a helper walking a finite range) has an untried alternative" if all(verdicts) else
                  "the helper returns a stack position whose entry may have no untried alternative")
        else:
            for w in scans:
                # `while v >= 0` (however spelled) whose every pass through the body that comes back to the test has decremented v
                ct = canon_test(w.test)
                v = next((a for k_, a, b, pol in ct if k_ == "<" and b == "0" and not pol), None) or next((b for k_, a, b, pol in ct if k_ == "<" and a == "-1" and pol), None)

                def dec_all(stmts):
                    for s_ in stmts:
                        if isinstance(s_, ast.AugAssign) and norm(s_.target) == v and isinstance(s_.op, ast.Sub) and const(s_.value, int) and s_.value.value >= 1:
                            return True
                        if isinstance(s_, (ast.Break, ast.Return, ast.Raise)):
                            return True         # does not come back
                        if isinstance(s_, ast.Continue):
                            return False
                        if isinstance(s_, ast.If) and s_.orelse and dec_all(s_.body) and dec_all(s_.orelse):
                            return True
                        if any(isinstance(x, ast.Continue) for x in ast.walk(s_)):
                            return False        # may come back to the test from inside this statement, before the decrement
                    return False
                okw = v is not None and len(ct) == 1 and dec_all(w.body)
                cx.ob("R03c", w, okw, "the roll-back scan moves strictly down the stack" if okw else "roll-back scan may not terminate")
            brk = [b for b in ast.walk(mw) if isinstance(b, ast.Break) and scans and enclosing_loops(b)[0] is scans[0]]
            if len(brk) != 1:
                raise AnalysisError("R03c", f"{REL}::LLParser.parse", "roll-back scan not recognised")
            vs = [untried_test(e, pol) for e, pol in facts(brk[0])]
            if True not in vs and False not in vs:
                raise AnalysisError("R03c", f"{REL}::LLParser.parse", "test selecting the roll-back point not recognised")
            cx.ob("R03c", brk[0], True in vs, "the roll-back point has an untried alternative" if True in vs else
                  "the scan stops at an entry that may have no untried alternative (switching it runs past its last production)")
    # push uses the alternatives of the table and the current cursor
    ps = [c for c in ast.walk(mw) if isinstance(c, ast.Call) and call_name(c) == "_StackElement"]
    ok = len(ps) == 1 and [norm(a) for a in ps[0].args] == ["cur_symbol", "top.cur_token_pos", "prods"]
    cx.ob("R03c", ps[0] if ps else mw, ok, "expansion pushes (symbol, current cursor, alternatives from the table)" if ok else "pushed stack element altered")


def _cycle_test(rz, ver):
    """Is the raise reached exactly when some entry e of the whole DFS stack has e[0] == <current symbol>?
    Forms: a for loop over (enumerate of) the stack with an equality test; next(generator, None) tested against None;
    any(generator); membership in a comprehension of first components.  -> (True / False / None, reason)"""
    from sa.guards import reaching_def
    pushes = [c for c in walk_local(ver) if isinstance(c, ast.Call) and call_name(c) == "append" and isinstance(c.func.value, ast.Name) and c.args and isinstance(c.args[0], ast.List)]
    if len(pushes) != 1 or not isinstance(pushes[0].args[0].elts[0], ast.Name):
        return None, "DFS push not found"
    stack, cur = pushes[0].func.value.id, pushes[0].args[0].elts[0].id

    def over_stack(it):
        """'whole' / 'part' / None, and whether entries come enumerated"""
        enum = False
        if isinstance(it, ast.Call) and call_name(it) == "enumerate" and len(it.args) == 1:
            enum, it = True, it.args[0]
        if isinstance(it, ast.Name) and it.id == stack:
            return "whole", enum
        if isinstance(it, ast.Subscript) and isinstance(it.value, ast.Name) and it.value.id == stack:
            return "part", enum
        if isinstance(it, ast.Call) and call_name(it) == "reversed" and len(it.args) == 1 and isinstance(it.args[0], ast.Name) and it.args[0].id == stack:
            return "whole", enum
        return None, enum

    def first_component(target, enum):
        """text that denotes entry[0] for the loop / comprehension target"""
        t = target
        if enum:
            if not (isinstance(t, ast.Tuple) and len(t.elts) == 2):
                return None
            t = t.elts[1]
        if isinstance(t, ast.Tuple):
            return norm(t.elts[0]) if isinstance(t.elts[0], ast.Name) else None
        if isinstance(t, ast.Name):
            return f"{t.id}[0]"
        return None

    def eq_matches(e, comp):
        return isinstance(e, ast.Compare) and len(e.ops) == 1 and isinstance(e.ops[0], ast.Eq) and {norm(e.left), norm(e.comparators[0])} == {comp, cur}

    def judge_gen(g, cond):
        """generator `for target in iter` with the condition expression `cond`"""
        how, enum = over_stack(g.iter)
        if how is None:
            return None, f"iterates {norm(g.iter)}"
        comp = first_component(g.target, enum)
        if comp is None:
            return None, "entry pattern"
        if not eq_matches(cond, comp):
            if isinstance(cond, ast.Compare) and cur in {norm(cond.left), norm(cond.comparators[0])}:
                return False, f"compares `{norm(cond)}`, not the entry's symbol with the current symbol"
            return None, f"condition {norm(cond)}"
        if how == "part":
            return False, f"only {norm(g.iter)} is searched, not the whole stack"
        return True, ""
    # (a) enclosing for loop
    for lp in enclosing_loops(rz):
        if isinstance(lp, ast.For) and over_stack(lp.iter)[0] is not None:
            conds = [e for e, pol in facts(rz, stop=lp) if pol]
            how, enum = over_stack(lp.iter)
            comp = first_component(lp.target, enum)
            if comp is None:
                return None, "entry pattern"
            if not any(eq_matches(e, comp) for e in conds):
                if any(isinstance(e, ast.Compare) and cur in {norm(e.left), norm(e.comparators[0])} for e in conds):
                    return False, "the equality test does not compare the entry's symbol with the current symbol"
                return None, "no equality test inside the loop over the stack"
            if len(conds) != 1:
                return None, f"additional conditions {[norm(e) for e in conds]}"
            if how == "part":
                return False, f"only {norm(lp.iter)} is searched, not the whole stack"
            return True, ""
    # (b) / (c): a fact about a value computed from a generator over the stack
    for e, pol in facts(rz):
        val = None
        if isinstance(e, ast.Compare) and len(e.ops) == 1 and isinstance(e.left, ast.Name) and norm(e.comparators[0]) == "None" and \
                ((isinstance(e.ops[0], ast.IsNot) and pol) or (isinstance(e.ops[0], ast.Is) and not pol)):
            r = reaching_def(e.left.id, e, calls=True)
            if r is not None:
                val = r[0]
            if isinstance(val, ast.Call) and call_name(val) == "next" and len(val.args) == 2 and norm(val.args[1]) == "None" and isinstance(val.args[0], ast.GeneratorExp) \
                    and len(val.args[0].generators) == 1 and len(val.args[0].generators[0].ifs) == 1:
                g = val.args[0].generators[0]
                return judge_gen(g, g.ifs[0])
        if pol and isinstance(e, ast.Call) and call_name(e) == "any" and len(e.args) == 1 and isinstance(e.args[0], (ast.GeneratorExp, ast.ListComp)) and len(e.args[0].generators) == 1 \
                and not e.args[0].generators[0].ifs:
            return judge_gen(e.args[0].generators[0], e.args[0].elt)
        if pol and isinstance(e, ast.Compare) and len(e.ops) == 1 and isinstance(e.ops[0], ast.In) and norm(e.left) == cur:
            c = e.comparators[0]
            if isinstance(c, ast.Name):
                r = reaching_def(c.id, e, calls=True)
                c = r[0] if r is not None else c
            if isinstance(c, (ast.ListComp, ast.SetComp, ast.GeneratorExp)) and len(c.generators) == 1 and not c.generators[0].ifs:
                how, enum = over_stack(c.generators[0].iter)
                comp = first_component(c.generators[0].target, enum)
                if how is None or comp is None:
                    return None, "membership source"
                if norm(c.elt) != comp:
                    return False, f"membership among `{norm(c.elt)}`, not the entries' symbols"
                return (True, "") if how == "whole" else (False, f"only {norm(c.generators[0].iter)} is searched")
    return None, "no test relating the current symbol to the stack dominates the raise"
