"""C20 — short uuid strings are a bijective encoding of UUIDs."""
import ast

from sa.core import (AnalysisError, FUNC, call_name, const, dotted, enclosing_func, is_name, literal, norm, parent, walk_local,
                     names_in, assignments, params, enclosing_stmt, ancestors)
from sa.guards import facts

PROP = "C20"
REL = "ak/short_uuid.py"
EXPLANATION = (
    "Constant folding + normal-form recognition + guard and exception-escape analysis of ak/short_uuid.py. R20a: the "
    "alphabet literal folds to 57 pairwise distinct characters and the index map is built by enumerating that same "
    "list (inverse by construction). R20b: the length constant is 22 and 57**22 >= 2**128 (every UUID fits, padding "
    "never negative). R20c: the encoder is recognised as quotient/remainder radix conversion (divmod or %,//) emitting "
    "the least- or most-significant digit first, padded with the zero digit at the most-significant end; the decoder as "
    "Horner evaluation (or the power-sum form) consuming digits in the matching order, same base expression on both "
    "sides. R20d: the str test and the length test dominate decoding; overflow is rejected by uuid.UUID(int=<the decoded "
    "number, unmodified>) inside the handler. R20e: for str arguments the exceptions that can escape are a subset of "
    "{ValueError}: implicit KeyError of a dict subscript in the decoder must be caught by the handler, handlers re-raise "
    "ValueError. R20f: uuid_from_str tries the canonical form first and falls back only on ValueError. Given a-c the "
    "round trip and injectivity follow from the positional-numeral theorem (trusted mathematics)."
)

ALPHA_SIZE = 57   # from the property statement
STR_LEN = 22      # from the property statement


def _resolve_base(expr, func, mod, alpha_name):
    """Is `expr` the size of the alphabet?  Accept len(<alphabet>), a local
    alias of it, or an int constant equal to the folded size."""
    seen = 0
    while isinstance(expr, ast.Name) and seen < 4:
        seen += 1
        defs = [v for _, v in assignments(func, expr.id)]
        if len(defs) == 1 and defs[0] is not None:
            expr = defs[0]
        elif expr.id in mod.globals and not defs:
            expr = mod.globals[expr.id]
        else:
            return False
    if isinstance(expr, ast.Call) and call_name(expr) == "len" and len(expr.args) == 1 and is_name(expr.args[0], alpha_name):
        return True
    if const(expr, int):
        try:
            return expr.value == len(literal(mod.globals[alpha_name], mod))
        except Exception:
            return False
    return False


def run(cx):
    repo = cx.repo
    mod = repo.mod(REL, "R20a")
    cx.rule("R20a", "alphabet: 57 distinct characters; index map is the inverse built from the same list")
    cx.rule("R20b", "length constant 22 and 57**22 >= 2**128")
    cx.rule("R20c", "encoder / decoder are radix conversions with matching digit order, base and padding side")
    cx.rule("R20d", "str and length tests dominate decoding; overflow rejected by uuid.UUID(int=decoded)")
    cx.rule("R20e", "exceptions escaping for str arguments are a subset of {ValueError}")
    cx.rule("R20f", "uuid_from_str: canonical form first, short form only on ValueError")
    cx.trust("uuid.UUID(int=n) raises ValueError unless 0 <= n < 2**128; uuid.UUID(str) raises ValueError for a malformed string (CPython stdlib)")
    cx.trust("positional-numeral theorem: base-B digit strings of fixed length with distinct digit symbols are in bijection with 0..B**len-1")

    dec = cx.func(REL, "_str_to_int", "R20c")
    enc = cx.func(REL, "_int_to_str", "R20c")
    from_short = cx.func(REL, "uuid_from_short_str", "R20d")
    to_short = cx.func(REL, "uuid_to_short_str", "R20c")
    from_str = cx.func(REL, "uuid_from_str", "R20f")

    # ---- which global is the alphabet / index / length -----------------------------
    # alphabet: global subscripted with the digit in the encoder
    enc_subs = [n for n in walk_local(enc) if isinstance(n, ast.Subscript) and isinstance(n.value, ast.Name) and n.value.id in mod.globals]
    cx.need(enc_subs, "R20c", enc, "encoder does not index a module-level alphabet")
    alpha_name = enc_subs[0].value.id
    dec_subs = [n for n in walk_local(dec) if isinstance(n, ast.Subscript) and isinstance(n.value, ast.Name) and n.value.id in mod.globals]
    dec_gets = [n for n in walk_local(dec) if isinstance(n, ast.Call) and isinstance(n.func, ast.Attribute) and n.func.attr == "get"
                and isinstance(n.func.value, ast.Name) and n.func.value.id in mod.globals]
    if not (dec_subs or dec_gets):
        _translate_decoder(cx, dec, from_short, mod, alpha_name)
    cx.need(dec_subs or dec_gets, "R20c", dec, "decoder does not look digits up in a module-level map")
    index_name = (dec_subs[0].value.id if dec_subs else dec_gets[0].func.value.id)

    # ---- R20a ------------------------------------------------------------------------
    try:
        alpha = literal(mod.globals[alpha_name], mod)
    except Exception as e:
        raise AnalysisError("R20a", f"{REL}::{alpha_name}", f"alphabet is not a literal: {e}")
    alpha = list(alpha)
    a_node = mod.globals[alpha_name]
    ok = len(alpha) == ALPHA_SIZE and len(set(alpha)) == len(alpha) and all(isinstance(c, str) and len(c) == 1 for c in alpha)
    cx.ob("R20a", a_node, ok, f"alphabet folds to {len(alpha)} characters, {len(set(alpha))} distinct" +
          ("" if ok else f" (the property needs {ALPHA_SIZE} pairwise distinct single characters)"))
    bad_chars = [c for c in alpha if not (isinstance(c, str) and c.isalnum() and c.isascii())]
    cx.ob("R20a", a_node, not bad_chars, "all alphabet characters are ASCII letters/digits" if not bad_chars else f"unexpected alphabet characters {bad_chars}",
          stmt=f"{alpha_name} characters")
    # index map: dict((char, pos) for pos, char in enumerate(ALPHA)) | {c: i for i, c in enumerate(ALPHA)}
    idx = mod.globals.get(index_name)
    cx.need(idx is not None, "R20a", f"{REL}::{index_name}", "index map not found")
    cx.ob("R20a", idx, _is_inverse_map(idx, alpha_name) if index_name != alpha_name else False,
          f"{index_name} maps each character of {alpha_name} to its position (enumerate of the same list)"
          if index_name != alpha_name and _is_inverse_map(idx, alpha_name) else f"{index_name} is not recognisably the inverse of {alpha_name}")

    # ---- R20b ------------------------------------------------------------------------
    len_names = {n.id for f in (enc, from_short) for n in walk_local(f) if isinstance(n, ast.Name) and n.id in mod.globals
                 and n.id not in (alpha_name, index_name)}
    len_name = None
    for nm in sorted(len_names):
        try:
            v = literal(mod.globals[nm], mod)
        except Exception:
            continue
        if isinstance(v, int) and not isinstance(v, bool):
            len_name = nm
            length = v
    cx.need(len_name, "R20b", f"{REL}", "length constant not found")
    cx.ob("R20b", mod.globals[len_name], length == STR_LEN, f"{len_name} = {length}" + ("" if length == STR_LEN else f" (the property says exactly {STR_LEN} characters)"))
    cap = len(alpha) ** length >= 2 ** 128
    cx.ob("R20b", mod.globals[len_name], cap, f"{len(alpha)}**{length} {'>=' if cap else '<'} 2**128: " + ("every UUID fits, padding length is never negative" if cap else "some UUIDs need more digits"),
          stmt="capacity")

    # ---- R20c encoder ------------------------------------------------------------------
    # (each in its own group: an encoder / decoder written in a form that is not recognised leaves R20c undecided, the
    # validation rules below are still decided)
    enc_order = cx.guard(_encoder, cx, enc, mod, alpha_name, len_name)
    dec_order = cx.guard(_decoder, cx, dec, mod, alpha_name, index_name)
    if enc_order and dec_order:
        cx.ob("R20c", dec, enc_order == dec_order, f"encoder writes {enc_order}, decoder reads {dec_order}", stmt="digit order agreement")
    # to_short: returns encoder(<arg>.int)
    p0 = params(to_short)[0]
    rets = [n for n in walk_local(to_short) if isinstance(n, ast.Return)]
    ok = len(rets) == 1 and isinstance(rets[0].value, ast.Call) and call_name(rets[0].value) == enc.name and len(rets[0].value.args) == 1 \
        and norm(rets[0].value.args[0]) == f"{p0}.int"
    cx.ob("R20c", rets[0] if rets else to_short, ok, "uuid_to_short_str encodes the full 128-bit integer of the uuid" if ok else "uuid_to_short_str does not return encoder(uuid.int)")

    # ---- R20d / R20e in uuid_from_short_str ----------------------------------------------
    # private helpers other than the decoder itself are expanded in place (analysis copy), so a constructor wrapped into a
    # helper is judged like the inline form
    from sa.inline import inlined
    from_short, _used = inlined(mod, from_short, exclude=(dec.name, enc.name), tests=True)
    if _used:
        cx.note(f"R20d/R20e: uuid_from_short_str analysed with {_used} inlined")
    arg = params(from_short)[0]
    dcalls = [n for n in walk_local(from_short) if isinstance(n, ast.Call) and call_name(n) == dec.name]
    cx.need(dcalls, "R20d", from_short, "decoder is not called")
    regex_checked = False
    for c in dcalls:
        fs = facts(c, expand_tests=True)
        is_str = any(isinstance(e, ast.Call) and call_name(e) == "isinstance" and pol and is_name(e.args[0], arg) and is_name(e.args[1], "str") for e, pol in fs)
        len_ok = any(isinstance(e, ast.Compare) and len(e.ops) == 1 and (
            (isinstance(e.ops[0], ast.NotEq) and not pol) or (isinstance(e.ops[0], ast.Eq) and pol))
            and {norm(e.left), norm(e.comparators[0])} == {f"len({arg})", len_name} for e, pol in fs)
        cx.ob("R20d", c, is_str, "decoding is dominated by the isinstance(str) test" if is_str else "decoding is reachable for a non-str argument")
        rx = None if len_ok else _regex_validation(cx, fs, arg, mod, alpha, length)
        if rx is not None:
            witness, only_alphabet, text = rx
            regex_checked = regex_checked or (witness is None and only_alphabet)
            cx.ob("R20d", c, witness is None, f"decoding is dominated by {text}, which accepts strings of {length} characters only" +
                  (" (all of the alphabet)" if only_alphabet else " (foreign characters are left to the look-up)") if witness is None else
                  f"decoding is dominated by {text}, which also accepts {witness!r} ({len(witness)} characters): a string of another length is decoded",
                  stmt=norm(enclosing_stmt(c)) + " [length]")
        else:
            cx.ob("R20d", c, len_ok, f"decoding is dominated by len({arg}) == {len_name}" if len_ok else "decoding is reachable for a string of another length", stmt=norm(enclosing_stmt(c)) + " [length]")
        ok = len(c.args) == 1 and is_name(c.args[0], arg)
        cx.ob("R20d", c, ok, "the whole argument is decoded" if ok else f"decoder receives {norm(c.args[0]) if c.args else '?'} instead of the argument", stmt=norm(enclosing_stmt(c)) + " [arg]")
    ucalls = [n for n in walk_local(from_short) if isinstance(n, ast.Call) and dotted(n.func) in ("uuid.UUID", "UUID")]
    cx.need(ucalls, "R20d", from_short, "uuid.UUID is not constructed")
    extra_raisers = []
    for u in ucalls:
        kw = {k.arg: k.value for k in u.keywords}
        ok = "int" in kw and isinstance(kw["int"], (ast.Name, ast.Call)) and not u.args
        src_ok = False
        if ok and isinstance(kw["int"], ast.Call):
            src_ok = call_name(kw["int"]) == dec.name and kw["int"] in dcalls
        elif ok:
            defs = [v for _, v in assignments(from_short, kw["int"].id)]
            src_ok = len(defs) == 1 and isinstance(defs[0], ast.Call) and call_name(defs[0]) == dec.name
        if ok and src_ok:
            cx.ob("R20d", u, True, "uuid.UUID(int=<decoded number>) rejects numbers >= 2**128")
            continue
        # another route from the decoded number to the UUID: it has to reject numbers >= 2**128 itself
        nums = {t.id for st in walk_local(from_short) if isinstance(st, ast.Assign) and isinstance(st.value, ast.Call) and call_name(st.value) == dec.name
                for t in st.targets if isinstance(t, ast.Name)}
        changed = True
        while changed:      # names computed from the number
            changed = False
            for st in walk_local(from_short):
                if isinstance(st, ast.Assign) and len(st.targets) == 1 and isinstance(st.targets[0], ast.Name) and st.targets[0].id not in nums \
                        and any(isinstance(x, ast.Name) and x.id in nums for x in ast.walk(st.value)) and not isinstance(st.value, ast.Call):
                    nums.add(st.targets[0].id)
                    changed = True
        bounded = False
        for n_ in nums:
            lo, hi = _bounds_with_consts(facts(u), n_, mod)
            if hi is not None and hi < 2 ** 128:
                bounded = True
        uses = [x for x in ast.walk(u) if isinstance(x, ast.Name) and x.id in nums]
        reduced = [b for b in ast.walk(u) if isinstance(b, ast.BinOp) and isinstance(b.op, (ast.BitAnd, ast.Mod)) and any(isinstance(x, ast.Name) and x.id in nums for x in ast.walk(b))]
        for st in walk_local(from_short):
            if isinstance(st, ast.Assign) and isinstance(st.value, ast.BinOp) and isinstance(st.value.op, (ast.BitAnd, ast.Mod)) \
                    and any(isinstance(x, ast.Name) and x.id in nums for x in ast.walk(st.value)):
                reduced.append(st.value)
        tb = [c_ for c_ in ast.walk(u) if isinstance(c_, ast.Call) and call_name(c_) == "to_bytes" and isinstance(c_.func, ast.Attribute) and is_name(c_.func.value) and c_.func.value.id in nums]
        if bounded:
            cx.ob("R20d", u, True, "the decoded number is tested against 2**128 before the UUID is built from it")
        elif reduced:
            cx.ob("R20d", u, False, f"the decoded number is reduced (`{norm(reduced[0])}`) before the UUID is built and no range test precedes: "
                  "numbers >= 2**128 wrap around and are accepted")
        elif tb and len(tb[0].args) >= 1 and const(tb[0].args[0], int) and tb[0].args[0].value == 16:
            extra_raisers.append(("OverflowError", u))
            cx.ob("R20d", u, True, "int.to_bytes(16, ..) raises OverflowError for numbers >= 2**128 (handler types are checked by R20e)")
        else:
            cx.need(uses, "R20d", from_short, "the UUID is not built from the decoded number")
            cx.need(False, "R20d", from_short, f"how `{norm(u)[:80]}` rejects numbers >= 2**128 is not recognised")
    # R20e: every implicit raiser inside try; handler types
    tries = [n for n in walk_local(from_short) if isinstance(n, ast.Try)]
    implicit = set()
    if dec_subs and not regex_checked:
        implicit.add("KeyError")       # dict subscript in the decoder (a validation that admits alphabet characters only excludes it)
    for nm_, _u in extra_raisers:
        implicit.add(nm_)
    # a .get() look-up never raises by itself: what happens to a character outside the alphabet?
    for g_ in dec_gets:
        default = g_.args[1] if len(g_.args) > 1 else next((k.value for k in g_.keywords if k.arg == "default"), None)
        st_ = enclosing_stmt(g_)
        dname = st_.targets[0].id if isinstance(st_, ast.Assign) and len(st_.targets) == 1 and isinstance(st_.targets[0], ast.Name) and st_.value is g_ else None
        guard = None
        if dname is not None:
            for i_ in [x for x in walk_local(dec) if isinstance(x, ast.If)]:
                if dname in names_in(i_.test) and _always_raises(i_.body) and getattr(i_, "lineno", 0) > getattr(st_, "lineno", 0):
                    guard = i_
        if guard is not None:
            rs = [r for r in ast.walk(guard) if isinstance(r, ast.Raise)]
            for r in rs:
                implicit.add(_exc_type(cx, r, mod))
            tst = norm(guard.test).replace(" ", "")
            ok = (default is None or (isinstance(default, ast.Constant) and default.value is None)) and tst in (f"{dname}isNone",) or \
                 (isinstance(default, ast.UnaryOp) and isinstance(default.op, ast.USub) and tst in (f"{dname}<0", f"{dname}==-1", f"{dname}=={norm(default)}"))
            cx.need(ok, "R20e", guard, f"the test `{norm(guard.test)}` on the result of `{norm(g_)}` is not recognised")
            cx.ob("R20e", g_, True, "a character outside the alphabet is detected by testing the look-up result", stmt=norm(g_) + " [foreign character]")
        elif default is None or (isinstance(default, ast.Constant) and default.value is None):
            implicit.add("TypeError")
            cx.ob("R20e", g_, True, "a character outside the alphabet gives None, arithmetic on it raises TypeError (handler types checked below)", stmt=norm(g_) + " [foreign character]")
        else:
            cx.ob("R20e", g_, False, f"a character outside the alphabet is silently decoded as the digit `{norm(default)}`: strings with foreign characters are accepted",
                  stmt=norm(g_) + " [foreign character]")
    for site in dcalls + ucalls:
        t = next((t for t in tries if any(site in list(ast.walk(s)) for s in t.body)), None)
        cx.ob("R20e", site, t is not None, "call is inside a try block" if t else "call that may raise is outside any handler")
    for t in tries:
        caught = set()
        for h in t.handlers:
            if h.type is None:
                caught |= {"ValueError", "KeyError"}
            else:
                for x in ([h.type] if not isinstance(h.type, ast.Tuple) else h.type.elts):
                    nm = dotted(x)
                    caught |= {"Exception": {"ValueError", "KeyError"}, "LookupError": {"KeyError"}, "BaseException": {"ValueError", "KeyError"}}.get(nm, {nm})
            reraises = [n for n in ast.walk(h) if isinstance(n, ast.Raise)]
            okh = bool(reraises) and all(r.exc is not None and _exc_type(cx, r, mod) == "ValueError" for r in reraises) and _always_raises(h.body)
            cx.ob("R20e", h, okh, "handler re-raises ValueError on every path" if okh else "handler swallows the error or raises another type")
        need = {"ValueError"} | implicit
        miss = need - caught
        cx.ob("R20e", t, not miss, f"handler catches {sorted(need)}" if not miss else
              f"{sorted(miss)} can escape: the decoder subscripts the index dict with a character that may be outside the alphabet")
    for r in [n for n in walk_local(from_short) if isinstance(n, ast.Raise)]:
        ok = r.exc is not None and _exc_type(cx, r, mod) == "ValueError"
        cx.ob("R20e", r, ok, "explicit raise is ValueError" if ok else f"explicit raise of {norm(r.exc) if r.exc else 'bare raise'}")
    rets = [n for n in walk_local(from_short) if isinstance(n, ast.Return)]
    for r in rets:
        ok = isinstance(r.value, ast.Name) and any(isinstance(v, ast.Call) and v in ucalls for _, v in assignments(from_short, r.value.id)) or (r.value in ucalls)
        cx.ob("R20d", r, ok, "returns the constructed UUID" if ok else "returns something else than the constructed UUID")

    # ---- R20f ----------------------------------------------------------------------------
    a2 = params(from_str)[0]
    tries = [n for n in from_str.body if isinstance(n, ast.Try)]
    cx.need(len(tries) == 1, "R20f", from_str, "expected one try block")
    t = tries[0]
    canon = [n for s in t.body for n in ast.walk(s) if isinstance(n, ast.Call) and dotted(n.func) in ("uuid.UUID", "UUID")]
    ok = bool(canon) and all(len(c.args) == 1 and is_name(c.args[0], a2) and not c.keywords for c in canon)
    cx.ob("R20f", t, ok, "canonical form is tried first with the unmodified argument" if ok else "canonical parse is missing or receives a modified argument")
    htypes = set()
    for h in t.handlers:
        for x in ([h.type] if h.type is not None and not isinstance(h.type, ast.Tuple) else (h.type.elts if h.type is not None else [])):
            htypes.add(dotted(x))
        if h.type is None:
            htypes.add("*")
    cx.ob("R20f", t, htypes == {"ValueError"}, "falls back on ValueError only" if htypes == {"ValueError"} else f"handler types {sorted(map(str, htypes))}", stmt="try: [handlers]")
    # fallback call present after / in handler, returns its value, arg unmodified
    fb = [n for n in walk_local(from_str) if isinstance(n, ast.Call) and call_name(n) == from_short.name]
    ok = bool(fb) and all(len(c.args) == 1 and is_name(c.args[0], a2) and isinstance(parent(c), ast.Return) for c in fb)
    cx.ob("R20f", fb[0] if fb else from_str, ok, "short form is parsed as fallback and its result (or ValueError) is returned" if ok else "fallback to the short form is missing or altered")
    # the fallback must not be inside the try body (it would be tried first) and the try must return the canonical uuid
    in_try = [c for c in fb if any(c in list(ast.walk(s)) for s in t.body)]
    cx.ob("R20f", t, not in_try, "fallback is outside the try body" if not in_try else "short form is attempted inside the try body", stmt="try: [order]")
    cx.count("functions_analysed", 5)


def _regex_validation(cx, fs, arg, mod, alpha, length):
    """A must-fact `<compiled>.match(arg)` / `.fullmatch(arg)` / `re.match(P, arg)` / `re.fullmatch(P, arg)`: the language of whole
    strings it accepts against alphabet^length.  -> None (no such fact) | (witness of another length or None, accepts alphabet characters only?, description)"""
    from sa import automata as A
    for e, pol in fs:
        if not (pol and isinstance(e, ast.Call) and isinstance(e.func, ast.Attribute) and e.func.attr in ("match", "fullmatch") and not e.keywords):
            continue
        recv, pat = e.func.value, None
        if is_name(recv, "re") and len(e.args) == 2 and is_name(e.args[1], arg):
            pat = e.args[0]
        elif isinstance(recv, ast.Name) and recv.id in mod.globals and len(e.args) == 1 and is_name(e.args[0], arg):
            g = mod.globals[recv.id]
            if isinstance(g, ast.Call) and dotted(g.func) == "re.compile" and len(g.args) == 1 and not g.keywords:
                pat = g.args[0]
        if pat is None:
            continue
        try:
            text = literal(pat, mod)
        except Exception as ex:
            raise AnalysisError("R20d", f"{REL}::validation pattern", f"pattern is not a constant: {ex}")
        if not isinstance(text, str):
            raise AnalysisError("R20d", f"{REL}::validation pattern", "pattern is not a string")
        lang = A.accepted_language(text, e.func.attr)
        w, _n = A.find_in_a_not_b(lang, A.cat(*[A.charset(A.SIGMA)] * length))       # the length clause
        w2, _n2 = A.find_in_a_not_b(lang, A.star(A.charset(alpha)))                    # alphabet only? (else the look-up decides)
        cx.counts["R20d:validation patterns decided"] = cx.counts.get("R20d:validation patterns decided", 0) + 1
        return w, w2 is None, f"re.{e.func.attr}({text[:12]}..{text[-8:]!r})"
    return None


def _exc_type(cx, r, mod):
    """class name of the exception a `raise` statement raises; a module-level factory function whose every return is a
    constructor call of one class counts as that class; anything else is undecided"""
    e = r.exc
    if isinstance(e, ast.Call) and isinstance(e.func, ast.Name):
        f = next((st for st in mod.tree.body if isinstance(st, FUNC) and st.name == e.func.id), None)
        if f is None:
            return e.func.id
        rets = [x for x in walk_local(f) if isinstance(x, ast.Return)]
        kinds = {call_name(x.value) if isinstance(x.value, ast.Call) and isinstance(x.value.func, ast.Name) else None for x in rets}
        raises_inside = [x for x in walk_local(f) if isinstance(x, ast.Raise)]
        if len(kinds) == 1 and None not in kinds and not raises_inside and _always_returns_value(f.body):
            return kinds.pop()
        raise AnalysisError("R20e", f"{REL}::{f.name}", "exception factory: the class of the returned exception is not recognised")
    if isinstance(e, ast.Name):
        return e.id        # `raise ValueError`
    raise AnalysisError("R20e", f"{REL}", f"raised expression `{norm(e)}` is not recognised")


def _always_returns_value(stmts):
    for st in stmts:
        if isinstance(st, ast.Return):
            return st.value is not None
        if isinstance(st, ast.If) and st.orelse and _always_returns_value(st.body) and _always_returns_value(st.orelse):
            return True
    return False


def _bounds_with_consts(fs, name, mod):
    """int_bounds, with constant integer expressions (2 ** 128, 1 << 128, module constants bound to such) folded first"""
    from sa.guards import int_bounds

    def fold(e):
        if isinstance(e, ast.Constant) and isinstance(e.value, int) and not isinstance(e.value, bool):
            return e.value
        if isinstance(e, ast.Name) and e.id in mod.globals:
            d = [st.value for st in mod.tree.body if isinstance(st, ast.Assign) and any(is_name(t, e.id) for t in st.targets)]
            return fold(d[0]) if len(d) == 1 else None
        if isinstance(e, ast.BinOp):
            a, b = fold(e.left), fold(e.right)
            if a is None or b is None:
                return None
            if isinstance(e.op, ast.Pow) and 0 <= b <= 256:
                return a ** b
            if isinstance(e.op, ast.LShift) and 0 <= b <= 256:
                return a << b
            if isinstance(e.op, ast.Mult):
                return a * b
            if isinstance(e.op, ast.Add):
                return a + b
            if isinstance(e.op, ast.Sub):
                return a - b
        return None
    out = []
    for e, pol in fs:
        if isinstance(e, ast.Compare) and len(e.ops) == 1:
            l, r = e.left, e.comparators[0]
            fl, fr = (None if isinstance(l, ast.Name) and l.id == name else fold(l)), (None if isinstance(r, ast.Name) and r.id == name else fold(r))
            if fl is not None or fr is not None:
                e2 = ast.Compare(left=ast.Constant(value=fl) if fl is not None else l, ops=e.ops, comparators=[ast.Constant(value=fr) if fr is not None else r])
                out.append((e2, pol))
                continue
        out.append((e, pol))
    return int_bounds(out, name)


def _always_raises(stmts):
    if not stmts:
        return False
    last = stmts[-1]
    if isinstance(last, ast.Raise):
        return True
    if isinstance(last, ast.If):
        return _always_raises(last.body) and _always_raises(last.orelse)
    return False


def _is_inverse_map(node, alpha_name):
    # dict((c, i) for i, c in enumerate(A))  /  {c: i for i, c in enumerate(A)}  / dict(zip(A, range(len(A))))
    gen = None
    if isinstance(node, ast.Call) and call_name(node) == "dict" and len(node.args) == 1:
        a = node.args[0]
        if isinstance(a, (ast.GeneratorExp, ast.ListComp)) and isinstance(a.elt, ast.Tuple) and len(a.elt.elts) == 2:
            gen, k, v = a.generators, a.elt.elts[0], a.elt.elts[1]
        elif isinstance(a, ast.Call) and call_name(a) == "zip" and len(a.args) == 2 and is_name(a.args[0], alpha_name):
            r = a.args[1]
            return isinstance(r, ast.Call) and call_name(r) == "range" and len(r.args) == 1 and norm(r.args[0]) == f"len({alpha_name})"
    elif isinstance(node, ast.DictComp):
        gen, k, v = node.generators, node.key, node.value
    if not gen or len(gen) != 1 or gen[0].ifs:
        return False
    g = gen[0]
    if not (isinstance(g.iter, ast.Call) and call_name(g.iter) == "enumerate" and len(g.iter.args) == 1 and is_name(g.iter.args[0], alpha_name)
            and not g.iter.keywords):
        return False
    if not (isinstance(g.target, ast.Tuple) and len(g.target.elts) == 2 and all(isinstance(e, ast.Name) for e in g.target.elts)):
        return False
    pos, ch = g.target.elts[0].id, g.target.elts[1].id
    return is_name(k, ch) and is_name(v, pos)


def _encoder(cx, enc, mod, alpha_name, len_name):
    """Returns 'LSD-first' / 'MSD-first' or None; records R20c obligations."""
    num = params(enc)[0]
    host = enc
    gen_helper = None
    loops = [n for n in enc.body if isinstance(n, ast.While)]
    if not loops:
        # the digit loop may live in a generator helper:  def _digits(n): while n: n, d = divmod(n, B); yield d
        cands = []
        for c_ in walk_local(enc):
            if isinstance(c_, ast.Call) and isinstance(c_.func, ast.Name):
                h_ = next((f_ for f_ in mod.tree.body if isinstance(f_, FUNC) and f_.name == c_.func.id), None)
                if h_ is not None and any(isinstance(x, ast.While) for x in h_.body) and any(isinstance(x, ast.Yield) for x in ast.walk(h_)) \
                        and len(c_.args) == 1 and is_name(c_.args[0], num):
                    cands.append((c_, h_))
        if len(cands) == 1:
            gen_call, gen_helper = cands[0]
            host = gen_helper
            num = params(gen_helper)[0]
            loops = [n for n in gen_helper.body if isinstance(n, ast.While)]
            cx.note(f"R20c: the digit loop of the encoder is the generator {gen_helper.name}")
    if len(loops) != 1:
        _variable_groups(cx, enc)
    cx.need(len(loops) == 1, "R20c", enc, "encoder: expected one while loop over the quotient")
    loop = loops[0]
    t = loop.test
    # `number` / `number > 0` / `number != 0`, however spelled (mirrored, negated)
    from sa.guards import canon_test
    ct = canon_test(t)
    cond_ok = len(ct) == 1 and next(iter(ct)) in (("expr", num, "", True), ("<", "0", num, True), ("==", *sorted(("0", num)), False), ("<", num, "1", False),
                                                   ("expr", f"bool({num})", "", True))
    cx.ob("R20c", loop, cond_ok, "loop runs until the quotient is zero" if cond_ok else f"loop condition `{norm(t)}` stops before all digits are emitted (or never)")
    # quotient/remainder
    digit = None
    qr_ok = False
    body = loop.body
    for i, st in enumerate(body):
        if isinstance(st, ast.Assign) and isinstance(st.value, ast.Call) and call_name(st.value) == "divmod" and len(st.value.args) == 2 \
                and isinstance(st.targets[0], ast.Tuple) and len(st.targets[0].elts) == 2:
            q, r = st.targets[0].elts
            if is_name(q, num) and isinstance(r, ast.Name) and is_name(st.value.args[0], num):
                digit = r.id
                qr_ok = _resolve_base(st.value.args[1], host, mod, alpha_name)
                base_node = st
    if digit is None:
        # digit = num % B ; num //= B   (digit first)
        di = qi = None
        for i, st in enumerate(body):
            if isinstance(st, ast.Assign) and len(st.targets) == 1 and isinstance(st.targets[0], ast.Name) and isinstance(st.value, ast.BinOp) \
                    and isinstance(st.value.op, ast.Mod) and is_name(st.value.left, num):
                digit, di, db = st.targets[0].id, i, st.value.right
                base_node = st
            if isinstance(st, ast.AugAssign) and is_name(st.target, num) and isinstance(st.op, ast.FloorDiv):
                qi, qb = i, st.value
            if isinstance(st, ast.Assign) and len(st.targets) == 1 and is_name(st.targets[0], num) and isinstance(st.value, ast.BinOp) \
                    and isinstance(st.value.op, ast.FloorDiv) and is_name(st.value.left, num):
                qi, qb = i, st.value.right
        cx.need(digit is not None and qi is not None, "R20c", enc, "encoder: quotient/remainder idiom (divmod or %,//) not recognised")
        qr_ok = di < qi and _resolve_base(db, host, mod, alpha_name) and _resolve_base(qb, host, mod, alpha_name)
    cx.ob("R20c", base_node, qr_ok, "digit = n mod B, n = n div B with B = size of the alphabet" if qr_ok else
          "quotient/remainder use a base different from the alphabet size, or the remainder is taken after the division")
    # emission and padding: the digit string is followed as an abstract sequence value through the function.
    #   parts: ("D", order)  all digits of the number, least- or most-significant first
    #          ("P", zero, count_ok, text)  a run of one padding symbol
    # containers (str / list of characters) are not distinguished: "".join(list) is the identity on sequences.
    from sa.guards import xnorm_at

    def is_digit_sym(e):
        return isinstance(e, ast.Subscript) and is_name(e.value, alpha_name) and is_name(e.slice, digit)

    def is_zero_sym(e):
        return isinstance(e, ast.Subscript) and is_name(e.value, alpha_name) and const(e.slice, int) and e.slice.value == 0

    def alpha_sym(e):
        return isinstance(e, ast.Subscript) and is_name(e.value, alpha_name)

    # --- inside the loop: which variable collects the digits, at which end
    emits = []
    for st in body:
        tgt = sym = where_ = None
        if isinstance(st, ast.AugAssign) and isinstance(st.op, ast.Add) and isinstance(st.target, ast.Name):
            tgt, where_ = st.target.id, "end"
            sym = st.value.elts[0] if isinstance(st.value, ast.List) and len(st.value.elts) == 1 else st.value
        elif isinstance(st, ast.Assign) and len(st.targets) == 1 and isinstance(st.targets[0], ast.Name) and isinstance(st.value, ast.BinOp) and isinstance(st.value.op, ast.Add):
            t_ = st.targets[0].id
            l_, r_ = st.value.left, st.value.right
            unl = lambda x: x.elts[0] if isinstance(x, ast.List) and len(x.elts) == 1 else x
            if is_name(l_, t_):
                tgt, where_, sym = t_, "end", unl(r_)
            elif is_name(r_, t_):
                tgt, where_, sym = t_, "start", unl(l_)
        elif isinstance(st, ast.Expr) and isinstance(st.value, ast.Call) and isinstance(st.value.func, ast.Attribute) and isinstance(st.value.func.value, ast.Name):
            c_ = st.value
            if c_.func.attr == "append" and len(c_.args) == 1:
                tgt, where_, sym = c_.func.value.id, "end", c_.args[0]
            elif c_.func.attr == "insert" and len(c_.args) == 2 and const(c_.args[0], int) and c_.args[0].value == 0:
                tgt, where_, sym = c_.func.value.id, "start", c_.args[1]
            elif c_.func.attr == "appendleft" and len(c_.args) == 1:
                tgt, where_, sym = c_.func.value.id, "start", c_.args[0]
        if tgt is not None and sym is not None and any(alpha_sym(x) for x in ast.walk(sym)):
            emits.append((st, tgt, where_, sym))
    raw_seq = None
    if gen_helper is not None:
        ys = [y for y in ast.walk(loop) if isinstance(y, ast.Yield)]
        outside = [y for y in ast.walk(gen_helper) if isinstance(y, (ast.Yield, ast.YieldFrom)) and not any(y is z for z in ast.walk(loop))]
        cx.need(len(ys) == 1 and not outside and ys[0].value is not None, "R20c", gen_helper, "generator helper: exactly one `yield` inside the digit loop expected")
        yv = ys[0].value
        order = "LSD-first"
        if is_name(yv, digit):
            raw_seq = [("R", order)]        # numeric digits; mapped to characters by the caller
            cx.ob("R20c", ys[0], True, "the generator yields the remainders, least significant first")
        else:
            cx.ob("R20c", ys[0], is_digit_sym(yv), f"yields ALPHABET[remainder] ({order})" if is_digit_sym(yv) else f"yielded value `{norm(yv)}` is neither the remainder nor its alphabet character")
            raw_seq = [("D", order)]
        out = None
    else:
        cx.need(len(emits) == 1, "R20c", enc, "encoder: exactly one statement emitting a digit expected")
        st, out, where_, sym = emits[0]
        order = "LSD-first" if where_ == "end" else "MSD-first"
        cx.ob("R20c", st, is_digit_sym(sym), f"emits ALPHABET[remainder] ({order})" if is_digit_sym(sym) else f"emitted symbol `{norm(sym)}` is not the alphabet character of the remainder")
        init = [v for s0, v in assignments(enc, out) if s0 in enc.body and enc.body.index(s0) < enc.body.index(loop)]
        ok = len(init) == 1 and ((isinstance(init[0], ast.Constant) and init[0].value == "") or (isinstance(init[0], ast.List) and not init[0].elts) or
                                 (isinstance(init[0], ast.Call) and call_name(init[0]) in ("list", "str", "deque") and not init[0].args))
        cx.ob("R20c", loop, ok, "the digit collector starts empty" if ok else "the digit collector does not start empty", stmt="collector initialisation")

    class Unknown(Exception):
        pass
    env = {out: [("D", order)]} if out is not None else {}

    def digits_len(e, at):
        """is `e` (evaluated at `at`) the number of digits emitted?  len(<sequence consisting of the digits only>)"""
        x = e
        if isinstance(x, ast.Call) and call_name(x) == "len" and len(x.args) == 1:
            v = ev(x.args[0], at)
            return v == [("D", "LSD-first")] or v == [("D", "MSD-first")]
        return False

    def count_ok(cnt, at):
        from sa.guards import expand_at
        c = expand_at(cnt, at)
        return isinstance(c, ast.BinOp) and isinstance(c.op, ast.Sub) and is_name(c.left, len_name) and digits_len(c.right, at)

    def ev(e, at):
        if gen_helper is not None and isinstance(e, ast.Call) and isinstance(e.func, ast.Name) and e.func.id == gen_helper.name:
            return list(raw_seq)
        if isinstance(e, (ast.GeneratorExp, ast.ListComp)) and len(e.generators) == 1 and not e.generators[0].ifs and isinstance(e.generators[0].target, ast.Name):
            src_ = ev(e.generators[0].iter, at)
            v_ = e.generators[0].target.id
            if src_ in ([("R", "LSD-first")], [("R", "MSD-first")]) and isinstance(e.elt, ast.Subscript) and is_name(e.elt.value, alpha_name) and is_name(e.elt.slice, v_):
                return [("D", src_[0][1])]
            if norm(e.elt) == v_:
                return src_
            raise Unknown(norm(e)[:60])
        if isinstance(e, ast.Name):
            if e.id in env:
                return env[e.id]
            from sa.guards import reaching_def
            r = reaching_def(e.id, at, calls=True)
            if r is not None:
                return ev(r[0], r[1])
            raise Unknown(f"value of {e.id}")
        if isinstance(e, ast.Constant) and e.value == "":
            return []
        if isinstance(e, ast.Call) and call_name(e) == "join" and isinstance(e.func, ast.Attribute) and const(e.func.value, str) and e.func.value.value == "" and len(e.args) == 1:
            return ev(e.args[0], at)
        if isinstance(e, ast.Call) and isinstance(e.func, ast.Name) and e.func.id in ("list", "str", "tuple") and len(e.args) == 1:
            return ev(e.args[0], at)
        if isinstance(e, ast.Call) and isinstance(e.func, ast.Name) and e.func.id == "reversed" and len(e.args) == 1:
            return rev(ev(e.args[0], at))
        if isinstance(e, ast.Subscript) and isinstance(e.slice, ast.Slice) and e.slice.lower is None and e.slice.upper is None and e.slice.step is not None \
                and norm(e.slice.step) == "-1":
            return rev(ev(e.value, at))
        if isinstance(e, ast.BinOp) and isinstance(e.op, ast.Add):
            return ev(e.left, at) + ev(e.right, at)
        if isinstance(e, ast.BinOp) and isinstance(e.op, ast.Mult):
            symb, cnt = (e.left, e.right) if alpha_sym(e.left) or isinstance(e.left, ast.List) else (e.right, e.left)
            if isinstance(symb, ast.List) and len(symb.elts) == 1:
                symb = symb.elts[0]
            if alpha_sym(symb):
                return [("P", is_zero_sym(symb), count_ok(cnt, at), norm(e))]
            raise Unknown(norm(e))
        if isinstance(e, ast.Call) and isinstance(e.func, ast.Attribute) and e.func.attr in ("ljust", "rjust") and len(e.args) == 2:
            base_v = ev(e.func.value, at)
            padp = ("P", is_zero_sym(e.args[1]), is_name(e.args[0], len_name) and base_v in ([("D", "LSD-first")], [("D", "MSD-first")]), norm(e))
            return base_v + [padp] if e.func.attr == "ljust" else [padp] + base_v
        raise Unknown(norm(e)[:60])

    def rev(v):
        return [((p_[0], "MSD-first" if p_[1] == "LSD-first" else "LSD-first") if p_[0] in ("D", "R") else p_) for p_ in reversed(v)]
    after = enc.body[enc.body.index(loop) + 1:] if gen_helper is None else list(enc.body)
    result = None
    ret_node = None
    try:
        for s2 in after:
            if isinstance(s2, ast.Assign) and len(s2.targets) == 1 and isinstance(s2.targets[0], ast.Name):
                if any(isinstance(x, ast.Name) and (x.id in env) for x in ast.walk(s2.value)) or s2.targets[0].id in env:
                    try:
                        env[s2.targets[0].id] = ev(s2.value, s2)
                    except Unknown:
                        if s2.targets[0].id in env:
                            raise
                        # a helper value (e.g. the padding count) - looked at where it is used
            elif isinstance(s2, ast.AugAssign) and isinstance(s2.op, ast.Add) and isinstance(s2.target, ast.Name) and s2.target.id in env:
                env[s2.target.id] = env[s2.target.id] + ev(s2.value, s2)
            elif isinstance(s2, ast.Expr) and isinstance(s2.value, ast.Call) and isinstance(s2.value.func, ast.Attribute) and is_name(s2.value.func.value) \
                    and s2.value.func.value.id in env and s2.value.func.attr in ("extend", "reverse"):
                nm_ = s2.value.func.value.id
                env[nm_] = rev(env[nm_]) if s2.value.func.attr == "reverse" else env[nm_] + ev(s2.value.args[0], s2)
            elif isinstance(s2, ast.Return):
                cx.need(s2.value is not None, "R20c", s2, "encoder returns nothing")
                result, ret_node = ev(s2.value, s2), s2
                break
            elif isinstance(s2, (ast.Expr, ast.Pass)) and not any(isinstance(x, ast.Name) and x.id in env for x in ast.walk(s2)):
                continue
            else:
                raise Unknown(norm(s2)[:60])
    except Unknown as e:
        raise AnalysisError("R20c", f"{REL}::{enc.name}", f"encoder: how the digit string is finished is not recognised ({e})")
    cx.need(result is not None, "R20c", enc, "encoder: no return after the digit loop")
    ds = [p_ for p_ in result if p_[0] == "D"]
    ps_ = [p_ for p_ in result if p_[0] == "P"]
    ok = len(ds) == 1
    cx.ob("R20c", ret_node, ok, "returns the digit string" if ok else "returned value does not contain the digits exactly once", stmt="returned digits")
    if not ok:
        return None
    order = ds[0][1]
    if not ps_:
        cx.ob("R20c", enc, False, "no padding with the zero digit: encodings of small numbers are shorter than the fixed length", stmt="padding")
        return order
    cx.need(len(ps_) == 1, "R20c", ret_node, "more than one padding run")
    pz = ps_[0]
    cx.ob("R20c", ret_node, pz[1], "padding symbol is the zero digit ALPHABET[0]" if pz[1] else "padding symbol is not the zero digit", stmt="padding [symbol]")
    cx.ob("R20c", ret_node, pz[2], f"padding length is {len_name} - number of digits" if pz[2] else f"padding `{pz[3]}`: its length is not {len_name} - len(digits): result is not exactly {len_name} characters",
          stmt="padding [count]")
    side = "end" if result.index(pz) > result.index(ds[0]) else "start"
    want = "end" if order == "LSD-first" else "start"
    cx.ob("R20c", ret_node, side == want, f"padding goes to the most-significant end ({side})" if side == want else
          f"padding is added at the {side} but the most-significant end is the {want}: value changes", stmt="padding [side]")
    return order


def _decoder(cx, dec, mod, alpha_name, index_name):
    s = params(dec)[0]
    loops = [n for n in dec.body if isinstance(n, ast.For)]
    cx.need(len(loops) == 1, "R20c", dec, "decoder: expected one for loop over the characters")
    loop = loops[0]
    it = loop.iter
    rev = None
    enum = False
    if isinstance(it, ast.Call) and call_name(it) == "enumerate" and len(it.args) == 1:
        enum = True
        it = it.args[0]
    if is_name(it, s):
        rev = False
    elif isinstance(it, ast.Subscript) and is_name(it.value, s) and isinstance(it.slice, ast.Slice) and it.slice.lower is None and it.slice.upper is None \
            and it.slice.step is not None and norm(it.slice.step) == "-1":
        rev = True
    elif isinstance(it, ast.Call) and call_name(it) == "reversed" and len(it.args) == 1 and is_name(it.args[0], s):
        rev = True
    cx.need(rev is not None, "R20c", dec, f"decoder: iteration `{norm(loop.iter)}` not recognised (whole string, forward or reversed)")
    body = [st for st in loop.body if not isinstance(st, (ast.Expr, ast.Pass))]
    # temporaries (`digit = IDX[c]`) before the accumulating statement are read through their reaching definitions
    pre_ok = all(isinstance(b_, ast.Assign) and len(b_.targets) == 1 and isinstance(b_.targets[0], ast.Name) for b_ in body[:-1])
    cx.need(body and pre_ok and isinstance(body[-1], (ast.Assign, ast.AugAssign)), "R20c", dec, "decoder: accumulating statement (after plain temporaries) expected")
    st0 = body[-1]
    from sa.guards import expand_at as _xa
    import copy as _copy
    st = _copy.copy(st0)
    st.value = _xa(st0.value, st0, calls=True)
    for a_ in ("_parent", "_mod", "_qual"):
        if hasattr(st0, a_):
            setattr(st, a_, getattr(st0, a_))
    if enum:
        # acc += IDX[c] * B ** i
        cx.need(isinstance(loop.target, ast.Tuple) and len(loop.target.elts) == 2, "R20c", dec, "enumerate target")
        i_name, c_name = loop.target.elts[0].id, loop.target.elts[1].id
        ok = isinstance(st, ast.AugAssign) and isinstance(st.op, ast.Add) and isinstance(st.value, ast.BinOp) and isinstance(st.value.op, ast.Mult)
        if ok:
            a, b = st.value.left, st.value.right
            if isinstance(b, ast.Subscript):
                a, b = b, a
            ok = isinstance(a, ast.Subscript) and is_name(a.value, index_name) and is_name(a.slice, c_name) and isinstance(b, ast.BinOp) and \
                isinstance(b.op, ast.Pow) and _resolve_base(b.left, dec, mod, alpha_name) and is_name(b.right, i_name)
        cx.ob("R20c", st, ok, "power-sum decoding acc += IDX[c] * B**i" if ok else "decoder accumulation is not a radix evaluation")
        order = "MSD-first" if rev else "LSD-first"
    else:
        cx.need(isinstance(loop.target, ast.Name), "R20c", dec, "loop target")
        c_name = loop.target.id
        ok = False
        if isinstance(st, ast.Assign) and len(st.targets) == 1 and isinstance(st.targets[0], ast.Name) and isinstance(st.value, ast.BinOp) and isinstance(st.value.op, ast.Add):
            acc = st.targets[0].id
            mul, dig = st.value.left, st.value.right
            if not isinstance(mul, ast.BinOp):
                mul, dig = dig, mul
            is_dig = (isinstance(dig, ast.Subscript) and is_name(dig.value, index_name) and is_name(dig.slice, c_name)) or \
                     (isinstance(dig, ast.Call) and isinstance(dig.func, ast.Attribute) and dig.func.attr == "get" and is_name(dig.func.value, index_name))
            is_mul = isinstance(mul, ast.BinOp) and isinstance(mul.op, ast.Mult) and (
                (is_name(mul.left, acc) and _resolve_base(mul.right, dec, mod, alpha_name)) or
                (is_name(mul.right, acc) and _resolve_base(mul.left, dec, mod, alpha_name)))
            ok = is_dig and is_mul
            # accumulator starts at 0
            inits = [v for s0, v in assignments(dec, acc) if s0 is not st0]
            ok0 = len(inits) == 1 and const(inits[0], int) and inits[0].value == 0
            cx.ob("R20c", st, ok0, "accumulator starts at 0" if ok0 else "accumulator does not start at 0", stmt=norm(st) + " [init]")
            rets = [r for r in walk_local(dec) if isinstance(r, ast.Return)]
            okr = bool(rets) and all(is_name(r.value, acc) for r in rets)
            cx.ob("R20c", rets[0] if rets else dec, okr, "returns the accumulated number" if okr else "returns something else than the accumulated number")
        cx.ob("R20c", st, ok, "Horner step acc = acc * B + IDX[c] with B = size of the alphabet" if ok else "decoder step is not acc*B + IDX[c] over the alphabet size / index map")
        order = "LSD-first" if rev else "MSD-first"
    return order


def _variable_groups(cx, enc):
    """The number is converted in several groups.  A `while x: x, d = divmod(x, B)` (or %, //) loop emits as many digits as
    x happens to have; if further digits can be emitted after it without the output being padded to a fixed length first,
    the position of those digits depends on the value of the earlier group: the string is not positional (decoder reads a
    different number).  Only this definite case is refuted; any other multi-group form stays undecided."""
    def is_digit_loop(w):
        if not isinstance(w, ast.While):
            return False
        t = w.test
        v = t.id if isinstance(t, ast.Name) else (t.left.id if isinstance(t, ast.Compare) and isinstance(t.left, ast.Name) else None)
        if v is None:
            return False
        shrinks = any((isinstance(st, ast.Assign) and isinstance(st.value, ast.Call) and call_name(st.value) == "divmod" and any(is_name(e, v) for e in ast.walk(st.targets[0])))
                      or (isinstance(st, ast.AugAssign) and is_name(st.target, v) and isinstance(st.op, ast.FloorDiv)) for st in w.body)
        emits = any(isinstance(st, ast.AugAssign) and isinstance(st.op, ast.Add) and isinstance(st.value, ast.Subscript) for st in w.body) \
            or any(isinstance(c, ast.Call) and call_name(c) == "append" for st in w.body for c in ast.walk(st))
        return shrinks and emits

    def pads(st):
        # out += X * (...), out = out.ljust(..) / rjust / zfill, out += pad-string of computed length
        if isinstance(st, ast.AugAssign) and isinstance(st.value, ast.BinOp) and isinstance(st.value.op, ast.Mult):
            return True
        return any(isinstance(c, ast.Call) and call_name(c) in ("ljust", "rjust", "zfill", "center", "extend") for c in ast.walk(st))

    dl = [w for w in ast.walk(enc) if is_digit_loop(w)]
    for w in dl:
        blk = parent(w)
        body = blk.body if w in getattr(blk, "body", []) else (blk.orelse if w in getattr(blk, "orelse", []) else None)
        if body is None:
            continue
        after = body[body.index(w) + 1:]
        padded_here = any(pads(st) for st in after)
        multi_iter = isinstance(blk, (ast.For, ast.While)) and not (isinstance(blk, ast.For) and isinstance(blk.iter, (ast.Tuple, ast.List)) and len(blk.iter.elts) < 2)
        later_loop = any(x is not w and x.lineno > w.lineno and not any(a is w for a in ancestors(x)) for x in dl)
        if (multi_iter or later_loop) and not padded_here:
            cx.ob("R20c", w, False, "this loop emits as many digits as its group happens to have, and more digits are emitted afterwards "
                  "without padding the group to a fixed length: later digits land at value-dependent positions (the string decodes to another number)")


def _translate_decoder(cx, dec, from_short, mod, alpha_name):
    """A decoder that maps characters to digit values with (bytes|str).translate: translate leaves every character that is
    not a key of the table UNCHANGED, so a character outside the alphabet comes out as its own code.  If the only rejection
    is a comparison of the value with the base, every foreign character whose code is below the base is accepted as a digit.
    Only this definite case is refuted (no membership / pattern test on the characters anywhere on the way); otherwise the
    decoder stays undecided."""
    trs = [c for c in walk_local(dec) if isinstance(c, ast.Call) and isinstance(c.func, ast.Attribute) and c.func.attr == "translate" and len(c.args) == 1
           and isinstance(c.args[0], ast.Name) and c.args[0].id in mod.globals]
    if not trs:
        return
    tbl = mod.globals[trs[0].args[0].id]
    if not (isinstance(tbl, ast.Call) and isinstance(tbl.func, ast.Attribute) and tbl.func.attr == "maketrans" and alpha_name in names_in(tbl)):
        return
    try:
        alpha = [c for c in literal(mod.globals[alpha_name], mod)]
    except Exception:
        return
    base = len(alpha)
    # any test that looks at the characters themselves?
    for f in (dec, from_short):
        for n in walk_local(f):
            if isinstance(n, ast.Compare) and any(isinstance(o, (ast.In, ast.NotIn)) for o in n.ops) and (alpha_name in names_in(n) or any(g in names_in(n) for g in mod.globals if g != alpha_name and alpha_name in names_in(mod.globals[g]))):
                return
            if isinstance(n, ast.Call) and call_name(n) in ("issubset", "issuperset", "match", "fullmatch", "isalnum", "difference", "strip"):
                return
    guards = [n for n in walk_local(dec) if isinstance(n, ast.Compare) and len(n.ops) == 1 and isinstance(n.ops[0], (ast.GtE, ast.Gt, ast.Lt, ast.LtE))]
    foreign = [c for c in range(128) if chr(c) not in alpha and c < base]
    if foreign:
        shown = ", ".join(repr(chr(c)) for c in foreign if 32 <= c < 127)[:80]
        cx.ob("R20c", trs[0], False, f"translate() leaves characters outside the alphabet unchanged; the only rejection is {('`' + norm(guards[0]) + '`') if guards else 'none'}, "
              f"so {len(foreign)} foreign ASCII characters with a code below {base} (e.g. {shown}) are taken as digits instead of raising ValueError")
