"""C07 — component builds: repositories are analysed components first; cycles are rejected (second sentence only)."""
import ast

from sa.core import (AnalysisError, FUNC, assignments, call_name, class_attr, const, dotted, enclosing, enclosing_func,
                     enclosing_stmt, is_attr, is_name, is_self_attr, literal, norm, params, parent, walk_local, names_in, ancestors)
from sa.guards import facts, enclosing_loops

PROP = "C07"
REL = "ak/ghist.py"
EXPLANATION = (
    "Only the second sentence of the property (repositories are analysed components first whatever order they were supplied "
    "in; cyclic dependencies raise ValueError) is decided; which parent build first ships a component build depends on the "
    "interleaving of pins, tags and branch points over arbitrary histories and is NOT decided. R07a: every sequence that feeds "
    "the order of sorted_repos is a sorted(...) value (no iteration over raw dict / set order reaches it). R07b: a repository is "
    "appended to sorted_repos only under 'no sub-component that is part of the collection is still unprocessed' (the sorted "
    "comprehension filtered on membership in self.repos and absence from done_repos being empty), and appended / marked done "
    "together, once. R07c: the only raise in the constructor is ValueError, reached when a not-yet-processed sub-component is on "
    "the current DFS path. R07d: make_reports_data walks sorted_repos in order, builds each repository with the graphs of its "
    "components taken from the already built ones, and records its own graph afterwards."
)


def run(cx):
    repo = cx.repo
    for r, t in (("R07a", "order of supply is irrelevant: only sorted sequences feed the order"),
                 ("R07b", "components first: append guarded by 'all present sub-components done'; append and mark paired"),
                 ("R07c", "cycles raise ValueError"),
                 ("R07d", "reports are assembled in dependency order from already built component graphs"),
                 ("R07e", "graph searches over builds / commits prune by membership only, never by ordering of allocation ids"),
                 ("R07f", "every build number of a build commit resolves to its report build (what parent repositories look pins up in)"),
                 ("R07g", "a build keeps the component state of EVERY relevant component (the baseline of later builds), unfiltered"),
                 ("R07h", "the walk over the component builds of a bump is pruned at the already shipped builds, never ended by them")):
        cx.rule(r, t)
    init = cx.func(REL, "ReposCollection.__init__", "R07a")
    mrd = cx.func(REL, "ReposCollection.make_reports_data", "R07d")

    # the DFS stack variable: a list to which lists are appended and whose last element is indexed
    pushes = [c for c in walk_local(init) if isinstance(c, ast.Call) and call_name(c) == "append" and isinstance(c.func.value, ast.Name) and norm(c.func.value) == "dfs_stack"]
    cx.at_least("R07a", "DFS pushes", len(pushes), 2)
    for c in pushes:
        a = c.args[0]
        d = [v for _, v in assignments(init, a.id) if v is not None] if isinstance(a, ast.Name) else [a]
        ok = bool(d) and all(isinstance(v, ast.Call) and call_name(v) == "sorted" and not any(k.arg == "reverse" for k in v.keywords) for v in d)
        cx.ob("R07a", c, ok, f"the pushed candidate list `{norm(a)}` is a sorted(...) sequence" if ok else
              f"the DFS candidate list `{norm(a)}` is not sorted: the resulting order depends on the order repositories / components were supplied in")
    # sorted_repos gets elements only from the DFS stack lists
    apps = [c for c in walk_local(init) if isinstance(c, ast.Call) and call_name(c) == "append" and norm(c.func.value) == "self.sorted_repos"]
    cx.need(len(apps) == 1, "R07b", init, "one append to sorted_repos expected")
    ap = apps[0]
    cur = norm(ap.args[0])
    d = [v for _, v in assignments(init, cur) if v is not None]
    ok = len(d) == 1 and norm(d[0]) == "dfs_stack[-1][cur_sp]"
    cx.ob("R07a", ap, ok, "the appended repository is the current DFS candidate" if ok else "the repository appended to sorted_repos does not come from the sorted DFS candidates")
    # no iteration over self.repos / dict order feeds sorted_repos directly
    for l in [x for x in walk_local(init) if isinstance(x, ast.For)]:
        if any(c is ap for c in ast.walk(l)):
            cx.ob("R07a", l, False, f"sorted_repos is filled inside `for {norm(l.target)} in {norm(l.iter)}` (raw iteration order)")
    # ------------------------------------------------------------------ R07b
    fs = facts(ap)
    guard = [e for e, pol in fs if not pol and isinstance(e, ast.Name)]
    ok = False
    gname = None
    for e in guard:
        dd = [v for _, v in assignments(init, e.id) if v is not None]
        if len(dd) == 1 and isinstance(dd[0], ast.Call) and call_name(dd[0]) == "sorted" and isinstance(dd[0].args[0], ast.GeneratorExp):
            g = dd[0].args[0]
            conds = " and ".join(norm(i) for i in g.generators[0].ifs)
            v = norm(g.generators[0].target)
            from sa.guards import split as _split
            conj = sorted(norm(e) if pol else "not " + norm(e) for i in g.generators[0].ifs for e, pol in _split(i, True))
            ok = norm(g.elt) == v and conj == sorted([f"{v} in self.repos", f"{v} not in done_repos"]) and norm(g.generators[0].iter).endswith("._COMPONENTS_VERSIONS_LOCATIONS") \
                and norm(g.generators[0].iter).split(".")[0] == "cur_repo"
            extra = [c for c in conj if c not in (f"{v} in self.repos", f"{v} not in done_repos")]
            gname = e.id
    cx.ob("R07b", ap, ok, f"appended only when no present sub-component is unprocessed (`not {gname}`)" if ok else
          "a repository can be appended to sorted_repos while one of its components (present in the collection) is still unprocessed"
          " (the pending-components filter must be exactly `in self.repos and not in done_repos`; any further exclusion treats an unfinished component as finished)")
    cr = [v for _, v in assignments(init, "cur_repo") if v is not None]
    ok = len(cr) == 1 and norm(cr[0]) == f"self.repos[{cur}]"
    cx.ob("R07b", ap, ok, "the components examined are those of the repository being placed" if ok else "components are read from another repository", stmt=norm(enclosing_stmt(ap)) + " [same repo]")
    blk = parent(enclosing_stmt(ap))
    body = blk.body if hasattr(blk, "body") else []
    marks = [s for s in body if isinstance(s, ast.Expr) and norm(s.value) == f"done_repos.add({cur})"]
    cx.ob("R07b", ap, len(marks) == 1, "placing and marking done happen together" if len(marks) == 1 else "append to sorted_repos is not paired with done_repos.add of the same repository", stmt=norm(enclosing_stmt(ap)) + " [paired]")
    all_marks = [c for c in walk_local(init) if isinstance(c, ast.Call) and call_name(c) == "add" and norm(c.func.value) == "done_repos"]
    cx.ob("R07b", init, len(all_marks) == 1, "a repository is marked done only when it is placed" if len(all_marks) == 1 else "done_repos is written elsewhere too", stmt="single mark site")
    skip = any(isinstance(e, ast.Compare) and len(e.ops) == 1 and norm(e.left) == cur and norm(e.comparators[0]) == "done_repos" and
               (isinstance(e.ops[0], ast.In) and not pol or isinstance(e.ops[0], ast.NotIn) and pol) for e, pol in fs)
    cx.ob("R07b", init, skip, "a repository already placed is skipped (placed once)" if skip else "repositories already placed are not skipped", stmt="placed once")
    fin = [a for a in init.body if isinstance(a, ast.Assert) and norm(a.test) == "len(self.sorted_repos) == len(self.repos)"]
    cx.ob("R07b", fin[0] if fin else init, bool(fin), "every repository of the collection is placed" if fin else "completeness assertion removed")
    # ------------------------------------------------------------------ R07c
    raises = [r for r in walk_local(init) if isinstance(r, ast.Raise)]
    cx.need(raises, "R07c", init, "no raise in the constructor")
    for r in raises:
        ok = r.exc is not None and call_name(r.exc) == "ValueError"
        cx.ob("R07c", r, ok, "raises ValueError" if ok else f"raises {norm(r.exc)[:40] if r.exc else 'bare'}")
    r0 = raises[0]
    gn = [e for e, pol in facts(r0) if pol and isinstance(e, ast.Name)]
    ok = False
    for e in gn:
        dd = [v for _, v in assignments(init, e.id) if v is not None]
        if len(dd) == 1 and isinstance(dd[0], ast.ListComp):
            g = dd[0].generators[0]
            ok = norm(g.iter) == (gname or "not_processed_sub_components") and [norm(i) for i in g.ifs] == [f"{norm(g.target)} in dfs_path_names"]
    cx.ob("R07c", r0, ok, "raised exactly when an unprocessed sub-component is already on the current DFS path" if ok else "cycle condition altered")
    # path bookkeeping: names pushed / popped with the stack
    ok = any(c for c in walk_local(init) if isinstance(c, ast.Call) and call_name(c) == "append" and norm(c.func.value) == "dfs_path_names" and (gname or "") in norm(c.args[0])) and \
        any(c for c in walk_local(init) if isinstance(c, ast.Call) and call_name(c) == "pop" and norm(c.func.value) == "dfs_path_names")
    cx.ob("R07c", init, ok, "the DFS path names are pushed and popped with the stack" if ok else "DFS path bookkeeping altered", stmt="path bookkeeping")
    # the cycle test precedes the descent
    desc = [c for c in pushes if (gname or "x") in norm(c.args[0])]
    ok = bool(desc) and desc[0].lineno > r0.lineno
    cx.ob("R07c", desc[0] if desc else init, ok, "the descent happens only after the cycle test" if ok else "descent precedes the cycle test")
    # ------------------------------------------------------------------ R07d
    loops = [l for l in mrd.body if isinstance(l, ast.For)]
    ok = len(loops) == 1 and norm(loops[0].iter) == "self.sorted_repos"
    cx.ob("R07d", loops[0] if loops else mrd, ok, "repositories are processed in dependency order" if ok else "make_reports_data does not iterate self.sorted_repos")
    if loops:
        l = loops[0]
        rid = norm(l.target)
        comp = [v for _, v in assignments(mrd, "components") if v is not None]
        ok = len(comp) == 1 and isinstance(comp[0], ast.DictComp) and norm(comp[0].generators[0].iter) == "rgraph_by_name.items()" and \
            any("_COMPONENTS_VERSIONS_LOCATIONS" in norm(i) for i in comp[0].generators[0].ifs)
        cx.ob("R07d", comp[0] if comp else l, ok, "a repository receives the already built graphs of exactly its components" if ok else "component graphs handed to a repository altered")
        build = [c for c in ast.walk(l) if isinstance(c, ast.Call) and call_name(c) == "build_report_rgraph"]
        store = [s for s in l.body if isinstance(s, ast.Assign) and norm(s.targets[0]) == f"rgraph_by_name[{rid}]"]
        ok = len(build) == 1 and len(store) == 1 and build[0].lineno < store[0].lineno and norm(build[0].args[1]) == "components" and norm(store[0].value) == norm(enclosing_stmt(build[0]).targets[0])
        cx.ob("R07d", store[0] if store else l, ok, "its own graph becomes available to later repositories only after it is built" if ok else "graph registration order altered")
        r = [v for _, v in assignments(mrd, "repo") if v is not None]
        ok = len(r) == 1 and norm(r[0]) == f"self.repos[{rid}]"
        cx.ob("R07d", l, ok, "each id is resolved to its own repository" if ok else "repository lookup altered", stmt="lookup")
    # ------------------------------------------------------------------ R07e
    cx.guard(_r07e, cx, repo)
    cx.guard(_r07f, cx, repo)
    cx.guard(_r07g, cx, repo)
    cx.guard(_r07h, cx, repo)
    cx.rule("R07i", "a parent-build map that is an entry of the per-branch cache is never changed in place")
    cx.guard(_r07i, cx, repo)
    cx.rule("R07j", "the component builds registered at a parent build come from that build's own bump (both ends), not from a narrower memo")
    cx.guard(_r07j, cx, repo)


CONTROL = """
def walk(self):
    stack = [[self.to]]
    latest = max(self.frm, default=-1)
    while stack:
        cur = stack[-1].pop()
        if cur.iid <= latest:
            continue
        stack.append(list(cur.parents))
"""


def _id_order_prunes(tree):
    """Ordering comparisons involving `.iid` inside a while-loop (graph search)."""
    out = []
    for w in [n for n in ast.walk(tree) if isinstance(n, ast.While)]:
        for c in ast.walk(w):
            if isinstance(c, ast.Compare) and any(isinstance(o, (ast.Lt, ast.LtE, ast.Gt, ast.GtE)) for o in c.ops):
                sides = [c.left] + list(c.comparators)
                if any(isinstance(x, ast.Attribute) and x.attr == "iid" for s_ in sides for x in ast.walk(s_)):
                    out.append(c)
    return out


def _r07e(cx, repo):
    ctl = ast.parse(CONTROL)
    cx.need(len(_id_order_prunes(ctl)) == 1, "R07e", "positive-control", "the id-ordering matcher does not find the control instance")
    m = repo.mod(REL, "R07e")
    n_loops = sum(1 for n in ast.walk(m.tree) if isinstance(n, ast.While))
    cx.at_least("R07e", "search loops in ghist", n_loops, 4)
    hits = _id_order_prunes(m.tree)
    for c in hits:
        cx.ob("R07e", c, False, f"`{norm(c)}` orders builds / commits by their allocation id inside a graph search: ids grow with discovery order, not with ancestry, "
              f"so on a merged history builds of a side line are pruned (a component build is then not recorded at the parent build that ships it)")
    cx.ob("R07e", REL, True, f"{n_loops} search loops scanned, {len(hits)} ordering comparisons on ids", construct=f"{REL}::graph searches", stmt="scan")


def _r07f(cx, repo):
    """Parent repositories resolve a pinned component version through the component graph's build-number map.  A pin may
    name ANY of the numbers a build commit carries, so (structural necessary condition of the first sentence): the branch
    reader files the build under every element of the numbers list the detector returned, keyed by that element; the graph
    constructor copies every entry of the branch map; the pin look-up uses the same key form."""
    rb = [f for m, q, f in repo.functions({REL}) if f.name == "_read_branch"]
    cx.need(len(rb) == 1, "R07f", f"{REL}::_read_branch", "branch reader")
    rb = rb[0]
    # private helpers expanded in place (the filing may have been moved into one)
    from sa.inline import inlined
    rb, _used_f = inlined(repo.modules[REL], rb, exclude=("_mk_rcommits",))
    if _used_f:
        cx.note(f"R07f: _read_branch analysed with {_used_f} expanded in place")
    # the list of numbers: second..third element of what _mk_rcommits returns, bound in the reader
    binds = [st for st in walk_local(rb) if isinstance(st, ast.Assign) and isinstance(st.value, ast.Call) and call_name(st.value) == "_mk_rcommits" and isinstance(st.targets[0], ast.Tuple)]
    cx.need(len(binds) == 1 and len(binds[0].targets[0].elts) == 4, "R07f", rb, "result of _mk_rcommits")
    nums = norm(binds[0].targets[0].elts[2])
    built = norm(binds[0].targets[0].elts[1])
    stores = [n for n in walk_local(rb) if isinstance(n, ast.Assign) and isinstance(n.targets[0], ast.Subscript) and is_name(n.targets[0].value, "bn_map")]
    # what a store files: its value - or, when the value is the variable of a loop over `A if c else B`, one alternative per arm
    # (`for b in (parents if new is None else (new,)): .. bn_map[..] = b` files the same two things as two stores do)
    from sa.guards import expand_at

    def filed_values(st):
        v = st.value
        if isinstance(v, ast.Name):
            for l in enclosing_loops(st):
                if isinstance(l, ast.For) and is_name(l.target, v.id):
                    it = expand_at(l.iter, l)
                    arms = [it.body, it.orelse] if isinstance(it, ast.IfExp) else [it]
                    return [norm(a.elts[0]) if isinstance(a, (ast.Tuple, ast.List)) and len(a.elts) == 1 else "each of " + norm(a) for a in arms]
        return [norm(v)]
    cx.at_least("R07f", "stores into the build-number map", sum(len(filed_values(st)) for st in stores), 2)
    own = 0
    for st in stores:
        loops = enclosing_loops(st)
        lp = next((l for l in loops if isinstance(l, ast.For) and norm(l.iter) == nums), None)
        key = st.targets[0].slice
        ok = lp is not None and isinstance(lp.target, ast.Name) and norm(key) == f"{lp.target.id}.as_tuple()" \
            and not any(isinstance(x, (ast.Break, ast.Continue)) for x in ast.walk(lp) if enclosing_loops(x) and enclosing_loops(x)[0] is lp)
        if ok:
            fs = [norm(e) for e, pol in facts(lp) if pol] + ["not " + norm(e) for e, pol in facts(lp) if not pol]
            ok = not any(nums in f and ("len(" in f or "[" in f) for f in fs)
        own += built in filed_values(st)
        cx.ob("R07f", st, ok, f"filed under every number of `{nums}`, keyed by that number" if ok else
              f"the build is not filed under every element of `{nums}` (key `{norm(key)}`): a parent pinning another number of the same commit does not find the build, "
              "its pin move goes unreported and the component build is attributed to a later parent build")
    cx.ob("R07f", rb, own >= 1, f"the new report build `{built}` is filed" if own else f"the new report build `{built}` is never filed in the build-number map", stmt="files the new build")
    init = cx.func(REL, "RGraph.__init__", "R07f")
    cp = [l for l in walk_local(init) if isinstance(l, ast.For) and norm(l.iter).endswith("bn_map.items()")]
    ok = len(cp) == 1
    if ok:
        l = cp[0]
        k = norm(l.target.elts[0]) if isinstance(l.target, ast.Tuple) else None
        sts = [n for n in ast.walk(l) if isinstance(n, ast.Assign) and norm(n.targets[0]) == f"self.bn_map[{k}]"]
        ok = len(sts) == 1 and not any(isinstance(x, ast.Break) for x in ast.walk(l))
        if ok:
            # a guard is harmless only if it cannot drop a number: "not filed yet" on the same map and key - as the condition
            # of the store or as an early `continue` (however spelled); nothing else may stand between an entry and its store
            from sa.guards import canon_facts, canon_test
            filed = ("in", k, "self.bn_map", True)
            not_filed = ("in", k, "self.bn_map", False)
            ok = canon_facts(sts[0], stop=l) <= {not_filed}
            for c_ in [x for x in ast.walk(l) if isinstance(x, ast.Continue)]:
                g = parent(c_)
                ok = ok and isinstance(g, ast.If) and parent(g) is l and g.body == [c_] and canon_test(g.test) == {filed}
            blk = sts[0]
            while parent(blk) is not l:
                blk = parent(blk)
                ok = ok and isinstance(blk, ast.If) and sts[0] in blk.body
    cx.ob("R07f", cp[0] if cp else init, ok, "every entry of a branch's map is copied into the graph's map" if ok else "the graph's build-number map does not receive every entry of the branch map")
    look = [c for m, q, f in repo.functions({REL}) for c in walk_local(f) if isinstance(c, ast.Call) and call_name(c) == "get" and norm(c.func.value).endswith("bn_map") ]
    look += [n for m, q, f in repo.functions({REL}) for n in walk_local(f) if isinstance(n, ast.Subscript) and isinstance(n.ctx, ast.Load) and norm(n.value).endswith(".bn_map")]
    cx.at_least("R07f", "pin look-ups", len(look), 1)
    for c in look:
        key = c.args[0] if isinstance(c, ast.Call) else c.slice
        ok = norm(key).endswith(".as_tuple()") or isinstance(key, ast.Name)
        cx.ob("R07f", c, ok, "pins are looked up by the number's tuple form" if ok else f"pin look-up key `{norm(key)}` is not the tuple form the map is keyed by")


def _r07g(cx, repo):
    """The bumps map of a report build is read by the builds that follow it (`parent_rbuild.bumps.get(component)`) as the
    baseline "component version shipped so far".  Structural necessary condition of "at exactly the first parent build ... and
    at no other": the map stored on RBuild is the complete result of _mk_bumps_info - one entry per relevant component, trivial
    ones included - not a filtered copy; otherwise a later pin move is measured from the beginning of the component history
    and component builds already recorded are recorded again."""
    mk = cx.func(REL, "RGraph._mk_rcommits", "R07g")
    bi = cx.func(REL, "RGraph._mk_bumps_info", "R07g")
    rb_init = cx.func(REL, "RBuild.__init__", "R07g")
    ps = params(rb_init)
    cx.need("bumps" in ps, "R07g", rb_init, "RBuild(..., bumps)")
    k = ps.index("bumps") - 1
    ok = any(norm(s_) == "self.bumps = bumps" for s_ in rb_init.body)
    cx.ob("R07g", rb_init, ok, "RBuild stores the map it is given" if ok else "RBuild does not store its bumps argument unchanged")
    sites = [c for c in walk_local(mk) if isinstance(c, ast.Call) and call_name(c) == "RBuild"]
    cx.at_least("R07g", "RBuild construction sites in _mk_rcommits", len(sites), 1)
    for c in sites:
        a = c.args[k] if k < len(c.args) else next((kw.value for kw in c.keywords if kw.arg == "bumps"), None)
        ok = isinstance(a, ast.Name)
        why = "the bumps argument is not a plain variable"
        if ok:
            srcs = [(st, v) for st, v in assignments(mk, a.id) if v is not None and not (isinstance(v, ast.Constant) and v.value is None)]
            bad = [(st, v) for st, v in srcs if not (isinstance(v, ast.Call) and call_name(v) == bi.name)]
            ok = bool(srcs) and not bad
            if bad:
                why = (f"`{a.id}` is re-built by `{norm(bad[0][1])[:70]}` before it is stored on the build: entries are dropped, so a later build of the branch finds no baseline "
                       "for that component and reports the whole component history again")
            elif not srcs:
                why = f"`{a.id}` does not come from {bi.name}"
        cx.ob("R07g", c, ok, f"the build stores the complete map returned by {bi.name}" if ok else why)
    # one entry per relevant component, unconditionally
    stores = [n for n in walk_local(bi) if isinstance(n, ast.Assign) and isinstance(n.targets[0], ast.Subscript) and is_name(n.targets[0].value, "components_bumps")]
    ok = len(stores) == 1
    if ok:
        lp = enclosing_loops(stores[0])
        ok = bool(lp) and parent(stores[0]) is lp[0] and isinstance(lp[0], ast.For)
        if ok:
            conts = [x for x in ast.walk(lp[0]) if isinstance(x, ast.Continue) and enclosing_loops(x) and enclosing_loops(x)[0] is lp[0]]
            ok = all("relevant" in norm(parent(x).test) for x in conts if isinstance(parent(x), ast.If)) and len(conts) <= 1
    cx.ob("R07g", stores[0] if stores else bi, ok, "every relevant component gets an entry (whether or not its pin moved)" if ok else "some relevant components get no entry in the bumps map")
    rets = [r for r in walk_local(bi) if isinstance(r, ast.Return)]
    ok = len(rets) == 1 and norm(rets[0].value) == "components_bumps"
    cx.ob("R07g", rets[0] if rets else bi, ok, "the complete map is returned" if ok else "the returned map is not the one that was filled")


def _r07h(cx, repo):
    """ComponentBump.get_rbuilds_in_bump collects the component builds between the newly pinned build and the builds that
    were shipped before (`from_rbuilds`).  On a merged component history the search has several pending branches: reaching a
    shipped build must prune that branch only.  Structural necessary condition: no exit of a search loop of the function (loop
    condition, break, return inside the loop) depends on membership in the shipped set."""
    f = cx.func(REL, "ComponentBump.get_rbuilds_in_bump", "R07h")
    loops = [l for l in walk_local(f) if isinstance(l, (ast.While, ast.For))]
    cx.need(loops, "R07h", f, "search loop")
    tests = [t for t in walk_local(f) if isinstance(t, ast.Compare) and any(isinstance(x, ast.Attribute) and x.attr == "from_rbuilds" for x in ast.walk(t))]
    cx.need(tests, "R07h", f, "test against the builds shipped before (from_rbuilds)")
    n = 0
    for l in loops:
        if isinstance(l, ast.While):
            n += 1
            bad = [c for c in ast.walk(l.test) if isinstance(c, ast.Attribute) and c.attr == "from_rbuilds"]
            cx.ob("R07h", l, not bad, "the search runs until nothing is pending" if not bad else
                  f"the loop condition `{norm(l.test)[:70]}` ends the whole search at the first already shipped build: builds on the other pending branches of a merged component history "
                  "are never visited (they are recorded at no parent build)", stmt="search loop condition")
        for x in ast.walk(l):
            if isinstance(x, (ast.Break, ast.Return)) and enclosing_loops(x) and (enclosing_loops(x)[0] is l or isinstance(x, ast.Return)):
                fs = [e for e, pol in facts(x, stop=l) if any(isinstance(y, ast.Attribute) and y.attr == "from_rbuilds" for y in ast.walk(e))]
                n += 1
                cx.ob("R07h", x, not fs, "exit of the search does not depend on the shipped builds" if not fs else
                      f"`{norm(x)}` under `{norm(fs[0])[:60]}` ends the search at an already shipped build instead of skipping it", stmt=f"search exit {norm(x)[:30]}")
    cx.counts["R07h:search exits examined"] = n


# ------------------------------------------------------------------------------------------------ R07i
R07I_CONTROL = """
def walk(cache, stack):
    while stack:
        cur = stack.pop()
        acc = None
        for p in cur.parents:
            m = cache[p.iid]
            if acc is None:
                acc = m
            else:
                acc.update(m)
        cache[cur.iid] = acc
"""
_R07I_MUT = {"update", "pop", "popitem", "clear", "setdefault", "__setitem__", "__delitem__", "append", "extend", "add", "discard", "remove"}


def _frozen_mutations(func, cache):
    """Mutation sites of objects that may be values of the dict `cache` (read from it, or already stored into it), by a forward
    may-alias pass over the statements of `func` (branches joined by union, loops iterated to a fixpoint, plain rebinding kills).
    Returns (mutation nodes, number of cache reads seen)."""
    bad, reads = [], [0]

    def is_read(e, fr):
        if isinstance(e, ast.Subscript) and isinstance(e.value, ast.Name) and e.value.id == cache:
            return True
        if isinstance(e, ast.Call) and isinstance(e.func, ast.Attribute) and isinstance(e.func.value, ast.Name) and e.func.value.id == cache and e.func.attr in ("get", "pop", "setdefault"):
            return True
        if isinstance(e, ast.Name) and e.id in fr:
            return True
        if isinstance(e, ast.IfExp):
            return is_read(e.body, fr) or is_read(e.orelse, fr)
        if isinstance(e, ast.BoolOp):
            return any(is_read(v, fr) for v in e.values)
        if isinstance(e, ast.NamedExpr):
            return is_read(e.value, fr)
        return False

    def scan_expr(e, fr, final):
        for n in ast.walk(e):
            if isinstance(n, ast.Subscript) and isinstance(n.value, ast.Name) and n.value.id == cache and isinstance(n.ctx, ast.Load) and final:
                reads[0] += 1
            if isinstance(n, ast.Call) and isinstance(n.func, ast.Attribute) and n.func.attr in _R07I_MUT:
                tgt = n.func.value
                if (isinstance(tgt, ast.Name) and tgt.id in fr) or (is_read(tgt, fr) and not isinstance(tgt, ast.Name)):
                    if final and not any(n is b for b in bad):
                        bad.append(n)

    def run(stmts, fr, final):
        for st in stmts:
            if isinstance(st, (ast.FunctionDef, ast.AsyncFunctionDef, ast.ClassDef)):
                continue
            if isinstance(st, ast.If):
                scan_expr(st.test, fr, final)
                a = run(st.body, set(fr), final)
                b = run(st.orelse, set(fr), final)
                fr = a | b
            elif isinstance(st, (ast.For, ast.AsyncFor, ast.While)):
                hdr = st.iter if not isinstance(st, ast.While) else st.test
                cur = set(fr)
                for _ in range(4):
                    inner = set(cur)
                    if not isinstance(st, ast.While):
                        it = st.iter
                        if isinstance(it, ast.Call) and isinstance(it.func, ast.Attribute) and it.func.attr in ("values", "items") and isinstance(it.func.value, ast.Name) and it.func.value.id == cache:
                            tv = st.target.elts[-1] if isinstance(st.target, ast.Tuple) else st.target
                            if isinstance(tv, ast.Name):
                                inner.add(tv.id)
                        else:
                            for x in ast.walk(st.target):
                                if isinstance(x, ast.Name):
                                    inner.discard(x.id)
                    out = run(st.body, inner, False)
                    nxt = cur | out
                    if nxt == cur:
                        break
                    cur = nxt
                scan_expr(hdr, cur, final)
                inner = set(cur)
                if not isinstance(st, ast.While) and isinstance(st.iter, ast.Call) and isinstance(st.iter.func, ast.Attribute) and st.iter.func.attr in ("values", "items") \
                        and isinstance(st.iter.func.value, ast.Name) and st.iter.func.value.id == cache:
                    tv = st.target.elts[-1] if isinstance(st.target, ast.Tuple) else st.target
                    if isinstance(tv, ast.Name):
                        inner.add(tv.id)
                out = run(st.body, inner, final)
                fr = run(st.orelse, cur | out, final)
            elif isinstance(st, (ast.With, ast.AsyncWith)):
                fr = run(st.body, fr, final)
            elif isinstance(st, ast.Try):
                a = run(st.body, set(fr), final)
                outs = [a] + [run(h.body, set(fr) | a, final) for h in st.handlers]
                j = set().union(*outs)
                j = run(st.orelse, j, final)
                fr = run(st.finalbody, j, final)
            else:
                scan_expr(st, fr, final)
                if isinstance(st, ast.Assign):
                    frozen_val = is_read(st.value, fr)
                    for t in st.targets:
                        if isinstance(t, ast.Name):
                            (fr.add if frozen_val else fr.discard)(t.id)
                        elif isinstance(t, ast.Subscript):
                            if isinstance(t.value, ast.Name) and t.value.id == cache and isinstance(st.value, ast.Name):
                                fr.add(st.value.id)        # stored: from now on the object is shared through the cache
                            elif isinstance(t.value, ast.Name) and t.value.id in fr and final and not any(st is b for b in bad):
                                bad.append(st)
                        elif isinstance(t, (ast.Tuple, ast.List)):
                            for x in ast.walk(t):
                                if isinstance(x, ast.Name):
                                    fr.discard(x.id)
                elif isinstance(st, ast.AugAssign):
                    if isinstance(st.target, ast.Name) and st.target.id in fr and final and not any(st is b for b in bad):
                        bad.append(st)
                    if isinstance(st.target, ast.Subscript) and isinstance(st.target.value, ast.Name) and st.target.value.id in fr and final and not any(st is b for b in bad):
                        bad.append(st)
                elif isinstance(st, ast.Delete):
                    for t in st.targets:
                        if isinstance(t, ast.Subscript) and isinstance(t.value, ast.Name) and t.value.id in fr and final and not any(st is b for b in bad):
                            bad.append(st)
        return fr
    run(func.body, set(), True)
    return bad, reads[0]


def _r07i(cx, repo):
    """`rcommits_bparents` maps every visited non-build commit to the map of its nearest parent builds; the map object of a
    commit is shared with every child that has the same parent builds and is what later builds made from that commit are compared
    against (`ComponentBump.from_rbuilds` derives from it).  Once a map is stored in (or read from) the cache it is frozen:
    changing it in place changes the parent builds of commits already processed, and a component build already shipped by an
    earlier parent build is reported again at a later one (s155).  Decided by a forward may-alias pass over the function."""
    ctl = ast.parse(R07I_CONTROL).body[0]
    cb, cr = _frozen_mutations(ctl, "cache")
    cx.need(len(cb) == 1 and norm(cb[0]).startswith("acc.update") and cr == 1, "R07i", "positive-control", f"control snippet not classified as expected ({[norm(b) for b in cb]}, reads={cr})")
    f = cx.func(REL, "RGraph._find_new_rcommits_in_build", "R07i")
    name = "rcommits_bparents"
    cx.need(name in params(f) or assignments(f, name), "R07i", f, f"the cache of parent-build maps `{name}` is not a parameter / local of the function")
    bad, n_reads = _frozen_mutations(f, name)
    # reads inside nested helper generators count as reads too (they only iterate the cached maps)
    n_reads += sum(1 for g in ast.walk(f) if isinstance(g, (ast.FunctionDef, ast.Lambda)) and g is not f for n in ast.walk(g)
                   if isinstance(n, ast.Subscript) and isinstance(n.value, ast.Name) and n.value.id == name and isinstance(n.ctx, ast.Load))
    cx.at_least("R07i", "reads of cached parent-build maps", n_reads, 1)
    for g in ast.walk(f):
        if isinstance(g, ast.FunctionDef) and g is not f:
            b2, _ = _frozen_mutations(g, name)
            bad += b2
    for b in bad:
        cx.ob("R07i", b, False, semantic=True, detail=f"`{norm(b)[:80]}` changes in place a map that may be (or already is) an entry of `{name}`: the parent builds of commits processed earlier "
              "change with it, later builds made from those commits get wrong predecessor builds, and component builds already shipped are reported again")
    if not bad:
        cx.ob("R07i", f, True, f"no in-place change reaches a map that is an entry of `{name}` ({n_reads} reads followed through aliases, branches and the loop)", stmt="cached maps frozen")


# ------------------------------------------------------------------------------------------------ R07j
def _r07j(cx, repo):
    """RGraph.__init__ records, for every parent build, the component builds its bump ships (`included_at`).  What a bump ships is
    a function of the whole bump - `get_rbuilds_in_bump` reads both ends (`from_rbuilds`, `to_rbuild`).  The registered builds
    must therefore come from the bump of the parent build at hand: either the call itself, or a memo whose key covers every
    attribute the method reads (s171: memo keyed by the target build only - two parent builds reaching the same component build
    from different pins share one answer)."""
    from sa.guards import reaching_def
    init = cx.func(REL, "RGraph.__init__", "R07j")
    meth = cx.func(REL, "ComponentBump.get_rbuilds_in_bump", "R07j")
    read_attrs = sorted({n.attr for n in ast.walk(meth) if isinstance(n, ast.Attribute) and isinstance(n.value, ast.Name) and n.value.id == "self" and isinstance(n.ctx, ast.Load)
                         and not isinstance(parent(n), ast.Call)} - {"get_rbuilds_in_bump"})
    cx.need(len(read_attrs) >= 2, "R07j", meth, f"attributes of the bump read by get_rbuilds_in_bump: {read_attrs}")
    sites = [c for c in walk_local(init) if isinstance(c, ast.Call) and isinstance(c.func, ast.Attribute) and c.func.attr in ("append", "add", "extend")
             and isinstance(c.func.value, ast.Attribute) and c.func.value.attr == "included_at"]
    cx.at_least("R07j", "registrations into included_at", len(sites), 1)

    def strip(e):
        while isinstance(e, ast.Call) and isinstance(e.func, ast.Attribute) and e.func.attr in ("values", "items", "keys") and not e.args:
            e = e.func.value
        while isinstance(e, ast.Call) and call_name(e) in ("list", "tuple", "sorted", "iter", "reversed") and len(e.args) == 1:
            e = strip(e.args[0])
        return e
    for c in sites:
        loops = enclosing_loops(c, stop=init)
        cx.need(bool(loops), "R07j", c, "registration is not inside a loop over the builds of the bump")
        l = loops[0]
        e = strip(l.iter)
        if isinstance(e, ast.Name):
            rd = reaching_def(e.id, l, calls=True, containers=True)
            cx.need(rd is not None, "R07j", l, f"what `{e.id}` stands for is not decided")
            e = strip(rd[0])
        if isinstance(e, ast.Call) and isinstance(e.func, ast.Attribute) and e.func.attr == "get_rbuilds_in_bump":
            recv = e.func.value
            outer = {x.id for ll in loops[1:] for x in ast.walk(ll.target) if isinstance(x, ast.Name)}
            src = recv
            if isinstance(recv, ast.Name):
                rd = reaching_def(recv.id, l, calls=True, containers=True)
                src = rd[0] if rd else recv
            ok = bool(names_in(src) & outer)
            cx.need(ok, "R07j", l, f"the bump `{norm(recv)}` is not taken from the parent build of the current iteration: not decided")
            cx.ob("R07j", l, True, "the builds registered are computed from the bump of the parent build at hand")
            continue
        if isinstance(e, ast.Subscript) or (isinstance(e, ast.Call) and isinstance(e.func, ast.Attribute) and e.func.attr in ("get", "setdefault")):
            cont = e.value if isinstance(e, ast.Subscript) else e.func.value
            key = e.slice if isinstance(e, ast.Subscript) else (e.args[0] if e.args else None)
            fills = [st for st in walk_local(init) if isinstance(st, ast.Assign) and any(isinstance(t, ast.Subscript) and norm(t.value) == norm(cont) for t in st.targets)
                     and any(isinstance(x, ast.Call) and isinstance(x.func, ast.Attribute) and x.func.attr == "get_rbuilds_in_bump" for x in ast.walk(st.value))]
            cx.need(bool(fills) and key is not None and isinstance(cont, ast.Name), "R07j", l, f"`{norm(e)[:60]}`: not a memo of get_rbuilds_in_bump filled in this function: not decided")
            bad = None
            for st in fills:
                t = next(t for t in st.targets if isinstance(t, ast.Subscript))
                k = t.slice
                kk = k
                if isinstance(k, ast.Name):
                    rd = reaching_def(k.id, st, calls=True, containers=True)
                    kk = rd[0] if rd else k
                call = next(x for x in ast.walk(st.value) if isinstance(x, ast.Call) and isinstance(x.func, ast.Attribute) and x.func.attr == "get_rbuilds_in_bump")
                bump = norm(call.func.value)
                whole = any(norm(x) == bump and not isinstance(parent(x), ast.Attribute) for x in ast.walk(kk)) if not isinstance(kk, ast.Name) else norm(kk) == bump
                mentioned = {x.attr for x in ast.walk(kk) if isinstance(x, ast.Attribute) and norm(x.value) == bump}
                missing = [a for a in read_attrs if a not in mentioned]
                if not whole and missing:
                    bad = (st, norm(kk), missing)
            if bad:
                cx.ob("R07j", bad[0], False, semantic=True, detail=f"the builds shipped by a bump are memoised under `{bad[1][:50]}`, which leaves out {bad[2]} - attributes get_rbuilds_in_bump reads: "
                      "two parent builds that reach the same component build from different pins share one answer, so a component build is missing at the first parent build that ships it or recorded at a later one")
            else:
                cx.ob("R07j", l, True, "memo of get_rbuilds_in_bump keyed by everything the method reads")
            continue
        cx.need(False, "R07j", l, f"source of the registered builds `{norm(l.iter)[:60]}` not recognised: not decided")
