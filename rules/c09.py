"""C09 — emitted escape sequences are well-formed, self-contained and strippable."""
import ast

from sa import automata as A
from sa.core import (caching_decorators, AnalysisError, FUNC, assignments, call_name, class_attr, const, dotted, enclosing, enclosing_func,
                     enclosing_stmt, is_attr, is_name, is_self_attr, literal, norm, params, parent, walk_local, names_in)
from sa.guards import facts, always_leaves, _block_of, enclosing_loops
from sa.strshape import Shaper
from sa.poly import linear

PROP = "C09"
REL = "ak/color.py"
EXPLANATION = (
    "String-shape analysis + automata inclusion + finite abstract cases on ak/color.py. R09a: the regular language of "
    "everything _ColorSequences.make can return as prefix/suffix (inter-procedural shape of make and _make_seq_element, "
    "colour table folded from its literal, integers proved non-negative by dominating guards) is included in the language "
    "of the pattern compiled in CHText.strip_colors (parsed with re._parser); additionally no proper prefix of an emitted "
    "sequence and no extension by visible text is matched, so a match is exactly one sequence. R09b: prefix and suffix are "
    "assigned pairwise: non-empty prefix with the reset ESC[0m, empty with empty; bytes variant encodes both. R09c: every "
    "construction site of a chunk passes a prefix/suffix pair from the same object or two empty literals. R09d: every code "
    "append is control-dependent on `not no_color`. R09e: ColorFmt and ColorBytes call the same constructor with the same "
    "arguments, differing only in make_bytes. R09f: colour name digits 0-7 distinct, cube polynomial 16+36r+6g+b with "
    "components bounded 0..5, grey ramp 232+shade, codes range-checked 0..255, fg/bg selector 3/4, effect flags 1,2,4,5,9. "
    "R09g: _make_seq_element returns an element or raises ValueError on every path. Oracle: ECMA-48 SGR / xterm-256 table."
)

SGR_EFFECTS = {"bold": "1", "faint": "2", "underline": "4", "blink": "5", "crossed": "9"}
COLOR_DIGITS = {"BLACK": "0", "RED": "1", "GREEN": "2", "YELLOW": "3", "BLUE": "4", "MAGENTA": "5", "CYAN": "6", "WHITE": "7"}


def run(cx):
    repo = cx.repo
    mod = repo.mod(REL, "R09")
    make = cx.func(REL, "_ColorSequences.make", "R09a")
    elem = cx.func(REL, "_ColorSequences._make_seq_element", "R09a")
    strip = cx.func(REL, "CHText.strip_colors", "R09a")
    cx.rule("R09a", "every sequence the package can emit is matched exactly (whole, not more, not less) by the stripping pattern")
    cx.rule("R09b", "prefix non-empty => suffix is the reset ESC[0m; prefix empty => suffix empty; bytes variant encodes both")
    cx.rule("R09c", "chunk construction sites pass a prefix/suffix pair of one object, or two empty literals")
    cx.rule("R09d", "no_color => no code is appended => both results are empty")
    cx.rule("R09e", "ColorFmt and ColorBytes build their sequences identically (only make_bytes differs)")
    cx.rule("R09f", "numeric mappings follow the SGR / xterm-256 tables")
    cx.rule("R09g", "_make_seq_element returns an element or raises ValueError on every path")
    cx.rule("R09i", "the bytes formatter receives bytes on every path of make()")
    cx.rule("R09h", "validation cannot be bypassed by memoisation: the validating / emitting functions are not cached by argument equality")
    cx.trust("ECMA-48 SGR parameters 1,2,4,5,9,3x,4x,38:5:n,48:5:n and reset 0; xterm 256-colour cube 16+36r+6g+b and grey ramp 232..255")

    # ------------------------------------------------------------------ R09a
    sh = Shaper(repo)
    pre = sh.returns(make, 0)
    suf = sh.returns(make, 1)
    emit = A.alt(pre, suf)
    cx.note(f"emitted language (prefix | suffix): {A.show(emit)[:400]}")
    unknown = [(norm(n)[:60], why) for n, why in sh.unknown]
    if unknown:
        cx.note(f"widened to ANY: {unknown[:6]}")
    # pattern literal(s) compiled in strip_colors
    pats = [c for c in walk_local(strip) if isinstance(c, ast.Call) and dotted(c.func) in ("re.compile", "re.sub") and c.args]
    cx.need(pats, "R09a", strip, "no re.compile / re.sub with a pattern in strip_colors")
    pat_node = None
    for c in pats:
        if dotted(c.func) == "re.compile":
            pat_node = c.args[0]
    if pat_node is None:
        pat_node = pats[0].args[0]
    flags_ok = all(len(c.args) == 1 and not c.keywords for c in pats if dotted(c.func) == "re.compile")
    try:
        pattern = literal(pat_node, mod)
    except ValueError as e:
        raise AnalysisError("R09a", f"{REL}::CHText.strip_colors", f"stripping pattern is not a literal: {e}")
    cx.need(isinstance(pattern, str) and flags_ok, "R09a", strip, "pattern must be a str literal compiled without flags")
    rx = A.from_pattern(pattern)
    cx.note(f"stripping pattern {pattern!r} -> {A.show(rx)}")
    nonempty_emit = emit
    w, n1 = A.find_in_a_not_b(emit, A.alt(rx, ("eps",)))
    cx.count("automaton_product_states", n1)
    _ob = cx.ob

    def lang_ob(rule, node, ok, detail, stmt=None):
        """obligations about the emitted language: a counter-example through a part of the emitter that was widened to
        "any string" proves nothing - the obligation is then undecided, not refuted"""
        if not ok and unknown:
            if not getattr(cx, "errors", None):
                cx.errors = getattr(cx, "errors", None) or []
            if not any(getattr(e_, "rule", "") == "R09a" for e_ in cx.errors):
                cx.errors.append(AnalysisError("R09a", f"{REL}::_ColorSequences.make", f"emitted language not determined (widened at {unknown[:3]}); `{stmt}` not decided"))
            return
        _ob(rule, node, ok, detail, stmt=stmt)
    lang_ob("R09a", pat_node, w is None,
          "L(emitted sequences) ⊆ L(stripping pattern)" if w is None else
          f"the package can emit {w!r} which the stripping pattern {pattern!r} does not match as a whole", stmt="inclusion emit ⊆ strip")
    # exactness: no proper prefix of an emitted sequence is matched; no extension by non-ESC text is matched
    p, n2 = A.find_proper_prefix_in(emit, rx)
    cx.count("automaton_product_states", n2)
    lang_ob("R09a", pat_node, p is None or p == "", "no proper prefix of an emitted sequence is itself a match" if (p is None or p == "") else
          f"the pattern also matches the proper prefix {p!r} of an emitted sequence (a match may stop early)", stmt="prefix-freeness")
    ext = A.cat(_nonempty(emit), A.charset(A.SIGMA - {A.ESC}), A.ANY)
    x, n3 = A.find_common(ext, rx)
    cx.count("automaton_product_states", n3)
    lang_ob("R09a", pat_node, x is None, "a match cannot extend past the end of a sequence into visible text" if x is None else
          f"the pattern can also match {x!r}: visible characters after a sequence would be stripped", stmt="no over-consumption")
    # the pattern must not match the empty string or plain visible text
    e_ok = not A.accepts_empty(rx)
    cx.ob("R09a", pat_node, e_ok, "pattern does not match the empty string" if e_ok else "pattern matches the empty string", stmt="non-empty matches")
    v, _ = A.find_common(A.plus(A.charset(A.SIGMA - {A.ESC})), rx)
    cx.ob("R09a", pat_node, v is None, "pattern matches nothing that lacks an ESC character" if v is None else
          f"pattern matches visible text {v!r}", stmt="only escape sequences")
    # strip_colors must substitute the empty string over the whole text
    subs = [c for c in walk_local(strip) if isinstance(c, ast.Call) and call_name(c) == "sub"]
    cx.need(subs, "R09a", strip, "no sub() call")
    for s in subs:
        args = s.args
        ok = (dotted(s.func) == "re.sub" and len(args) >= 3 and const(args[1], str) and args[1].value == "" and is_name(args[2], params(strip)[-1])) or \
             (isinstance(s.func, ast.Attribute) and dotted(s.func) != "re.sub" and len(args) >= 2 and const(args[0], str) and args[0].value == "" and is_name(args[1], params(strip)[-1]))
        count_limited = len(args) > (3 if dotted(s.func) == "re.sub" else 2) or any(k.arg == "count" for k in s.keywords)
        cx.ob("R09a", s, ok and not count_limited, "all matches are replaced by the empty string" if ok and not count_limited else
              "sub() does not replace every match with '' over the whole argument")
    # the sequence well-formedness oracle: emit ⊆ SGR grammar
    code = A.alt(A.cat(A.charset("34"), A.charset("01234567")), A.cat(A.charset("34"), A.lit("8:5:"), A.NAT), *[A.lit(c) for c in "12459"])
    sgr = A.alt(("eps",), A.cat(A.lit(A.ESC + "["), code, A.star(A.cat(A.lit(";"), code)), A.lit("m")), A.lit(A.ESC + "[0m"))
    w2, n4 = A.find_in_a_not_b(emit, sgr)
    cx.count("automaton_product_states", n4)
    lang_ob("R09a", make, w2 is None, "every emitted sequence is ESC[ code(;code)* m with SGR codes, or the reset" if w2 is None else
          f"make() can produce {w2!r}, which is not a well-formed SGR sequence of this package", stmt="emit ⊆ SGR grammar")

    # ------------------------------------------------------------------ R09h
    for f in (make, elem, cx.func(REL, "ColorFmt.__init__", "R09h"), cx.func(REL, "ColorBytes.__init__", "R09h")):
        cd = caching_decorators(f)
        cx.ob("R09h", f, not cd, "not memoised" if not cd else
              f"`@{norm(cd[0])}` caches results by argument *equality*: after a valid colour (7, (1,2,3)) an equal-comparing invalid one (7.0, True, (1.0,2.0,3.0)) "
              f"hits the cache and is never validated (no ValueError), and outputs acquire a memory", stmt=f"def {f.name}(...) [decorators]")
    # ------------------------------------------------------------------ R09b / R09d in make
    cx.guard(_check_make, cx, make, elem, sh)
    cx.guard(_bytes_on_every_path, cx, make)
    # ------------------------------------------------------------------ R09g / R09f in _make_seq_element
    cx.guard(_check_elem, cx, elem, mod)
    # ------------------------------------------------------------------ R09c chunk construction sites
    cx.guard(_check_chunk_sites, cx, repo)
    # ------------------------------------------------------------------ R09e formatter siblings
    cx.guard(_check_formatters, cx, repo, make)
    # ------------------------------------------------------------------ rendering order
    cx.guard(_check_str, cx, repo)


def _nonempty(r):
    # L(r) minus the empty word, approximated as r·(eps) where r cannot be eps: build alt of non-eps alternatives
    if r[0] == "alt":
        alts = [x for x in r[1] if x != ("eps",)]
        return A.alt(*alts)
    return r


def _pairing_by_abstract_run(make, P, S, codes):
    """-> set of (prefix kind, suffix kind, code list empty?) at the returns, kinds 'E' (empty string) / 'N' (non-empty); None when a
    statement touches one of the three variables in a way that is not modelled.  States: (codes_empty, p, s); tests on the code
    list refine, every other test goes both ways."""
    class Und(Exception):
        pass

    def kind(v, st):
        if isinstance(v, ast.Constant) and isinstance(v.value, (str, bytes)):
            return "E" if len(v.value) == 0 else "N"
        if isinstance(v, ast.BinOp) and isinstance(v.op, ast.Add):
            ks = [kind(v.left, st), kind(v.right, st)]
            return "N" if "N" in ks else "E"
        if isinstance(v, ast.Call) and isinstance(v.func, ast.Attribute) and v.func.attr == "join":
            return "E"          # at least: may be empty; with a constant neighbour the sum is 'N' anyway
        if isinstance(v, ast.Call) and isinstance(v.func, ast.Attribute) and v.func.attr in ("encode", "decode") and isinstance(v.func.value, ast.Name) and v.func.value.id in (P, S):
            return st[1] if v.func.value.id == P else st[2]
        if isinstance(v, ast.Name) and v.id in (P, S):
            return st[1] if v.id == P else st[2]
        if isinstance(v, ast.JoinedStr):
            return "N" if any(isinstance(x, ast.Constant) and x.value for x in v.values) else "E"
        raise Und()

    def test(t, st):
        """[(truth, refined state)]"""
        neg = False
        while isinstance(t, ast.UnaryOp) and isinstance(t.op, ast.Not):
            t, neg = t.operand, not neg
        if is_name(t, codes):
            outs = []
            if st[0] in (False, None):
                outs.append((True, (False, st[1], st[2])))
            if st[0] in (True, None):
                outs.append((False, (True, st[1], st[2])))
            return [(tv != neg, s_) for tv, s_ in outs]
        if is_name(t, P) or is_name(t, S):
            k = st[1] if is_name(t, P) else st[2]
            return [((k == "N") != neg, st)]
        return [(True, st), (False, st)]

    def run(stmts, states):
        """-> (fall-through states, returned states)"""
        rets = set()
        for s_ in stmts:
            nxt = set()
            for st in states:
                if isinstance(s_, ast.Assign) and len(s_.targets) == 1:
                    t = s_.targets[0]
                    names = [x.id for x in ast.walk(t) if isinstance(x, ast.Name)]
                    if is_name(t, P):
                        nxt.add((st[0], kind(s_.value, st), st[2]))
                    elif is_name(t, S):
                        nxt.add((st[0], st[1], kind(s_.value, st)))
                    elif is_name(t, codes):
                        if isinstance(s_.value, ast.List):
                            nxt.add((not s_.value.elts, st[1], st[2]))
                        else:
                            raise Und()
                    elif isinstance(t, ast.Tuple) and isinstance(s_.value, ast.Tuple) and len(t.elts) == len(s_.value.elts) and any(n_ in (P, S) for n_ in names):
                        p_, s2_ = st[1], st[2]
                        for x_, y_ in zip(t.elts, s_.value.elts):
                            if is_name(x_, P):
                                p_ = kind(y_, st)
                            elif is_name(x_, S):
                                s2_ = kind(y_, st)
                        nxt.add((st[0], p_, s2_))
                    elif any(n_ in (P, S, codes) for n_ in names):
                        raise Und()
                    else:
                        nxt.add(st)
                elif isinstance(s_, ast.AugAssign) and isinstance(s_.target, ast.Name) and s_.target.id in (P, S, codes):
                    if s_.target.id == codes:
                        nxt.add((None if st[0] else False, st[1], st[2]))      # += may add nothing
                    else:
                        raise Und()
                elif isinstance(s_, ast.Expr) and isinstance(s_.value, ast.Call) and isinstance(s_.value.func, ast.Attribute) and is_name(s_.value.func.value, codes):
                    m_ = s_.value.func.attr
                    if m_ in ("append", "insert"):
                        nxt.add((False, st[1], st[2]))
                    elif m_ == "extend":
                        a_ = s_.value.args[0] if s_.value.args else None
                        certain = isinstance(a_, (ast.List, ast.Tuple)) and a_.elts
                        nxt.add((False if certain or st[0] is False else None, st[1], st[2]))
                    else:
                        raise Und()
                elif isinstance(s_, ast.If):
                    for tv, st2 in test(s_.test, st):
                        f_, r_ = run(s_.body if tv else s_.orelse, {st2})
                        nxt |= f_
                        rets |= r_
                elif isinstance(s_, ast.Return):
                    rets.add(st)
                elif isinstance(s_, (ast.Raise,)):
                    pass
                elif isinstance(s_, (ast.For, ast.While)):
                    # a loop: zero or more passes; the body may only grow the code list
                    f_, r_ = run(s_.body, {st})
                    if r_:
                        raise Und()
                    nxt.add(st)
                    nxt |= {(None if (x_[0] is False and st[0]) else x_[0], x_[1], x_[2]) for x_ in f_}
                elif isinstance(s_, (ast.Expr, ast.Assert, ast.Pass)):
                    if any(isinstance(x_, ast.Name) and x_.id in (P, S, codes) and isinstance(getattr(x_, "ctx", None), ast.Store) for x_ in ast.walk(s_)):
                        raise Und()
                    nxt.add(st)
                else:
                    raise Und()
            states = nxt
            if not states:
                break
        return states, rets
    try:
        fall, rets = run([s_ for s_ in make.body if not (isinstance(s_, ast.Expr) and isinstance(s_.value, ast.Constant))], {(None, "E", "E")})
    except Und:
        return None
    if fall:
        return None
    return {(p_, s_, c_) for c_, p_, s_ in rets}


def _check_make(cx, make, elem, sh):
    rets = [n for n in walk_local(make) if isinstance(n, ast.Return)]
    cx.need(len(rets) == 1 and isinstance(rets[0].value, ast.Tuple) and len(rets[0].value.elts) == 2 and
            all(isinstance(e, ast.Name) for e in rets[0].value.elts), "R09b", make, "make must return (prefix_name, suffix_name)")
    P, S = (e.id for e in rets[0].value.elts)
    # the list of codes
    join_calls = [c for c in walk_local(make) if isinstance(c, ast.Call) and isinstance(c.func, ast.Attribute) and c.func.attr == "join"]
    cx.need(len(join_calls) == 1, "R09b", make, "one join of the code list expected")
    jarg = join_calls[0].args[0]
    codes = next((n.id for n in ast.walk(jarg) if isinstance(n, ast.Name) and isinstance(n.ctx, ast.Load) and
                  any(isinstance(v, ast.List) for _, v in assignments(make, n.id) if v is not None)), None)
    cx.need(codes, "R09b", make, "code list variable not found")
    sep_ok = const(join_calls[0].func.value, str) and join_calls[0].func.value.value == ";"
    cx.ob("R09b", join_calls[0], sep_ok, "codes are joined with ';'" if sep_ok else "codes are not joined with ';'")
    # pairwise assignment blocks
    blocks = {}
    for st, v in assignments(make, P):
        blocks.setdefault(id(_block_of(st)[2]), {"P": [], "S": []})["P"].append((st, v))
    for st, v in assignments(make, S):
        blocks.setdefault(id(_block_of(st)[2]), {"P": [], "S": []})["S"].append((st, v))
    n_pairs = 0
    def _enc(v, name):
        return isinstance(v, ast.Call) and isinstance(v.func, ast.Attribute) and is_name(v.func.value, name) and v.func.attr == "encode" and not v.args

    def _enc_block(b):
        return all(_enc(v, P) for _s, v in b["P"]) and all(_enc(v, S) for _s, v in b["S"]) and (b["P"] or b["S"])
    if any((len(b["P"]) != 1 or len(b["S"]) != 1) and not _enc_block(b) for b in blocks.values()):
        # the bytes variant is still judged where it stands: both or none
        for b in blocks.values():
            if _enc_block(b):
                okb = len(b["P"]) == 1 and len(b["S"]) == 1
                cx.ob("R09b", (b["P"] or b["S"])[0][0], okb, "bytes variant encodes both prefix and suffix" if okb else "bytes variant encodes only one of prefix/suffix", semantic=True)
        # prefix and suffix are not set side by side: decided by a small abstract run of make() instead - the code list as
        # empty / non-empty, prefix and suffix as empty / non-empty strings; at the return both must be empty or both not
        verdict = _pairing_by_abstract_run(make, P, S, codes)
        if verdict is None:
            raise AnalysisError("R09b", f"{REL}::_ColorSequences.make", "prefix and suffix are set in different places and the pairing could not be decided")
        bad = [v for v in verdict if v[0] != v[1]]
        cx.ob("R09b", rets[0], not bad, "on every path prefix and suffix are both empty or both set" if not bad else
              "a path returns " + ("an escape prefix with an empty suffix (colour bleeds into the following text)" if bad[0][0] == "N" else
                                   "an empty prefix with a reset suffix (a lone `ESC[0m` is emitted: no_color / plain text is not free of escape characters)") +
              f"; reached with the code list {'non-empty' if bad[0][2] is False else 'empty' if bad[0][2] else 'of either kind'}", stmt="prefix / suffix pairing", semantic=True)
        cx.counts["R09b:abstract states at return"] = len(verdict)
        return
    for b in blocks.values():
        ps, ss = b["P"], b["S"]
        anchor = (ps or ss)[0][0]
        if len(ps) != 1 or len(ss) != 1:
            cx.ob("R09b", anchor, False, f"prefix and suffix are not assigned together in this block ({len(ps)} prefix, {len(ss)} suffix assignments)")
            continue
        (pst, pv), (sst, sv) = ps[0], ss[0]
        n_pairs += 1
        # encode pair
        def is_self_xform(v, name):
            return isinstance(v, ast.Call) and isinstance(v.func, ast.Attribute) and is_name(v.func.value, name) and v.func.attr == "encode" and not v.args
        if is_self_xform(pv, P) or is_self_xform(sv, S):
            ok = is_self_xform(pv, P) and is_self_xform(sv, S)
            cx.ob("R09b", pst, ok, "bytes variant encodes both prefix and suffix" if ok else "bytes variant encodes only one of prefix/suffix")
            # must be guarded by make_bytes only
            continue
        pe = const(pv, str) and pv.value == ""
        se = const(sv, str) and sv.value == ""
        reset = const(sv, str) and sv.value == "\x1b[0m"
        pshape = sh.shape(pv, make)
        starts_esc = A.find_in_a_not_b(pshape, A.cat(A.lit("\x1b["), A.ANY, A.lit("m")))[0] is None
        if pe:
            cx.ob("R09b", pst, se, "empty prefix is paired with an empty suffix" if se else f"empty prefix is paired with suffix {norm(sv)} (a lone reset / colour bleeds)")
            # this block must be the one taken when the code list is empty
            fs = facts(pst)
            g = any(is_name(e, codes) and not pol for e, pol in fs)
            cx.ob("R09d", pst, g, "empty pair is chosen exactly when no code was collected" if g else "empty pair is not guarded by the emptiness of the code list")
        else:
            ok = reset and starts_esc
            cx.ob("R09b", pst, ok, "non-empty prefix ESC[...m is paired with the reset ESC[0m" if ok else
                  f"prefix {norm(pv)[:50]} is paired with suffix {norm(sv)} (colour would bleed into later output / is not a full sequence)")
            fs = facts(pst)
            g = any(is_name(e, codes) and pol for e, pol in fs)
            cx.ob("R09d", pst, g, "a prefix is built only when some code was collected" if g else "prefix is built although the code list may be empty (ESC[m)")
    cx.at_least("R09b", "prefix/suffix assignment pairs", n_pairs, 3)
    # R09d: every append to the code list is control dependent on `not no_color`
    apps = [c for c in walk_local(make) if isinstance(c, ast.Call) and isinstance(c.func, ast.Attribute) and c.func.attr in ("append", "extend", "insert")
            and is_name(c.func.value, codes)]
    cx.at_least("R09d", "code appends", len(apps), 2)
    nc = "no_color"
    cx.need(nc in params(make), "R09d", make, "no_color parameter vanished")
    for a in apps:
        g = any(is_name(e, nc) and not pol for e, pol in facts(a))
        cx.ob("R09d", a, g, "append is control-dependent on `not no_color`" if g else "a code is appended even when no_color is set")
    other = [n for n in walk_local(make) if isinstance(n, (ast.AugAssign,)) and is_name(n.target, codes)]
    for o in other:
        g = any(is_name(e, nc) and not pol for e, pol in facts(o))
        cx.ob("R09d", o, g, "code list extension is control-dependent on `not no_color`" if g else "codes are added even when no_color is set")
    inits = [v for _, v in assignments(make, codes)]
    ok = len(inits) == 1 and isinstance(inits[0], ast.List) and not inits[0].elts
    cx.ob("R09d", make, ok, "code list starts empty" if ok else "code list does not start empty", stmt=f"{codes} = []")
    # effects: each flag appends its SGR code, guarded by its own parameter
    eff = {}
    for a in apps:
        if a.func.attr == "append" and a.args and const(a.args[0], str):
            g = [e.id for e, pol in facts(a) if isinstance(e, ast.Name) and pol and e.id in SGR_EFFECTS]
            for flag in g:
                eff.setdefault(flag, set()).add(a.args[0].value)
            if not g:
                cx.ob("R09f", a, False, f"SGR code {a.args[0].value!r} is appended without being selected by an effect flag")
    # table-driven form:  for flag_var, code_var in ((bold, "1"), ...): if flag_var: codes.append(code_var)
    for a in apps:
        if a.func.attr == "append" and a.args and isinstance(a.args[0], ast.Name):
            loops = [l for l in enclosing_loops(a) if isinstance(l, ast.For) and isinstance(l.target, ast.Tuple) and any(is_name(x, a.args[0].id) for x in l.target.elts)]
            if not loops:
                continue
            l = loops[0]
            tbl = l.iter
            if isinstance(tbl, ast.Name):
                ds = [v for _, v in assignments(make, tbl.id) if v is not None]
                tbl = ds[0] if len(ds) == 1 else None
            if not (isinstance(tbl, (ast.Tuple, ast.List)) and all(isinstance(r, (ast.Tuple, ast.List)) and len(r.elts) == len(l.target.elts) for r in tbl.elts)):
                raise AnalysisError("R09f", f"{REL}::_ColorSequences.make", "effects table is not a literal of rows")
            kc = next(i for i, x in enumerate(l.target.elts) if is_name(x, a.args[0].id))
            guards_ = [e.id for e, pol in facts(a, stop=l) if isinstance(e, ast.Name) and pol]
            kg = [i for i, x in enumerate(l.target.elts) if isinstance(x, ast.Name) and x.id in guards_]
            if len(kg) != 1:
                cx.ob("R09f", a, False, "a table row's code is appended without being selected by that row's flag")
                continue
            for r in tbl.elts:
                fl, cd = r.elts[kg[0]], r.elts[kc]
                if isinstance(fl, ast.Name) and const(cd, str):
                    eff.setdefault(fl.id, set()).add(cd.value)
                else:
                    raise AnalysisError("R09f", f"{REL}::_ColorSequences.make", f"effects table row {norm(r)} is not (flag parameter, code literal)")
    for flag, code in SGR_EFFECTS.items():
        got = eff.get(flag, set())
        cx.ob("R09f", make, got == {code}, f"{flag} -> SGR {code}" if got == {code} else f"{flag} maps to {sorted(got)} (SGR says {code})", stmt=f"effect {flag}")
    # colour / background elements
    ecalls = [c for c in walk_local(make) if isinstance(c, ast.Call) and call_name(c) == elem.name]
    cx.at_least("R09f", "_make_seq_element call sites in make", len(ecalls), 2)
    seen = {}
    for c in ecalls:
        a0 = c.args[0].id if c.args and isinstance(c.args[0], ast.Name) else None
        bg = None
        if len(c.args) > 1 and const(c.args[1], bool):
            bg = c.args[1].value
        for k in c.keywords:
            if k.arg == params(elem)[2] and const(k.value, bool):
                bg = k.value.value
        if len(c.args) == 1 and not c.keywords:
            bg = False
        want = {"color": False, "bg_color": True}.get(a0)
        ok = want is not None and bg == want
        cx.ob("R09f", c, ok, f"{a0} is rendered as {'background' if bg else 'foreground'}" if ok else f"{a0} is rendered with is_bg={bg}")
        notnone = any(isinstance(e, ast.Compare) and is_name(e.left, a0) and isinstance(e.ops[0], ast.IsNot) and pol for e, pol in facts(c)) if a0 else False
        cx.ob("R09f", c, notnone, f"only when {a0} is given" if notnone else f"element is built although {a0} may be None", stmt=norm(enclosing_stmt(c)) + " [guard]")
        seen[a0] = True
    cx.ob("R09f", make, set(seen) == {"color", "bg_color"}, "both colour and background are rendered" if set(seen) == {"color", "bg_color"} else f"rendered: {sorted(map(str, seen))}", stmt="colour + background")


def _check_elem(cx, elem, mod):
    # R09g: all exits are `return <expr>` or `raise ValueError`; cannot fall off the end
    ok_end = always_leaves(elem.body)
    cx.ob("R09g", elem, ok_end, "the function cannot fall off its end (would return None into the join)" if ok_end else
          "a path falls off the end of _make_seq_element and returns None", stmt="exits")
    for n in walk_local(elem):
        if isinstance(n, ast.Raise):
            ok = n.exc is not None and call_name(n.exc) == "ValueError"
            cx.ob("R09g", n, ok, "raises ValueError" if ok else f"raises {norm(n.exc) if n.exc else 'bare'} for an invalid colour")
        if isinstance(n, ast.Return):
            cx.ob("R09g", n, n.value is not None and not (const(n.value) and n.value.value is None), "returns an element" if n.value is not None else "returns None")
    # handlers inside must not swallow into a valid element silently: (int() failure -> shade = -1 -> raise) fine.
    pcolor, pbg = params(elem)[1], params(elem)[2]
    # fg/bg selector
    sel = [(st, v) for st, v in assignments(elem, next((n for n in ["fg_bg_id"] if assignments(elem, n)), "fg_bg_id"))]
    sel_name = None
    for n in walk_local(elem):
        if isinstance(n, ast.Assign) and isinstance(n.value, ast.IfExp) and is_name(n.value.test, pbg) and const(n.value.body, str) and const(n.value.orelse, str) \
                and n.value.body.value in ("3", "4"):
            sel_name = n.targets[0].id
            ok = n.value.body.value == "4" and n.value.orelse.value == "3"
            cx.ob("R09f", n, ok, "selector: background '4', foreground '3'" if ok else "fg/bg selector digits are swapped or wrong")
        if isinstance(n, ast.Assign) and isinstance(n.value, ast.IfExp) and is_name(n.value.test, pbg) and isinstance(n.targets[0], ast.Tuple) \
                and isinstance(n.value.body, ast.Tuple) and isinstance(n.value.orelse, ast.Tuple) and len(n.value.body.elts) == len(n.value.orelse.elts) == len(n.targets[0].elts):
            # sel, other = ("4", ..) if is_bg else ("3", ..)
            for k_, (a_, b_) in enumerate(zip(n.value.body.elts, n.value.orelse.elts)):
                if const(a_, str) and const(b_, str) and a_.value in ("3", "4") and isinstance(n.targets[0].elts[k_], ast.Name):
                    sel_name = n.targets[0].elts[k_].id
                    ok = a_.value == "4" and b_.value == "3"
                    cx.ob("R09f", n, ok, "selector: background '4', foreground '3'" if ok else "fg/bg selector digits are swapped or wrong")
    cx.need(sel_name, "R09f", elem, "fg/bg selector assignment not recognised")
    # colour names table
    owner = enclosing(elem, (ast.ClassDef,))
    tbl = class_attr(owner, "_COLORS")
    cx.need(tbl is not None, "R09f", f"{REL}::_ColorSequences._COLORS", "colour table vanished")
    try:
        table = literal(tbl, mod)
    except ValueError as e:
        raise AnalysisError("R09f", f"{REL}::_ColorSequences._COLORS", str(e))
    cx.ob("R09f", tbl, table == COLOR_DIGITS, "colour names map to SGR digits 0-7 (8 distinct)" if table == COLOR_DIGITS else
          f"colour table deviates from SGR: {sorted((k, v) for k, v in table.items() if COLOR_DIGITS.get(k) != v)} / missing {sorted(set(COLOR_DIGITS) - set(table))}")
    # returns: named -> sel + table[color] ; int -> f"{sel}8:5:{color}"
    n_ret = 0
    for n in walk_local(elem):
        if not isinstance(n, ast.Return):
            continue
        v = n.value
        n_ret += 1
        shp = Shaper(cx.repo).shape(v, elem)
        named_l = A.cat(A.charset("34"), A.charset("01234567"))
        ext_l = A.cat(A.charset("34"), A.lit("8:5:"), A.NAT)
        uses = {x.id for x in ast.walk(v) if isinstance(x, ast.Name)}
        if A.find_in_a_not_b(shp, named_l)[0] is None:
            ok = sel_name in uses and any(isinstance(x, ast.Subscript) and is_name(x.slice, pcolor) and norm(x.value).endswith("_COLORS") for x in ast.walk(v))
            g = any(isinstance(e, ast.Compare) and isinstance(e.ops[0], ast.In) and pol and is_name(e.left, pcolor) and norm(e.comparators[0]).endswith("_COLORS") for e, pol in facts(n))
            cx.ob("R09f", n, ok and g, "named colour: selector + digit of that name, guarded by membership" if ok and g else "named-colour element is not selector + table[colour] under a membership test")
        elif A.find_in_a_not_b(shp, ext_l)[0] is None:
            # the code that follows "8:5:": last formatted value / last operand
            code_e = None
            if isinstance(v, ast.JoinedStr):
                fvs = [x for x in v.values if isinstance(x, ast.FormattedValue)]
                code_e = fvs[-1].value if fvs else None
            elif isinstance(v, ast.BinOp):
                code_e = v.right.args[0] if isinstance(v.right, ast.Call) and call_name(v.right) == "str" and v.right.args else None
            if code_e is None:
                raise AnalysisError("R09f", f"{REL}::_make_seq_element", f"code operand of {norm(v)[:50]} not recognised")
            ok = sel_name in uses
            cx.ob("R09f", n, ok, "256-colour element is <selector>8:5:<code>" if ok else f"256-colour element does not use the selector: {norm(v)}")
            # the range of the code: interval of the expression from the facts on the way here and from its definitions
            # (through private helpers), see sa/intervals.py
            from sa import intervals
            lob, hib, isint = intervals.of(code_e, elem, cx.repo)
            lo = lob is not None and lob >= 0
            hi = hib is not None and hib <= 255
            cx.counts["R09f:code intervals computed"] = cx.counts.get("R09f:code intervals computed", 0) + 1
            cx.ob("R09f", n, lo and hi and isint, f"code {norm(code_e)} is an int within {lob}..{hib} (0..255 needed) on every path to the 8:5: form" if lo and hi and isint else
                  f"code {norm(code_e)} reaches the 8:5: form without the full range check (int={isint}, possible values {lob}..{hib}, allowed 0..255): "
                  "an invalid colour is emitted instead of raising ValueError", stmt=norm(n) + " [range]")
        else:
            cx.ob("R09f", n, False, f"unrecognised element form {norm(v)[:60]}")
    cx.at_least("R09f", "element return sites", n_ret, 2)
    # cube and grey assignments to the colour variable
    n_poly = 0
    from sa import intervals
    comps = [(st, v, elem, pcolor) for st, v in assignments(elem, pcolor) if v is not None
             and not (isinstance(v, ast.Call) and intervals._helper(v, elem, cx.repo) is not None)]        # helper results: judged at the helper's returns
    for c_ in [x for x in walk_local(elem) if isinstance(x, ast.Call)]:
        h_ = intervals._helper(c_, elem, cx.repo)
        if h_ is not None and h_ is not elem and c_.args and is_name(c_.args[0], pcolor):
            # a private helper that turns the colour description into its code: its returns are the computations
            hp = params(h_)
            hp = hp[1:] if hp and hp[0] in ("self", "cls") else hp
            if hp:
                comps += [(r_, r_.value, h_, hp[0]) for r_ in walk_local(h_) if isinstance(r_, ast.Return) and r_.value is not None]
    for st, v, host, src in comps:
        lin = linear(v)
        if lin is None:
            cx.ob("R09f", st, False, f"colour code computed by a non-linear / unrecognised expression {norm(v)}")
            continue
        n_poly += 1
        names = sorted(k for k in lin if k != 1)
        if len(names) == 3:
            # cube: unpack order r,g,b from the colour
            unpack = [s for s in walk_local(host) if isinstance(s, ast.Assign) and isinstance(s.targets[0], ast.Tuple) and is_name(s.value, src)]
            order = [e.id for e in unpack[0].targets[0].elts] if unpack else []
            want = {1: 16}
            if len(order) == 3:
                want.update({order[0]: 36, order[1]: 6, order[2]: 1})
            ok = lin == want
            cx.ob("R09f", st, ok, "cube value is 16 + 36*r + 6*g + b (r,g,b in tuple order)" if ok else f"cube polynomial is {lin}, xterm says 16 + 36 r + 6 g + b with (r,g,b) = tuple order {order}")
            # every component within 0..5 (all(..) / not any(..) over the tuple, however spelled) and three of them
            from sa.guards import canon_facts
            elo, ehi, _ei = intervals._element_bounds(st, src)
            comp_ok = elo is not None and elo >= 0 and ehi is not None and ehi <= 5
            len_ok = ("==", *sorted(("3", f"len({src})")), True) in canon_facts(st)
            cx.ob("R09f", st, comp_ok and len_ok, "each cube component is checked against 0..5 and the tuple has 3 elements" if comp_ok and len_ok else
                  "cube components are not all bounded to 0..5 (or the length is unchecked) before the polynomial", stmt=norm(st) + " [bounds]")
        elif len(names) == 1:
            ok = lin == {1: 232, names[0]: 1}
            cx.ob("R09f", st, ok, "grey is 232 + shade" if ok else f"grey ramp is {lin}, xterm says 232 + shade")
            fs = facts(st)
            from sa.guards import int_bounds
            lob, _ = int_bounds(fs, names[0])
            lo = lob is not None and lob >= 0
            cx.ob("R09f", st, lo, "negative shades are rejected" if lo else "a negative shade reaches 232 + shade (maps into the colour cube)", stmt=norm(st) + " [bounds]")
        else:
            cx.ob("R09f", st, False, f"unexpected colour computation {norm(v)}")
    cx.at_least("R09f", "colour code computations", n_poly, 2)


def _component_bound(anycall):
    # any(c < 0 or c > 5 for c in color)
    if not anycall.args or not isinstance(anycall.args[0], ast.GeneratorExp):
        return False
    g = anycall.args[0]
    if len(g.generators) != 1 or g.generators[0].ifs or not isinstance(g.generators[0].target, ast.Name):
        return False
    v = g.generators[0].target.id
    e = g.elt
    if not (isinstance(e, ast.BoolOp) and isinstance(e.op, ast.Or) and len(e.values) == 2):
        return False
    texts = {norm(x) for x in e.values}
    return texts in ({f"{v} < 0", f"{v} > 5"}, {f"{v} < 0", f"{v} >= 6"}, {f"0 > {v}", f"{v} > 5"})


def _check_chunk_sites(cx, repo):
    chunk = cx.cls(REL, "_CHTextChunk", "R09c")
    sites = []
    for m in repo.modules.values():
        for c in ast.walk(m.tree):
            if not isinstance(c, ast.Call) or len(c.args) + len(c.keywords) != 3:
                continue
            f = c.func
            owner = enclosing(c, (ast.ClassDef,))
            is_ctor = (isinstance(f, ast.Name) and f.id == "_CHTextChunk") or \
                (isinstance(f, ast.Attribute) and f.attr == "Chunk" and not isinstance(parent(c), ast.Attribute)) or \
                (owner is chunk and ((isinstance(f, ast.Name) and f.id == "cls") or (isinstance(f, ast.Call) and call_name(f) == "type" and len(f.args) == 1 and is_name(f.args[0], "self"))))
            if is_ctor:
                sites.append(c)
    cx.at_least("R09c", "chunk construction sites", len(sites), 4)
    PAIRS = {"c_prefix": "c_suffix", "_color_prefix": "_color_suffix"}
    for c in sites:
        args = list(c.args) + [k.value for k in c.keywords]
        a, b = args[0], args[2]
        if const(a, str) and const(b, str):
            ok = a.value == "" and b.value == ""
            cx.ob("R09c", c, ok, "plain chunk: both colour parts empty" if ok else f"literal colour parts {a.value!r}/{b.value!r}")
        elif isinstance(a, ast.Attribute) and isinstance(b, ast.Attribute):
            ok = norm(a.value) == norm(b.value) and PAIRS.get(a.attr) == b.attr
            cx.ob("R09c", c, ok, f"prefix and suffix come from the same object ({norm(a.value)})" if ok else
                  f"prefix {norm(a)} and suffix {norm(b)} do not form a pair of one object")
        else:
            cx.ob("R09c", c, False, f"colour parts {norm(a)} / {norm(b)} are not a recognised pair")
    # has_same_type may compare prefixes only because of the above; check it compares c_prefix of both
    hst = repo.method(chunk, "has_same_type")
    cx.need(hst is not None, "R09c", f"{REL}::_CHTextChunk.has_same_type", "vanished")
    rets = [n for n in walk_local(hst) if isinstance(n, ast.Return)]
    ok = len(rets) == 1 and isinstance(rets[0].value, ast.Compare) and isinstance(rets[0].value.ops[0], ast.Eq) and \
        {norm(rets[0].value.left), norm(rets[0].value.comparators[0])} == {"self.c_prefix", f"{params(hst)[1]}.c_prefix"}
    cx.ob("R09c", hst, ok, "same type <=> equal prefixes" if ok else "has_same_type does not compare the two prefixes for equality")
    # nobody outside color.py touches the colour parts
    for m in repo.modules.values():
        if m.rel == REL:
            continue
        for n in ast.walk(m.tree):
            if isinstance(n, ast.Attribute) and n.attr in ("c_prefix", "c_suffix", "_color_prefix", "_color_suffix"):
                cx.ob("R09c", n, False, "colour parts are accessed outside ak/color.py")


def _check_formatters(cx, repo, make):
    fmt = cx.func(REL, "ColorFmt.__init__", "R09e")
    byt = cx.func(REL, "ColorBytes.__init__", "R09e")
    mp = params(make)[1:]   # without cls

    def call_of(f):
        cs = [c for c in walk_local(f) if isinstance(c, ast.Call) and call_name(c) == "make"]
        cx.need(len(cs) == 1, "R09e", f, "one call of _ColorSequences.make expected")
        return cs[0]
    cf, cb = call_of(fmt), call_of(byt)

    def bound(c):
        d = {}
        for i, a in enumerate(c.args):
            d[mp[i]] = norm(a)
        for k in c.keywords:
            d[k.arg] = norm(k.value)
        return d
    bf, bb = bound(cf), bound(cb)
    for name, c, b in (("ColorFmt", cf, bf), ("ColorBytes", cb, bb)):
        wrong = {k: v for k, v in b.items() if k != "make_bytes" and v != k}
        missing = [p for p in mp if p != "make_bytes" and p not in b]
        cx.ob("R09e", c, not wrong and not missing, f"{name} passes every argument to the parameter of the same name" if not wrong and not missing else
              f"{name}: arguments bound to other parameters {wrong}, not passed {missing}")
        st = enclosing_stmt(c)
        ok = isinstance(st, ast.Assign) and isinstance(st.targets[0], ast.Tuple) and [norm(t) for t in st.targets[0].elts] == ["self._color_prefix", "self._color_suffix"]
        cx.ob("R09e", st, ok, "results stored as (prefix, suffix)" if ok else "results are not stored as (self._color_prefix, self._color_suffix) in this order", stmt=norm(st)[:80] + " [store]")
    ok = bf.get("make_bytes") in (None, "False") and bb.get("make_bytes") == "True"
    cx.ob("R09e", cb, ok, "the only difference is make_bytes=True" if ok else f"make_bytes: ColorFmt={bf.get('make_bytes')} ColorBytes={bb.get('make_bytes')}", stmt="make_bytes")
    # __call__ of both: prefix + text + suffix
    cfc = cx.func(REL, "ColorFmt.__call__", "R09e")
    cbc = cx.func(REL, "ColorBytes.__call__", "R09e")
    r = [n for n in walk_local(cbc) if isinstance(n, ast.Return)]
    t = params(cbc)[1]
    ok = len(r) == 1 and norm(r[0].value) == f"self._color_prefix + {t} + self._color_suffix"
    cx.ob("R09e", r[0] if r else cbc, ok, "bytes: prefix + text + suffix" if ok else "ColorBytes.__call__ does not return prefix + text + suffix")
    r = [n for n in walk_local(cfc) if isinstance(n, ast.Return)]
    t = params(cfc)[1]
    ok = len(r) == 1 and isinstance(r[0].value, ast.Call) and [norm(a) for a in r[0].value.args] == ["self._color_prefix", t, "self._color_suffix"]
    cx.ob("R09e", r[0] if r else cfc, ok, "text: chunk(prefix, text, suffix)" if ok else "ColorFmt.__call__ does not build chunk(prefix, text, suffix)")


def _check_str(cx, repo):
    """str() of a chunk / text is prefix text suffix per chunk, in chunk order."""
    for q in ("_CHTextChunk.__str__", "CHText.__str__"):
        f = cx.func(REL, q, "R09b")
        js = [n for n in walk_local(f) if isinstance(n, ast.JoinedStr)]
        ok = False
        if len(js) == 1:
            vals = [norm(v.value).split(".")[-1] for v in js[0].values if isinstance(v, ast.FormattedValue)]
            lits = [v for v in js[0].values if isinstance(v, ast.Constant)]
            ok = vals == ["c_prefix", "text", "c_suffix"] and not lits
        cx.ob("R09b", f, ok, "rendering is prefix + text + suffix for each chunk" if ok else "rendering does not emit prefix, text, suffix in this order for each chunk", stmt=q)
        if q == "CHText.__str__":
            j = [c for c in walk_local(f) if isinstance(c, ast.Call) and isinstance(c.func, ast.Attribute) and c.func.attr == "join"]
            ok2 = len(j) == 1 and const(j[0].func.value, str) and j[0].func.value.value == "" and isinstance(j[0].args[0], ast.GeneratorExp) and \
                norm(j[0].args[0].generators[0].iter) == "self.chunks" and not j[0].args[0].generators[0].ifs
            cx.ob("R09b", f, ok2, "all chunks, in order, nothing in between" if ok2 else "CHText.__str__ does not concatenate all chunks in order", stmt=q + " [join]")


def _bytes_on_every_path(cx, make):
    """make(..., make_bytes) serves the text and the bytes formatter.  Every return must have passed the `make_bytes` decision
    (the step that encodes both sequences) or be written as an encoded / conditional value itself; a return that leaves before
    that step hands `str` to ColorBytes, whose __call__ then concatenates str and bytes."""
    from sa.cfg import CFG
    pm = [p_ for p_ in params(make) if "bytes" in p_]
    cx.need(len(pm) == 1, "R09i", make, "the make_bytes parameter")
    mb = pm[0]
    g = CFG(make)
    deciders = [st for st in walk_local(make) if isinstance(st, ast.If) and mb in names_in(st.test)]
    rets = [r for r in walk_local(make) if isinstance(r, ast.Return)]
    cx.need(rets, "R09i", make, "returns of make")
    n = 0
    for r in rets:
        n += 1
        v = r.value
        self_sufficient = v is not None and (mb in names_in(v) or any(isinstance(c, ast.Call) and call_name(c) == "encode" for c in ast.walk(v))
                                             or any(isinstance(c, ast.Constant) and isinstance(c.value, bytes) for c in ast.walk(v)))
        under = any(mb in names_in(e) for e, pol in facts(r))
        if self_sufficient or under:
            cx.ob("R09i", r, True, "the returned pair depends on make_bytes")
            continue
        cx.need(deciders, "R09i", make, "the step that encodes the sequences for the bytes formatter")
        rn = g.node_of(r)
        avoid = {g.node_of(d).id for d in deciders if g.node_of(d) is not None}
        path = g.reach_avoiding(g.entry, {rn.id}, avoid, follow_raise=False) if rn is not None else None
        cx.ob("R09i", r, path is None, "reached only after the make_bytes decision" if path is None else
              f"`{norm(r)}` is reached without the make_bytes decision (lines {[getattr(p_.ast, 'lineno', None) for p_ in path if getattr(p_, 'ast', None) is not None][-6:]}): "
              "the bytes formatter gets str sequences and fails / mixes types when applied to bytes")
    cx.counts["R09i:returns of make"] = n
