"""C08 — coloured text behaves like the string: representation invariant and aliasing."""
import ast

from sa.core import (AnalysisError, FUNC, assignments, call_name, class_attr, const, dotted, enclosing, enclosing_func,
                     enclosing_stmt, is_attr, is_name, is_self_attr, literal, norm, params, parent, walk_local, names_in, ancestors)
from sa.guards import facts, enclosing_loops, MUTATORS
from sa import events

PROP = "C08"
REL = "ak/color.py"
FUNNEL = ("__init__", "make", "_append_chunk")
EXPLANATION = (
    "Who-may-write, path pairing (event language), def-use and aliasing rules on CHText in ak/color.py decide the representation "
    "invariant that ==, len() and rendering rely on (no empty chunk, neighbours differ in colour, scrlen = sum of chunk "
    "lengths); on top of it R08h decides the arithmetic of indexing / slicing / fixed_len / format padding by relational "
    "abstract interpretation (sa/textint.py: values say which characters T[lo:hi] of the visible text a piece shows, as linear "
    "expressions over the inputs and ghost chunk offsets A(i), L(i); linear constraints decided by Fourier-Motzkin; paths "
    "partitioned at every test; the two loops get inductive invariants from a template family, Houdini-style); every abstract "
    "path is compared with every feasible case of str's behaviour. R08a: `.chunks` and `.scrlen` of any object are stored to or mutated in place only in CHText.__init__, "
    "CHText.make and CHText._append_chunk (whole package); readers outside color.py copy. R08b: in _append_chunk the empty-text "
    "early return dominates every mutation; on every path the chunk list is mutated exactly once and scrlen grows exactly once "
    "by len(chunk.text) of the same chunk; the merge branch is taken exactly when the list is non-empty and the last chunk has "
    "the same type, and appends the new text after the old. R08c: make() stores the list returned by _merge_chunks and computes "
    "scrlen from that same list; _merge_chunks flushes the pending chunk. R08d: no loop iterates `other.<attr>` while its body "
    "(transitively) grows `self.<attr>` unless `other is not self` is known or a copy is iterated. R08e: every text returned by a "
    "public operation is built by the constructors / make / another public operation, i.e. through the funnel of R08a. R08f: "
    "non-in-place operations return fresh objects. R08g: a list handed to make() is not mutated afterwards. Parsing of the "
    "format specification and fixed_len of negative lengths are NOT decided."
)


def _mutations_of(func, attrs):
    """Nodes in func that store to / mutate in place  <x>.<attr>  for attr in attrs."""
    out = []
    nodes = list(ast.walk(func)) if isinstance(func, ast.stmt) and not isinstance(func, FUNC) else walk_local(func)
    for n in nodes:
        if isinstance(n, ast.Attribute) and n.attr in attrs and isinstance(n.ctx, (ast.Store, ast.Del)):
            out.append((n, n.attr, "store"))
        elif isinstance(n, ast.Subscript) and isinstance(n.ctx, (ast.Store, ast.Del)) and isinstance(n.value, ast.Attribute) and n.value.attr in attrs:
            out.append((n, n.value.attr, "item store"))
        elif isinstance(n, ast.Call) and isinstance(n.func, ast.Attribute) and n.func.attr in MUTATORS and isinstance(n.func.value, ast.Attribute) and n.func.value.attr in attrs:
            out.append((n, n.func.value.attr, n.func.attr + "()"))
    return out


def run(cx):
    repo = cx.repo
    for r, t in (("R08a", "canonical-form funnel: only __init__, make, _append_chunk write chunks / scrlen"),
                 ("R08b", "_append_chunk keeps the invariant on every path"),
                 ("R08c", "make(): chunks = merged list, scrlen computed from that same list"),
                 ("R08d", "no iteration over a container that the loop body grows (self-aliasing)"),
                 ("R08e", "public operations build their results only through the funnel"),
                 ("R08f", "non-in-place operations return a fresh object (texts are mutable through +=)"),
                 ("R08g", "a list handed to CHText.make belongs to the text: the caller does not mutate it afterwards")):
        cx.rule(r, t)
    cht = cx.cls(REL, "CHText", "R08a")
    chunk = cx.cls(REL, "_CHTextChunk", "R08a")
    append = cx.func(REL, "CHText._append_chunk", "R08b")
    make = cx.func(REL, "CHText.make", "R08c")
    merge = cx.func(REL, "CHText._merge_chunks", "R08c")
    init = cx.func(REL, "CHText.__init__", "R08a")

    # ------------------------------------------------------------------ R08a
    n_w = 0
    for m in repo.modules.values():
        for f in [x for x in ast.walk(m.tree) if isinstance(x, FUNC)]:
            for node, attr, how in _mutations_of(f, ("chunks", "scrlen")):
                owner = enclosing(f, (ast.ClassDef,))
                inside = owner is cht and f.name in FUNNEL and m.rel == REL
                n_w += 1
                cx.ob("R08a", node, inside, f"{how} of .{attr} inside the funnel ({f.name})" if inside else
                      f"{how} of .{attr} in {getattr(f, '_qual', f.name)}: the canonical form (merged, non-empty chunks, scrlen) is bypassed")
            for n in walk_local(f):
                if isinstance(n, ast.AugAssign) and isinstance(n.target, ast.Attribute) and n.target.attr in ("scrlen",):
                    pass  # counted above through the Store ctx of the target
    cx.at_least("R08a", "write sites of chunks / scrlen", n_w, 6)
    # readers outside color.py: copies only (a bare `.chunks` escaping could be mutated by the receiver)
    for m in repo.modules.values():
        if m.rel == REL:
            continue
        for n in ast.walk(m.tree):
            if isinstance(n, ast.Attribute) and n.attr == "chunks" and isinstance(n.ctx, ast.Load):
                p = parent(n)
                ok = (isinstance(p, ast.Attribute) and p.attr == "copy") or (isinstance(p, ast.Call) and call_name(p) in ("list", "tuple", "len", "iter", "enumerate", "calc_chunks_len")) \
                    or isinstance(p, (ast.For, ast.comprehension)) or (isinstance(p, ast.Subscript) and isinstance(p.ctx, ast.Load))
                cx.ob("R08a", n, ok, "outside color.py the chunk list is copied / only read" if ok else "the internal chunk list of a text escapes outside color.py without a copy")
    # __slots__ keep the representation closed
    sl = class_attr(cht, "__slots__")
    ok = sl is not None and set(literal(sl) if not isinstance(literal(sl), str) else [literal(sl)]) == {"scrlen", "chunks"}
    cx.ob("R08a", sl if sl is not None else cht, ok, "CHText has exactly the two representation fields" if ok else "CHText representation fields changed")
    # __init__: starts empty and appends every part through +=
    ok = any(norm(s) == "self.scrlen = 0" for s in init.body) and any(norm(s) == "self.chunks = []" for s in init.body)
    loops = [l for l in init.body if isinstance(l, ast.For)]
    ok = ok and len(loops) == 1 and norm(loops[0].iter) == params(init)[-1] and [norm(s) for s in loops[0].body] == [f"self += {norm(loops[0].target)}"]
    cx.ob("R08a", init, ok, "the constructor starts empty and adds each part through += (the funnel)" if ok else "constructor does not build the text as empty + each part via +=")

    # ------------------------------------------------------------------ R08b
    ch = params(append)[1]

    def classify(st):
        letters = []
        for node, attr, how in _mutations_of(st, ("chunks", "scrlen")):
            letters.append("MUT" if attr == "chunks" else "LEN")
        return tuple(letters) if letters else None
    spec = {("q0", "MUT"): "m", ("m", "LEN"): "done", ("q0", "LEN"): "l", ("l", "MUT"): "done"}
    res = events.check(append, classify, spec, "q0", {"q0", "done"})
    if not res.violations and res.uncertain:
        # only along paths through a test on state the event engine does not track: a loss of precision, not a finding
        raise AnalysisError("R08b", f"{REL}::CHText append", f"pairing of chunk-list and length updates not decided: the only irregular paths go through a test on untracked state (line {res.uncertain[0][1][-1] if res.uncertain[0][1] else '?'}: {res.uncertain[0][0][:60]})")
    if not res.violations:
        cx.ob("R08b", append, True, f"every path mutates the chunk list once and the length once, or neither ({res.states} product states)", stmt="pairing")
    for msg, pth in res.violations[:3]:
        cx.ob("R08b", append, False, f"{msg.replace('event MUT', 'a chunk-list mutation').replace('event LEN', 'a length update')}; path through lines {pth[-8:]}", stmt="pairing: " + msg[:48])
    first = append.body[0] if append.body else None
    while first is not None and isinstance(first, ast.Expr) and isinstance(first.value, ast.Constant):
        first = append.body[append.body.index(first) + 1]
    ok = isinstance(first, ast.If) and norm(first.test) in (f"not {ch}.text", f"len({ch}.text) == 0", f"{ch}.text == ''") and any(isinstance(s, ast.Return) for s in first.body) and not first.orelse
    cx.ob("R08b", first if first is not None else append, ok, "an empty chunk is dropped before anything is changed" if ok else "the empty-text early return is missing / not first: empty chunks can enter the list")
    lens = [n for n in walk_local(append) if isinstance(n, ast.AugAssign) and is_self_attr(n.target, "scrlen")]
    for n in lens:
        ok = isinstance(n.op, ast.Add) and norm(n.value) == f"len({ch}.text)"
        cx.ob("R08b", n, ok, "length grows by the visible length of the appended chunk" if ok else f"scrlen is updated by {norm(n.value)}")
    # merge branch
    merges = [n for n, a, h in _mutations_of(append, ("chunks",)) if h == "item store"]
    apps = [n for n, a, h in _mutations_of(append, ("chunks",)) if h == "append()"]
    cx.need(len(merges) == 1 and len(apps) == 1, "R08b", append, "one merge store and one append expected")
    mg, ap = merges[0], apps[0]
    fs = {(norm(e), pol) for e, pol in facts(mg)}
    okm = ("self.chunks", True) in fs and (f"{ch}.has_same_type(self.chunks[-1])", True) in fs and norm(mg.slice) == "-1"
    cx.ob("R08b", mg, okm, "merge happens only into a non-empty list whose last chunk has the same type" if okm else "merge branch is not guarded by `self.chunks and chunk.has_same_type(self.chunks[-1])`")
    st = enclosing_stmt(mg)
    v = st.value if isinstance(st, ast.Assign) else None
    okv = False
    if isinstance(v, ast.Call) and call_name(v) in ("clone", "add_chunks_same_type"):
        if call_name(v) == "clone":
            a = v.args[0]
            prev = norm(v.func.value)
            pd = [norm(x) for _, x in assignments(append, prev) if x is not None] if isinstance(v.func.value, ast.Name) else [prev]
            okv = isinstance(a, ast.BinOp) and isinstance(a.op, ast.Add) and norm(a.left) == f"{prev}.text" and norm(a.right) == f"{ch}.text" and pd == ["self.chunks[-1]"]
        else:
            okv = norm(v.func.value) in ("self.chunks[-1]",) and norm(v.args[0]) == ch
    cx.ob("R08b", st, okv, "merged chunk = last chunk's colour with old text + new text" if okv else "merged chunk is not last.clone(last.text + chunk.text)", stmt=norm(st)[:70] + " [value]")
    fsa = {(norm(e), pol) for e, pol in facts(ap)}
    oka = [norm(a) for a in ap.args] == [ch] and not any(t == f"{ch}.has_same_type(self.chunks[-1])" and pol for t, pol in fsa)
    cx.ob("R08b", ap, oka, "otherwise the chunk itself is appended" if oka else "append branch altered")
    # has_same_type compares colour
    hst = repo.method(chunk, "has_same_type")
    ok = hst is not None and any(isinstance(r, ast.Return) and "c_prefix" in norm(r.value) and "==" in norm(r.value) for r in walk_local(hst))
    cx.ob("R08b", hst if hst is not None else chunk, ok, "same type <=> same colour prefix" if ok else "has_same_type does not compare colour prefixes")

    # ------------------------------------------------------------------ R08c
    arg = params(make)[1]
    body = [norm(s) for s in make.body if not (isinstance(s, ast.Expr) and isinstance(s.value, ast.Constant))]
    merged = [s for s in make.body if isinstance(s, ast.Assign) and isinstance(s.value, ast.Call) and call_name(s.value) == "_merge_chunks"]
    ok = len(merged) == 1 and norm(merged[0].value.args[0]) == arg
    lst = norm(merged[0].targets[0]) if merged else arg
    cx.ob("R08c", merged[0] if merged else make, ok, "make() merges same-coloured neighbours first" if ok else "make() does not pass its argument through _merge_chunks")
    st_ch = [s for s in make.body if isinstance(s, ast.Assign) and norm(s.targets[0]).endswith(".chunks")]
    st_len = [s for s in make.body if isinstance(s, ast.Assign) and norm(s.targets[0]).endswith(".scrlen")]
    ok = len(st_ch) == 1 and len(st_len) == 1 and norm(st_ch[0].value) == lst and merged and st_ch[0].lineno > merged[0].lineno and st_len[0].lineno > merged[0].lineno
    if ok:
        v = st_len[0].value
        ok = isinstance(v, ast.Call) and (call_name(v) == "calc_chunks_len" and norm(v.args[0]) == lst or
                                          (call_name(v) == "sum" and isinstance(v.args[0], ast.GeneratorExp) and norm(v.args[0].generators[0].iter) == lst
                                           and norm(v.args[0].elt) == f"len({norm(v.args[0].generators[0].target)}.text)" and not v.args[0].generators[0].ifs))
    cx.ob("R08c", st_len[0] if st_len else make, ok, "chunks is the merged list and scrlen is computed from that same list" if ok else "scrlen / chunks are not both derived from the merged list")
    rets = [r for r in walk_local(make) if isinstance(r, ast.Return)]
    ok = len(rets) == 1 and st_ch and norm(rets[0].value) == norm(st_ch[0].targets[0]).rsplit(".", 1)[0]
    cx.ob("R08c", rets[0] if rets else make, ok, "the object that was filled is returned" if ok else "make() returns another object")
    # _merge_chunks: pending chunk flushed after the loop; loop alternates append / merge
    loops = [l for l in merge.body if isinstance(l, ast.For)]
    ok = len(loops) == 1
    if ok:
        l = loops[0]
        after = merge.body[merge.body.index(l) + 1:]
        cur = next((norm(s.targets[0]) for s in merge.body if isinstance(s, ast.Assign) and norm(s.value).endswith("[0]")), None)
        ok = cur is not None and any(isinstance(s, ast.Expr) and norm(s.value).endswith(f".append({cur})") for s in after) and norm(l.iter).endswith("[1:]")
        ifs = [s for s in l.body if isinstance(s, ast.If)]
        ok = ok and len(ifs) == 1 and "has_same_type" in norm(ifs[0].test)
        if ok:
            neg = isinstance(ifs[0].test, ast.UnaryOp)
            diff, same = (ifs[0].body, ifs[0].orelse) if neg else (ifs[0].orelse, ifs[0].body)
            ok = any(norm(s).endswith(f".append({cur})") for s in diff) and any(norm(s) == f"{cur} = {norm(l.target)}" for s in diff) and \
                any(isinstance(s, ast.Assign) and norm(s.targets[0]) == cur and "add_chunks_same_type" in norm(s.value) for s in same)
    cx.ob("R08c", merge, ok, "_merge_chunks: differing neighbour -> flush and restart, same type -> merge, last pending chunk flushed" if ok else "_merge_chunks structure altered (a chunk may be lost or left unmerged)")

    # ------------------------------------------------------------------ R08d
    cx.guard(_r08d, cx, repo, cht)
    # ------------------------------------------------------------------ R08e
    cx.guard(_r08e, cx, repo, cht, chunk)
    cx.guard(_r08f, cx, repo, cht)
    cx.guard(make_ownership, cx, repo, "R08g")
    cx.guard(_r08h, cx, repo, cht)
    cx.guard(_r08i, cx, repo, cht, chunk)
    cx.guard(_r08j, cx, repo, cht)


def make_ownership(cx, repo, rule):
    """CHText.make(L) may keep L itself as the text's chunk list (_merge_chunks returns its argument when nothing merges).
    So after `CHText.make(L)` the list L must not be mutated in place while the text may still be alive: from the call no
    in-place mutation of L is reachable in the CFG without first re-binding L."""
    from sa.cfg import CFG
    n = 0
    for m in repo.modules.values():
        for f in [x for x in ast.walk(m.tree) if isinstance(x, FUNC)]:
            calls = [c for c in walk_local(f) if isinstance(c, ast.Call) and dotted(c.func) in ("CHText.make", "cls.make") and len(c.args) == 1 and isinstance(c.args[0], ast.Name)]
            if not calls:
                continue
            g = None
            for c in calls:
                L = c.args[0].id
                muts, rebinds = [], []
                for x in walk_local(f):
                    if isinstance(x, ast.Call) and isinstance(x.func, ast.Attribute) and is_name(x.func.value, L) and x.func.attr in MUTATORS:
                        muts.append(enclosing_stmt(x))
                    elif isinstance(x, ast.Subscript) and isinstance(x.ctx, (ast.Store, ast.Del)) and is_name(x.value, L):
                        muts.append(enclosing_stmt(x))
                    elif isinstance(x, ast.AugAssign) and is_name(x.target, L):
                        muts.append(x)
                    elif isinstance(x, ast.Assign) and any(is_name(t, L) for t in x.targets):
                        rebinds.append(x)
                n += 1
                if not muts:
                    cx.ob(rule, c, True, f"`{L}` is not mutated in place in this function")
                    continue
                g = g or CFG(f)
                start = g.node_of(enclosing_stmt(c))
                mids = {g.node_of(s).id for s in muts if g.node_of(s) is not None}
                rids = {g.node_of(s).id for s in rebinds if g.node_of(s) is not None}
                path = g.reach_avoiding(start, mids, rids, follow_raise=False) if start is not None else None
                cx.ob(rule, c, path is None, f"after make({L}) the list is re-bound before any further in-place change" if path is None else
                      f"`{L}` is mutated in place at line {getattr(path[-1].ast, 'lineno', '?')} after being handed to CHText.make: when nothing merges the text keeps that very list, "
                      f"so a text already returned / yielded changes under its consumer")
    cx.at_least(rule, "CHText.make(<name>) call sites", n, 4)


class _Wrap:
    """Lets _mutations_of look at one statement (walk_local iterates children)."""

    def __init__(self, st):
        self._fields = ("body",)
        self.body = [st]

    def __iter__(self):
        return iter(())


def _self_mutators(repo, cls, attr):
    """Names of methods of cls that (transitively, through self.<m>() calls and `self += x`) mutate self.<attr>."""
    direct = set()
    meths = {f.name: f for f in cls.body if isinstance(f, FUNC)}
    for nm, f in meths.items():
        if any(a == attr and isinstance(getattr(n, "value", None) if not isinstance(n, ast.Call) else n.func.value, ast.AST) for n, a, h in _mutations_of(f, (attr,))):
            for n, a, h in _mutations_of(f, (attr,)):
                base = n.value if isinstance(n, ast.Attribute) else (n.value.value if isinstance(n, ast.Subscript) else n.func.value.value)
                if is_name(base, "self"):
                    direct.add(nm)
    changed = True
    while changed:
        changed = False
        for nm, f in meths.items():
            if nm in direct:
                continue
            for n in walk_local(f):
                if isinstance(n, ast.Call) and isinstance(n.func, ast.Attribute) and is_name(n.func.value, "self") and n.func.attr in direct:
                    direct.add(nm)
                    changed = True
                if isinstance(n, ast.AugAssign) and is_name(n.target, "self") and "__iadd__" in direct:
                    direct.add(nm)
                    changed = True
    return direct


def _r08d(cx, repo, cht):
    n = 0
    for m in repo.modules.values():
        for cls in [c for c in ast.walk(m.tree) if isinstance(c, ast.ClassDef)]:
            attrs = set()
            for f in [x for x in cls.body if isinstance(x, FUNC)]:
                for node, a, h in _mutations_of(f, None) if False else []:
                    pass
            # container attributes of this class that some method mutates in place
            for f in [x for x in cls.body if isinstance(x, FUNC)]:
                for nn in walk_local(f):
                    if isinstance(nn, ast.Call) and isinstance(nn.func, ast.Attribute) and nn.func.attr in MUTATORS and is_self_attr(nn.func.value):
                        attrs.add(nn.func.value.attr)
                    if isinstance(nn, ast.Subscript) and isinstance(nn.ctx, ast.Store) and is_self_attr(nn.value):
                        attrs.add(nn.value.attr)
            for attr in attrs:
                muts = _self_mutators(repo, cls, attr)
                for f in [x for x in cls.body if isinstance(x, FUNC)]:
                    ps = params(f)[1:]
                    for loop in [l for l in walk_local(f) if isinstance(l, ast.For)]:
                        it = loop.iter
                        if not (isinstance(it, ast.Attribute) and it.attr == attr and isinstance(it.value, ast.Name) and it.value.id in ps):
                            continue
                        other = it.value.id
                        grows = False
                        for x in ast.walk(loop):
                            if isinstance(x, ast.Call) and isinstance(x.func, ast.Attribute) and is_name(x.func.value, "self") and x.func.attr in muts:
                                grows = True
                            if isinstance(x, ast.AugAssign) and is_name(x.target, "self") and "__iadd__" in muts:
                                grows = True
                            if isinstance(x, ast.Call) and isinstance(x.func, ast.Attribute) and x.func.attr in MUTATORS and is_self_attr(x.func.value, attr):
                                grows = True
                        if not grows:
                            continue
                        n += 1
                        distinct = any(isinstance(e, ast.Compare) and isinstance(e.ops[0], ast.IsNot) and pol and {norm(e.left), norm(e.comparators[0])} == {other, "self"} for e, pol in facts(loop)) or \
                            any(isinstance(e, ast.Compare) and isinstance(e.ops[0], ast.Is) and not pol and {norm(e.left), norm(e.comparators[0])} == {other, "self"} for e, pol in facts(loop))
                        cx.ob("R08d", loop, distinct, f"`{other} is not self` is known here" if distinct else
                              f"the loop iterates {other}.{attr} while its body grows self.{attr}; with {other} is self (e.g. `t += t`) it never terminates / sees its own additions")
    # the fixed idiom (iteration over a copy) is counted as a discharged instance
    for f in [x for x in cht.body if isinstance(x, FUNC)]:
        for loop in [l for l in walk_local(f) if isinstance(l, ast.For)]:
            it = loop.iter
            inner = None
            if isinstance(it, ast.Name):
                d = [v for _, v in assignments(f, it.id) if v is not None]
                it = d[0] if len(d) == 1 else it
            if isinstance(it, ast.Call) and call_name(it) in ("list", "tuple") and len(it.args) == 1:
                inner = it.args[0]
            elif isinstance(it, ast.Call) and isinstance(it.func, ast.Attribute) and it.func.attr == "copy":
                inner = it.func.value
            elif isinstance(it, ast.Subscript) and isinstance(it.slice, ast.Slice):
                inner = it.value
            if isinstance(inner, ast.Attribute) and inner.attr == "chunks" and isinstance(inner.value, ast.Name) and inner.value.id in params(f)[1:]:
                n += 1
                cx.ob("R08d", loop, True, "iterates a copy of the other text's chunk list")
    cx.at_least("R08d", "loops over another object's container that grow self", n, 1)


def _r08f(cx, repo, cht):
    """CHText is mutable (+=, _append_chunk).  An operation that is not in-place by definition must not return `self` or an
    argument: `h = t + ""; h += "x"` would otherwise change t (the str model rebinds h only)."""
    n = 0
    classes = [cht]
    if repo.has("ak/ppobj.py", "CHTextResult"):
        classes.append(repo.cls("ak/ppobj.py", "CHTextResult"))
    for cls in classes:
        for f in [x for x in cls.body if isinstance(x, FUNC)]:
            if f.name in ("__iadd__", "__init__", "_append_chunk", "make") or f.name.startswith("_") and not f.name.startswith("__"):
                continue
            if cls is not cht and f.name not in ("__add__", "__radd__", "__getitem__", "fixed_len", "get_ch_text"):
                continue
            if cls is cht and f.name not in ("__add__", "__radd__", "join", "__getitem__", "fixed_len"):
                continue
            ps = set(params(f))
            for r in [x for x in walk_local(f) if isinstance(x, ast.Return) and x.value is not None]:
                n += 1
                v = r.value
                alias = None
                if isinstance(v, ast.Name) and v.id in ps and not [d for d in assignments(f, v.id)]:
                    alias = v.id
                if isinstance(v, ast.Attribute) and is_self_attr(v, "_ch_text"):
                    alias = "self._ch_text"
                cx.ob("R08f", r, alias is None, f"{cls.name}.{f.name} returns a new object" if alias is None else
                      f"{cls.name}.{f.name} returns `{alias}` itself: a later `+=` on the result also changes the operand (the result must not alias it)")
    cx.at_least("R08f", "returns of non-in-place operations", n, 10)


def _r08e(cx, repo, cht, chunk):
    ops = {"CHText": ["__add__", "__radd__", "__iadd__", "join", "__getitem__", "fixed_len"],
           "_CHTextChunk": ["__add__", "__radd__", "__iadd__", "join", "__getitem__", "fixed_len", "clone", "add_chunks_same_type", "make_plain"]}
    n = 0
    for cls in (cht, chunk):
        for nm in ops[cls.name]:
            f = repo.method(cls, nm)
            if f is None:
                cx.need(False, "R08e", f"{REL}::{cls.name}.{nm}", "public operation vanished")
            for r in [x for x in walk_local(f) if isinstance(x, ast.Return)]:
                n += 1
                ok, why = _through_funnel(r.value, f)
                cx.ob("R08e", r, ok, f"{cls.name}.{nm}: {why}" if ok else f"{cls.name}.{nm} returns `{norm(r.value)[:60]}`: not built by the constructors / make / another public operation")
    cx.at_least("R08e", "return sites of public operations", n, 18)


CTORS = ("CHText", "type(self)", "cls", "CHText.make", "_CHTextChunk", "self.Chunk", "cls.Chunk")


def _through_funnel(v, f, depth=0):
    if v is None or depth > 4:
        return False, ""
    if isinstance(v, ast.Name):
        if v.id == "self":
            return True, "returns self (canonical; freshness is judged by R08f)"
        defs = [x for _, x in assignments(f, v.id)]
        real = [x for x in defs if x is not None]
        if real and all(_through_funnel(x, f, depth + 1)[0] for x in real):
            return True, "returns a local built through the funnel"
        return False, ""
    if isinstance(v, ast.Call):
        fn = norm(v.func)
        if fn in CTORS:
            return True, f"built by {fn}(...)"
        if isinstance(v.func, ast.Attribute) and v.func.attr in ("join", "clone", "fixed_len", "__format__", "__getitem__") :
            return True, f"delegates to .{v.func.attr}()"
        return False, ""
    if isinstance(v, ast.BinOp) and isinstance(v.op, ast.Add):
        return True, "delegates to + of texts"
    if isinstance(v, ast.Subscript):
        return True, "delegates to slicing"
    return False, ""


# ---------------------------------------------------------------------- R08h: index / slice / fixed_len / format arithmetic
def _r08h(cx, repo, cht):
    """Relational abstract interpretation (sa/textint.py) of CHText.__getitem__ (with _get_chunk_pos inlined), fixed_len and
    the padding part of __format__ against the behaviour of str: which characters of the visible text T, in which order and
    colour, the result shows.  Every abstract path is compared with every case of the specification that is feasible with it;
    a path on which the result is not proved equal is reported with a sample of the inputs."""
    from sa.textint import (TextInterp, State, Int, NONE, SELF, SliceV, Opaque, Const, Text, Unsupported, N, slice_spec,
                            normalise_text, same_text, witness)
    from sa.fm import Lin, lin, ge, gt, le, lt, eq
    cx.rule("R08h", "index / slice / fixed_len / format padding show exactly the characters str would, in their colours")
    methods = {f.name: f for f in cht.body if isinstance(f, FUNC)}
    for nm in ("__getitem__", "_get_chunk_pos", "fixed_len", "__format__"):
        cx.need(nm in methods, "R08h", cht, f"method {nm}")
    it = TextInterp(methods)

    def parts_of(v):
        if isinstance(v, Text):
            return list(v.parts)
        return it._text_parts(v)

    def judge(func, label, outs, spec_cases, names):
        """spec_cases: [(description, [constraints], ('text', parts) | ('raise', name))]"""
        n_pairs = 0
        for desc, cons, want in spec_cases:
            bad = None
            covered = False
            for o in outs:
                s = o.st.assume(*cons)
                if not it.feasible(s):
                    continue
                covered = True
                n_pairs += 1
                line = getattr(o.node, "lineno", func.lineno)
                if o.how == "alarm":
                    bad = f"line {line}: {o.value}"
                elif want[0] == "raise":
                    if not (o.how == "raise" and o.value == want[1]):
                        bad = f"line {line}: {'returns ' + repr(o.value) if o.how == 'return' else 'raises ' + str(o.value) if o.how == 'raise' else o.how} where {want[1]} must be raised"
                else:
                    if o.how != "return":
                        bad = f"line {line}: {o.how} {o.value if o.how == 'raise' else ''} where a text must be returned"
                    else:
                        got = parts_of(o.value)
                        if got is None:
                            bad = f"line {line}: returns {o.value!r}, not a text built from the receiver"
                        else:
                            if not same_text(it, got, want[1], s):
                                bad = f"line {line}: shows {_show(got)} where str gives {_show(want[1])}"
                if bad:
                    bad += f"; e.g. {witness(it, s, names)}"
                    break
            cx.ob("R08h", func, bad is None, f"{label}, {desc}: as str" if bad is None else f"{label}, {desc}: {bad}", stmt=f"{label} [{desc}]")
        return n_pairs

    def _show(parts):
        return "[" + ", ".join(f"T[{p[1]}:{p[2]}]" if p[0] == "cov" else f"{p[0]} x ({p[1]})" for p in parts) + "]" if parts else "''"

    total = 0
    from sa.textint import K as K_

    def run(body, env, facts=()):
        # a text is either empty (no chunks, no characters) or has at least one chunk and one character
        outs = []
        for shape in ([eq(N, 0), eq(K_, 0)], [ge(N, 1), ge(K_, 1)]):
            outs.extend(it.run(body, State(env, list(facts) + shape)))
        return outs
    try:
        gi = methods["__getitem__"]
        ix = params(gi)[1]
        # ---- integer index
        i = Lin.var("i")
        outs = run(gi.body, {ix: Int(i)})
        total += judge(gi, "text[i]", outs, [
            ("0 <= i < n", [ge(i, 0), lt(i, N)], ("text", [("cov", i, i + 1)])),
            ("-n <= i < 0", [lt(i, 0), ge(i + N, 0)], ("text", [("cov", i + N, i + N + 1)])),
            ("i >= n", [ge(i, N)], ("raise", "IndexError")),
            ("i < -n", [lt(i + N, 0)], ("raise", "IndexError")),
        ], {"i", "n", "k"})
        # ---- slices
        a, b = Lin.var("a"), Lin.var("b")
        for la, va in (("", NONE), ("a", Int(a))):
            for lb, vb in (("", NONE), ("b", Int(b))):
                outs = run(gi.body, {ix: SliceV(va, vb, NONE)})
                cases = []
                for (lo, hi), s in slice_spec(it, va, vb, State({}, [])):
                    cons = list(s.facts)
                    desc = " and ".join(str(c) for c in cons[:4]).replace(" <= 0", "<=0") or "all"
                    cases.append((desc, cons, ("text", [("cov", lo, hi)] if lo is not None else [])))
                total += judge(gi, f"text[{la}:{lb}]", outs, cases, {"a", "b", "n", "k"})
        outs = run(gi.body, {ix: SliceV(NONE, NONE, Int(Lin.var("step")))})
        total += judge(gi, "text[::step]", outs, [("any step", [], ("raise", "ValueError"))], {"n"})
        # ---- fixed_len
        fl = methods["fixed_len"]
        d = Lin.var("d")
        outs = run(fl.body, {params(fl)[1]: Int(d)}, [ge(d, 0)])
        total += judge(fl, "fixed_len(d)", outs, [
            ("0 <= d <= n", [ge(d, 0), le(d, N)], ("text", [("cov", lin(0), d)])),
            ("d > n", [gt(d, N)], ("text", [("cov", lin(0), N), ("pad", d - N)])),
        ], {"d", "n", "k"})
        # ---- format: padding once fill / align / width are known
        fm_ = methods["__format__"]
        start = next((k for k, s in enumerate(fm_.body) if isinstance(s, ast.Assign) and is_name(s.targets[0], "filler_width")), None)
        cx.need(start is not None, "R08h", fm_, "padding part of __format__ (assignment of filler_width)")
        used = {x.id for s in fm_.body[start:] for x in ast.walk(s) if isinstance(x, ast.Name) and isinstance(x.ctx, ast.Load)} - {"self", "str", "max", "min"}
        cx.need(used <= {"width", "align_char", "filler_ch", "filler_width", "prefix_width", "suffix_width"}, "R08h", fm_, f"padding part reads {sorted(used)}")
        w = Lin.var("w")
        for ch in "<>^":
            outs = run(fm_.body[start:], {"width": Int(w), "align_char": Const(ch), "filler_ch": Opaque("F")})
            t = w - N
            q, _ = it.floordiv(t, 2, State())
            body = ("cov", lin(0), N)
            want = {"<": [body, ("fill:F", t)], ">": [("fill:F", t), body], "^": [("fill:F", q.l), body, ("fill:F", t - q.l)]}[ch]
            total += judge(fm_, f"format(text, 'F{ch}w')", outs, [
                ("w <= n", [le(w, N)], ("text", [body])),
                ("w > n", [gt(w, N), le(q.l * 2, t), le(t, q.l * 2 + 1)], ("text", want)),
            ], {"w", "n"})
    except Unsupported as u:
        raise AnalysisError("R08h", f"{REL}::CHText", f"arithmetic not decided: {u}")
    cx.counts["R08h:abstract path x specification case pairs"] = total
    cx.counts["R08h:linear-arithmetic queries"] = it.stats["fm_queries"]
    cx.counts["R08h:loops / invariant candidates / invariants kept"] = [it.stats["loops"], it.stats["candidates"], it.stats["invariants"]]
    cx.counts["R08h:loop invariants (equalities)"] = {str(k): v for k, v in it.invariants}
    cx.at_least("R08h", "path x case pairs compared", total, 30)


# ---------------------------------------------------------------------- R08i: equality
def _r08i(cx, repo, cht, chunk):
    """Equality, given the canonical form decided by R08a-c (no empty chunk, neighbours differ in colour): two texts show
    the same characters in the same colours iff their chunk lists are pairwise equal; a text shows only default-coloured
    characters iff it is empty or a single plain chunk.  The __eq__ methods are interpreted over the finite partitions below
    (values are touched only through len() == / != small constants, truthiness, ==, is_plain())."""
    from sa.finite import Interp, C, K, TOP
    cx.rule("R08i", "== : same characters in the same colours <=> equal; default-coloured text == plain str")
    ceq = repo.method(chunk, "__eq__")
    teq = repo.method(cht, "__eq__")
    cx.need(ceq is not None and teq is not None, "R08i", cht, "__eq__ of CHText and of its chunk class")

    class _I(Interp):
        def __init__(self, facts):
            super().__init__()
            self.f = facts

        def test(self, t, env):
            key = norm(t)
            if key in self.f:
                return [(self.f[key], env)]
            if isinstance(t, ast.Compare) and len(t.ops) == 1 and isinstance(t.ops[0], (ast.Eq, ast.NotEq, ast.Is, ast.IsNot, ast.Gt, ast.Lt, ast.GtE, ast.LtE)):
                l, r = norm(t.left), norm(t.comparators[0])
                for a, b in ((l, r), (r, l)):
                    k2 = f"{a} == {b}"
                    if k2 in self.f and isinstance(t.ops[0], (ast.Eq, ast.NotEq)):
                        v = self.f[k2]
                        return [(v if isinstance(t.ops[0], ast.Eq) else not v, env)]
                # len(x) against a constant
                for side, other_, flip in ((t.left, t.comparators[0], False), (t.comparators[0], t.left, True)):
                    if isinstance(side, ast.Call) and call_name(side) == "len" and f"#{norm(side.args[0])}" in self.f and isinstance(other_, ast.Constant) and isinstance(other_.value, int):
                        n, c = self.f[f"#{norm(side.args[0])}"], other_.value      # n in 0, 1, 2 (2 = two or more)
                        op = type(t.ops[0])
                        if flip:
                            op = {ast.Gt: ast.Lt, ast.Lt: ast.Gt, ast.GtE: ast.LtE, ast.LtE: ast.GtE}.get(op, op)
                        if c > 2 or c < 0:
                            raise AnalysisError("R08i", norm(t), "length compared with a constant outside 0..2")
                        if n == 2 and c == 2 and op in (ast.Eq, ast.NotEq, ast.Gt, ast.LtE):
                            raise AnalysisError("R08i", norm(t), "cannot decide len >= 2 against 2")
                        res = {ast.Eq: n == c, ast.NotEq: n != c, ast.Gt: n > c, ast.Lt: n < c, ast.GtE: n >= c, ast.LtE: n <= c}.get(op)
                        if res is not None:
                            return [(res, env)]
                if isinstance(t.left, ast.Call) and call_name(t.left) == "len" and isinstance(t.comparators[0], ast.Call) and call_name(t.comparators[0]) == "len":
                    k2 = "len equal"
                    if k2 in self.f and isinstance(t.ops[0], (ast.Eq, ast.NotEq)):
                        return [(self.f[k2] if isinstance(t.ops[0], ast.Eq) else not self.f[k2], env)]
            if isinstance(t, ast.Call) and call_name(t) == "isinstance":
                k2 = f"isinstance({norm(t.args[0])}, {norm(t.args[1])})"
                if k2 in self.f:
                    return [(self.f[k2], env)]
            if isinstance(t, ast.Call) and call_name(t) == "all" and "all pairs equal" in self.f and len(t.args) == 1 and isinstance(t.args[0], ast.GeneratorExp):
                g = t.args[0]
                ok = len(g.generators) == 1 and not g.generators[0].ifs and norm(g.generators[0].iter) in ("zip(self.chunks, other.chunks)", "zip(other.chunks, self.chunks)") \
                    and isinstance(g.elt, ast.Compare) and len(g.elt.ops) == 1 and isinstance(g.elt.ops[0], ast.Eq) \
                    and {norm(g.elt.left), norm(g.elt.comparators[0])} == {norm(x) for x in g.generators[0].target.elts}
                if not ok:
                    raise AnalysisError("R08i", norm(t)[:60], "pairwise comparison not recognised")
                return [(self.f["all pairs equal"], env)]
            if isinstance(t, (ast.Name, ast.Attribute)) and f"?{key}" in self.f:
                return [(self.f[f"?{key}"], env)]
            if isinstance(t, ast.Call) and key in self.f:
                return [(self.f[key], env)]
            return super().test(t, env)

        def ev(self, e, env):
            if isinstance(e, (ast.Compare, ast.BoolOp, ast.Call)) or isinstance(e, ast.UnaryOp) and isinstance(e.op, ast.Not):
                try:
                    ts = {tv for tv, _ in self.test(e, env)}
                    if len(ts) == 1:
                        return C(ts.pop())
                except AnalysisError:
                    raise
            return super().ev(e, env)

    def result(func, facts, label):
        it = _I(facts)
        outs = it.run(func.body, {})
        res = set()
        for o in outs:
            if o.how == "return" and isinstance(o.value, C) and isinstance(o.value.v, bool):
                res.add(o.value.v)
            elif o.how == "return" and norm(getattr(o.node, "value", None) or ast.Constant(value=None)) == "NotImplemented":
                res.add("NotImplemented")
            else:
                raise AnalysisError("R08i", f"{REL}::{func.name}", f"{label}: result not decided ({o.how} {o.value!r})")
        return res

    n = 0
    # ---- chunk == chunk
    for pf in (True, False):
        for tx in (True, False):
            for sf in (True, False):
                facts = {"self is other": False, "isinstance(other, type(self))": True, "self.c_prefix == other.c_prefix": pf, "self.text == other.text": tx, "self.c_suffix == other.c_suffix": sf}
                want = pf and tx and sf
                got = result(ceq, facts, "chunk == chunk")
                n += 1
                cx.ob("R08i", ceq, got == {want}, f"chunk == chunk (colour {'same' if pf and sf else 'differs'}, text {'same' if tx else 'differs'}): {want}" if got == {want} else
                      f"chunks with prefix-equal={pf}, text-equal={tx}, suffix-equal={sf} compare {sorted(map(str, got))}, must be {want}", stmt=f"chunk eq {pf}/{tx}/{sf}")
    # ---- text == text
    for same_len in (True, False):
        for pairs in (True, False):      # `pairs`: the chunks zip() pairs up are all equal (with different counts: a proper prefix)
            facts = {"self is other": False, "isinstance(other, type(self))": True, "len equal": same_len, "all pairs equal": pairs}
            want = same_len and pairs
            got = result(teq, facts, "text == text")
            n += 1
            cx.ob("R08i", teq, got == {want}, f"text == text (chunk counts {'equal' if same_len else 'differ'}, chunks pairwise {'equal' if pairs else 'different'}): {want}" if got == {want} else
                  f"texts with equal chunk counts={same_len}, pairwise equal chunks={pairs} compare {sorted(map(str, got))}, must be {want}", stmt=f"text eq {same_len}/{pairs}")
    # ---- text == str
    first = "self.chunks[0]"
    pvars = [norm(st.targets[0]) for st in teq.body[-1:] if False]
    for nch in (0, 1, 2):
        for plain in ((True, False) if nch == 1 else (None,)):
            for other_empty in (True, False):
                for same_text in ((True, False) if nch == 1 else (None,)):
                    if nch == 1 and same_text and other_empty:
                        continue        # a chunk never has empty text
                    facts = {"self is other": False, "isinstance(other, type(self))": False, "isinstance(other, str)": True, "#self.chunks": nch,
                             "?self.chunks": nch > 0, "?other": not other_empty}
                    for pv in ("p", first):
                        if plain is not None:
                            facts[f"{pv}.is_plain()"] = plain
                        if same_text is not None:
                            facts[f"{pv}.text == other"] = same_text
                    want = (nch == 0 and other_empty) or (nch == 1 and bool(plain) and bool(same_text))
                    got = result(teq, facts, "text == str")
                    n += 1
                    lab = f"{['no', 'one', 'several'][nch]} chunk(s)" + (f", {'plain' if plain else 'coloured'}, text {'==' if same_text else '!='} str" if nch == 1 else "") + f", str {'empty' if other_empty else 'not empty'}"
                    cx.ob("R08i", teq, got == {want}, f"text == str ({lab}): {want}" if got == {want} else f"text == str ({lab}) gives {sorted(map(str, got))}, must be {want}", stmt=f"text eq str {lab}")
    cx.at_least("R08i", "abstract cases", n, 20)


# ----------------------------------------------------------------------------------------------- R08j
def _r08j(cx, repo, cht):
    """CHText.join: the result is item_0, then (separator, item_k) for every further item - whatever the items contain (an
    empty first item is still followed by a separator, as for str.join).  Event language of the loop: ITEM (SEP ITEM)*, decided on
    the product of the CFG with the first-iteration flag (a boolean local or the index of enumerate); a test the engine cannot
    evaluate - e.g. on the accumulated text - is explored both ways."""
    cx.rule("R08j", "join: one separator between consecutive items, independent of their contents")
    join = repo.method(cht, "join")
    cx.need(join is not None, "R08j", cht, "CHText.join")
    it_par = [p_ for p_ in params(join) if p_ != "self"]
    cx.need(len(it_par) == 1, "R08j", join, "one iterable parameter")
    loops = [l for l in walk_local(join) if isinstance(l, ast.For)]
    cx.need(len(loops) == 1, "R08j", join, "one loop over the items")
    lp = loops[0]
    tgt = lp.target.elts[1] if isinstance(lp.target, ast.Tuple) and len(lp.target.elts) == 2 and call_name(lp.iter) == "enumerate" else lp.target
    cx.need(isinstance(tgt, ast.Name), "R08j", lp, "item variable")
    src = lp.iter.args[0] if isinstance(lp.iter, ast.Call) and call_name(lp.iter) == "enumerate" and lp.iter.args else lp.iter
    ok = is_name(src, it_par[0])
    cx.ob("R08j", lp, ok, "every item of the iterable is visited, in order" if ok else f"the loop runs over {norm(lp.iter)}, not over the whole iterable")
    rets = [r for r in walk_local(join) if isinstance(r, ast.Return)]
    cx.need(len(rets) == 1 and isinstance(rets[0].value, ast.Name), "R08j", join, "one `return <result>`")
    res_name = rets[0].value.id

    def classify(st):
        if isinstance(st, ast.AugAssign) and isinstance(st.op, ast.Add) and is_name(st.target, res_name):
            if is_name(st.value, "self"):
                return "SEP"
            if is_name(st.value, tgt.id):
                return "ITEM"
            return "OTHER"
        if isinstance(st, ast.Assign) and any(is_name(t, res_name) for t in st.targets) and any(a is lp for a in ancestors(st)):
            return "OTHER"
        return None
    spec = {("q0", "ITEM"): "q1", ("q1", "SEP"): "q2", ("q2", "ITEM"): "q1"}
    res = events.check(join, classify, spec, "q0", {"q0", "q1"})
    if not res.violations and res.uncertain:
        # only along paths through a test on state the event engine does not track: a loss of precision, not a finding
        raise AnalysisError("R08j", f"{REL}::CHText.join", f"join language not decided: the only irregular paths go through a test on untracked state (line {res.uncertain[0][1][-1] if res.uncertain[0][1] else '?'}: {res.uncertain[0][0][:60]})")
    if not res.violations:
        cx.ob("R08j", join, True, f"join emits ITEM (SEP ITEM)* ({res.states} product states)", stmt="join language")
    for msg, pth in res.violations[:3]:
        cx.ob("R08j", join, False, f"{msg.replace('event SEP', 'a separator').replace('event ITEM', 'an item')}: the number / place of separators depends on something else than "
              f"the position of the item (str.join puts one between every two items, empty ones included); path through lines {pth[-8:]}", stmt="join language: " + msg[:48])
    cx.counts["R08j:join events"] = sum(res.letters.values())
