"""C13 — a table's reported format string reproduces the table (writer / reader agreement)."""
import ast

from sa.core import (AnalysisError, FUNC, assignments, call_name, class_attr, const, dotted, enclosing, enclosing_func,
                     enclosing_stmt, is_attr, is_name, is_self_attr, literal, norm, params, parent, walk_local, names_in)
from sa.guards import facts
from sa.symeval import SymEval, TS, SInt, Obj, PyExc, Undetermined, Rewrite

PROP = "C13"
REL = "ak/ppobj.py"
EXPLANATION = (
    "Writer/reader agreement decided by abstract interpretation over symbolic token strings (sa/symeval): atoms stand for all "
    "field names / modifiers (non-empty, punctuation-free) and all non-negative integers; split / find / slicing-by-found-"
    "position / strip / endswith / join / == / int() are evaluated exactly on token sequences or the run ends undecided. "
    "R13a: for each of the 16 column states (modifier or not, break-by or not, fixed or ranged width, negotiated width known or "
    "not) the text produced by ReprColumn.to_fmt_str is fed to _ColumnsParsedFmt._parse_col_fmt: it must parse, and field name, "
    "modifier, break-by, min and max must land in the slots they were written from. R13b: all construction sites of ReprColumn "
    "fed from parsed data, and clone, pass (modifier, break_by, min, max) to the parameters of the same role; the writer "
    "serialises every constructor attribute; column lists are joined and split on the same separator. R13c: for the 12 "
    "table-format states (lines skipped unknown/yes/no x limits both/one/none) PPTableFormat._get_fmt_str read back by "
    "_PPTableParsedFmt yields the same column section and limits (or the 'unchanged' / 'all' markers). R13d: an empty columns "
    "section clones the current columns and an absent limits section copies the current limits; set_fmt passes the current "
    "format as `other`. Re-negotiated widths equal to the previous ones is value-level and not decided."
)


def run(cx):
    repo = cx.repo
    for r, t in (("R13a", "column description: whatever the writer emits, the reader parses back into the same slots"),
                 ("R13b", "same slots at every ReprColumn construction site; writer covers all constructor attributes; same list separator"),
                 ("R13c", "table format: sections and limits written by _get_fmt_str are read back by _PPTableParsedFmt"),
                 ("R13d", "an empty / separators-only format changes nothing"),
                 ("R13e", "the 'lines were skipped' flag describes only the last rendering of *this* format object")):
        cx.rule(r, t)
    writer = cx.func(REL, "ReprColumn.to_fmt_str", "R13a")
    reader = cx.func(REL, "_ColumnsParsedFmt._parse_col_fmt", "R13a")
    rc_init = cx.func(REL, "ReprColumn.__init__", "R13b")
    t_writer = cx.func(REL, "PPTableFormat._get_fmt_str", "R13c")
    t_reader_init = cx.func(REL, "_PPTableParsedFmt.__init__", "R13c")
    t_split = cx.func(REL, "_PPTableParsedFmt._fmt_str_split", "R13c")
    t_lines = cx.func(REL, "_PPTableParsedFmt._parse_vis_lines_fmt", "R13c")
    cx.assume("field names and format modifiers contain none of the format's punctuation (: / ! < > ( ) - , ; *) and are not blank")

    cx.guard(_columns, cx, repo, writer, reader)
    cx.guard(_slots, cx, repo, rc_init, writer)
    cx.guard(_table, cx, repo, t_writer, t_reader_init, t_split, t_lines)
    cx.guard(_empty_format, cx, repo)
    cx.guard(_skipped_flag, cx, repo)


# ------------------------------------------------------------------------------------------ R13a
def _columns(cx, repo, writer, reader):
    pcls = cx.cls(REL, "_ColumnsParsedFmt._ParsedColFmt", "R13a")
    slots = class_attr(pcls, "__slots__")
    slot_names = list(literal(slots)) if slots is not None else []
    cx.need({"field_name", "fmt_modifier", "break_by", "min_w", "max_w"} <= set(slot_names), "R13a", pcls, f"parsed-column slots changed: {slot_names}")

    def resolver(node, recv, name, args, kwargs, env):
        if name == "_ParsedColFmt" and args is not None:
            return Obj("_ParsedColFmt", **{s: None for s in slot_names})
        return NotImplemented
    n = 0
    for has_mod in (False, True):
        for brk in (False, True):
            for ranged in (False, True):
                for has_w in (False, True):
                    n += 1
                    label = f"modifier={has_mod} break_by={brk} {'ranged' if ranged else 'fixed'} width={'known' if has_w else 'None'}"
                    col = Obj("ReprColumn", name=TS.atom("NAME", "name"), fmt_modifier=TS.atom("MOD", "mod") if has_mod else None, break_by=brk,
                              min_width=SInt("min"), max_width=SInt("max") if ranged else SInt("min"), width=SInt("w") if has_w else None)
                    ev = SymEval(repo)
                    try:
                        text = ev.call(writer, [], self_val=col)
                    except Rewrite as rw:
                        cx.ob("R13a", rw.node, False, f"the writer emits field names verbatim, but the reader rewrites them: {rw.detail}", stmt="reader rewrites names")
                        raise AnalysisError("R13a", "reader", "stopped after a rewriting reader was reported")
                    except Undetermined as u:
                        raise AnalysisError("R13a", f"{REL}::ReprColumn.to_fmt_str", f"writer not interpretable: {u}")
                    except PyExc as e:
                        cx.ob("R13a", writer, False, f"{label}: writer raises {e.name}", stmt=f"write {label}")
                        continue
                    if not isinstance(text, TS):
                        cx.ob("R13a", writer, False, f"{label}: writer returns {text!r}", stmt=f"write {label}")
                        continue
                    ev2 = SymEval(repo, resolver=resolver)
                    try:
                        res = ev2.call(reader, [text], self_val=Obj("_ColumnsParsedFmt"))
                    except Rewrite as rw:
                        cx.ob("R13a", rw.node, False, f"the writer emits field names verbatim, but the reader rewrites them: {rw.detail}; such a column is not found again "
                              "(setter: unknown field; constructor: another / missing column)", stmt="reader rewrites names")
                        continue
                    except Undetermined as u:
                        raise AnalysisError("R13a", f"{REL}::_ColumnsParsedFmt._parse_col_fmt", f"reader not interpretable on {text!r}: {u}")
                    except PyExc as e:
                        cx.ob("R13a", reader, False, f"{label}: the writer emits {text!r}; the reader raises {e.name} at line {getattr(e.node, 'lineno', '?')}",
                              stmt=f"roundtrip {label}")
                        continue
                    a = res.attrs if isinstance(res, Obj) else {}
                    want = {"field_name": TS.atom("NAME", "name"), "fmt_modifier": TS.atom("MOD", "mod") if has_mod else None, "break_by": brk,
                            "min_w": SInt("min"), "max_w": SInt("max") if ranged else SInt("min")}
                    bad = {k: (a.get(k), v) for k, v in want.items() if not _same(a.get(k), v)}
                    vp = a.get("value_path")
                    if vp is not None:
                        bad["value_path"] = (vp, None)
                    cx.ob("R13a", reader, not bad, f"{label}: {text!r} reads back into the same slots" if not bad else
                          f"{label}: {text!r} reads back with " + "; ".join(f"{k}={g!r} (written {w!r})" for k, (g, w) in bad.items()), stmt=f"roundtrip {label}")
    cx.counts["R13a:column states"] = n
    # reader robustness the property also names: hidden column marker and bare name
    ev = SymEval(repo, resolver=resolver)
    for label, text, want in (("bare name", TS.atom("NAME", "name"), {"field_name": TS.atom("NAME", "name"), "min_w": None, "max_w": None, "break_by": False}),
                              ("hidden (-1)", TS.atom("NAME", "name") + TS.lit(":-1"), {"field_name": TS.atom("NAME", "name"), "min_w": -1, "max_w": -1})):
        try:
            res = ev.call(reader, [text], self_val=Obj("_ColumnsParsedFmt"))
            bad = {k: res.attrs.get(k) for k, v in want.items() if not _same(res.attrs.get(k), v)}
            cx.ob("R13a", reader, not bad, f"{label}: parsed as expected" if not bad else f"{label}: parsed with {bad}", stmt=f"read {label}")
        except PyExc as e:
            cx.ob("R13a", reader, False, f"{label}: reader raises {e.name}", stmt=f"read {label}")
        except Rewrite as rw:
            cx.ob("R13a", rw.node, False, f"the writer emits field names verbatim, but the reader rewrites them: {rw.detail}", stmt="reader rewrites names")
            raise AnalysisError("R13a", "reader", "stopped after a rewriting reader was reported")
        except Undetermined as u:
            raise AnalysisError("R13a", f"{REL}::_ColumnsParsedFmt._parse_col_fmt", f"reader not interpretable on {label}: {u}")


def _same(a, b):
    if isinstance(a, bool) or isinstance(b, bool):
        return a is b
    return a == b and type(a) is type(b)


# ------------------------------------------------------------------------------------------ R13b
ROLE = {"fmt_modifier": "fmt_modifier", "break_by": "break_by", "min_w": "min_width", "max_w": "max_width", "min_width": "min_width", "max_width": "max_width", "field": "field"}


def _slots(cx, repo, rc_init, writer):
    ps = params(rc_init)[1:]
    cx.need(ps == ["field", "fmt_modifier", "break_by", "min_width", "max_width"], "R13b", rc_init, f"ReprColumn parameters changed: {ps}")
    sites = [c for m in repo.modules.values() for c in ast.walk(m.tree) if isinstance(c, ast.Call) and call_name(c) == "ReprColumn" and len(c.args) + len(c.keywords) > 1]
    cx.at_least("R13b", "ReprColumn construction sites with format slots", len(sites), 4)
    for c in sites:
        bound = {}
        for i, a in enumerate(c.args):
            bound[ps[i]] = a
        for k in c.keywords:
            bound[k.arg] = k.value
        wrong = []
        for p, a in bound.items():
            if p == "field":
                continue
            if isinstance(a, ast.Attribute):
                role = ROLE.get(a.attr)
                if role is None and a.attr in ("min_width", "max_width") and "field_type" in norm(a):
                    role = a.attr
                if role != p:
                    wrong.append(f"{p} <- {norm(a)}")
            elif isinstance(a, ast.Constant):
                okc = (p == "fmt_modifier" and a.value is None) or (p == "break_by" and a.value is False)
                if not okc:
                    wrong.append(f"{p} <- {a.value!r}")
            else:
                wrong.append(f"{p} <- {norm(a)}")
        cx.ob("R13b", c, not wrong, "every slot goes to the parameter of the same role" if not wrong else f"slots bound to the wrong parameters: {wrong}")
    # the constructor stores each parameter in the attribute the writer reads
    for p in ("fmt_modifier", "break_by"):
        st = [s for s in walk_local(rc_init) if isinstance(s, ast.Assign) and any(is_self_attr(t, p) for t in s.targets)]
        ok = len(st) == 1 and is_name(st[0].value, p)
        cx.ob("R13b", st[0] if st else rc_init, ok, f"self.{p} = {p}" if ok else f"self.{p} is not the {p} argument")
    for p in ("min_width", "max_width"):
        st = [s for s in walk_local(rc_init) if isinstance(s, ast.Assign) and any(is_self_attr(t, p) for t in s.targets)]
        ok = len(st) == 1 and isinstance(st[0].value, ast.IfExp) and is_name(st[0].value.body, p) and norm(st[0].value.test) == f"{p} is not None" and norm(st[0].value.orelse).endswith("." + p)
        cx.ob("R13b", st[0] if st else rc_init, ok, f"self.{p} = {p} (or the field type's default)" if ok else f"self.{p} is not taken from the {p} argument / the matching default")
    used = {a.attr for a in ast.walk(writer) if is_self_attr(a)}
    need = {"name", "fmt_modifier", "break_by", "min_width", "max_width"}
    cx.ob("R13b", writer, need <= used, "the writer serialises name, modifier, break-by, min and max" if need <= used else f"the writer omits {sorted(need - used)}")
    # list level: two symbolic columns written by ReprStructure._get_fmt_str and read by _parse_cols_fmt
    ws = cx.func(REL, "ReprStructure._get_fmt_str", "R13b")
    rs = cx.func(REL, "_ColumnsParsedFmt._parse_cols_fmt", "R13b")
    col_reader = cx.func(REL, "_ColumnsParsedFmt._parse_col_fmt", "R13b")
    pcls = cx.cls(REL, "_ColumnsParsedFmt._ParsedColFmt", "R13b")
    slot_names = list(literal(class_attr(pcls, "__slots__")))

    def resolver(node, recv, name, args, kwargs, env):
        if name == "to_fmt_str" and isinstance(recv, Obj):
            return SymEval(repo, resolver=resolver).call(writer, [], self_val=recv)
        if name == "_parse_col_fmt" and args is not None:
            return SymEval(repo, resolver=resolver).call(col_reader, args, self_val=Obj("_ColumnsParsedFmt"))
        if name == "_ParsedColFmt" and args is not None:
            return Obj("_ParsedColFmt", **{x: None for x in slot_names})
        return NotImplemented
    cols = [Obj("ReprColumn", name=TS.atom("NAME", f"n{i}"), fmt_modifier=None, break_by=False, min_width=SInt(f"a{i}"), max_width=SInt(f"b{i}"), width=SInt(f"w{i}")) for i in (1, 2, 3)]
    try:
        text = SymEval(repo, resolver=resolver).call(ws, [], self_val=Obj("ReprStructure", columns=cols))
        parsed = SymEval(repo, resolver=resolver).call(rs, [text], self_val=Obj("_ColumnsParsedFmt"))
        names = [p_.attrs.get("field_name") for p_ in parsed] if isinstance(parsed, list) else None
        ok = names == [TS.atom("NAME", f"n{i}") for i in (1, 2, 3)] and all(p_.attrs.get("min_w") == SInt(f"a{i}") and p_.attrs.get("max_w") == SInt(f"b{i}") for p_, i in zip(parsed, (1, 2, 3)))
        cx.ob("R13b", ws, ok, f"a three-column list {text!r} reads back as the same three columns in order" if ok else f"column list {text!r} reads back as {names!r}", stmt="column list roundtrip")
    except PyExc as e:
        cx.ob("R13b", ws, False, f"column list roundtrip raises {e.name}", stmt="column list roundtrip")
    except Rewrite as rw:
        cx.ob("R13a", rw.node, False, f"the writer emits field names verbatim, but the reader rewrites them: {rw.detail}", stmt="reader rewrites names")
        raise AnalysisError("R13a", "reader", "stopped after a rewriting reader was reported")
    except Undetermined as u:
        raise AnalysisError("R13b", f"{REL}::ReprStructure._get_fmt_str", f"list roundtrip not interpretable: {u}")
    # clone
    cl = cx.func(REL, "ReprColumn.clone", "R13b")
    rets = [r for r in walk_local(cl) if isinstance(r, ast.Return)]
    ok = len(rets) == 1 and isinstance(rets[0].value, ast.Call) and [norm(a) for a in rets[0].value.args] == ["self.field", "self.fmt_modifier", "self.break_by", "self.min_width", "self.max_width"]
    cx.ob("R13b", cl, ok, "clone copies field, modifier, break-by, min, max" if ok else "clone does not copy all five constructor attributes in order")


# ------------------------------------------------------------------------------------------ R13c
def _table(cx, repo, t_writer, t_reader_init, t_split, t_lines):
    def resolver(node, recv, name, args, kwargs, env):
        if name == "_ColumnsParsedFmt" and args is not None:
            return Obj("_ColumnsParsedFmt", src=args[0])
        if name == "_fmt_str_split" and args is not None:
            return SymEval(repo, resolver=resolver).call(t_split, args)
        if name == "_parse_vis_lines_fmt" and args is not None:
            return SymEval(repo, resolver=resolver).call(t_lines, args)
        return NotImplemented
    n = 0
    cols = TS.atom("COLS", "columns")
    for skipped in (None, True, False):
        for lim in (("a", "b"), (None, "b"), ("a", None), (None, None)):
            n += 1
            label = f"any_lines_skipped={skipped} limits=({lim[0]},{lim[1]})"
            fmt = Obj("PPTableFormat", repr_structure=Obj("ReprStructure"), any_lines_skipped=skipped,
                      limit_flines=SInt(lim[0]) if lim[0] else None, limit_llines=SInt(lim[1]) if lim[1] else None)

            def wres(node, recv, name, args, kwargs, env):
                return NotImplemented
            ev = SymEval(repo, resolver=wres)
            # str(self.repr_structure) -> the columns atom
            import sa.symeval as se
            orig = se.to_ts

            def to_ts(v, _o=orig):
                if isinstance(v, Obj) and v.cls == "ReprStructure":
                    return cols
                return _o(v)
            se.to_ts = to_ts
            try:
                text = ev.call(t_writer, [], self_val=fmt)
            except Rewrite as rw:
                cx.ob("R13a", rw.node, False, f"the writer emits field names verbatim, but the reader rewrites them: {rw.detail}", stmt="reader rewrites names")
                raise AnalysisError("R13a", "reader", "stopped after a rewriting reader was reported")
            except Undetermined as u:
                raise AnalysisError("R13c", f"{REL}::PPTableFormat._get_fmt_str", f"writer not interpretable: {u}")
            finally:
                se.to_ts = orig
            ev2 = SymEval(repo, resolver=resolver)
            me = Obj("_PPTableParsedFmt")
            try:
                ev2.call(t_reader_init, [text], self_val=me)
            except PyExc as e:
                cx.ob("R13c", t_reader_init, False, f"{label}: writer emits {text!r}; reader raises {e.name}", stmt=f"table roundtrip {label}")
                continue
            except Rewrite as rw:
                cx.ob("R13a", rw.node, False, f"the writer emits field names verbatim, but the reader rewrites them: {rw.detail}", stmt="reader rewrites names")
                raise AnalysisError("R13a", "reader", "stopped after a rewriting reader was reported")
            except Undetermined as u:
                raise AnalysisError("R13c", f"{REL}::_PPTableParsedFmt.__init__", f"reader not interpretable on {text!r}: {u}")
            got_cols = me.attrs.get("cols_parsed_fmt")
            okc = isinstance(got_cols, Obj) and got_cols.attrs.get("src") == cols
            vis = me.attrs.get("vis_lines")
            if skipped is False:
                want = None                       # section omitted: "keep the current limits"
            elif lim[0] and lim[1]:
                want = (SInt("a"), SInt("b"))
            else:
                want = (None, None)               # "*": show all, which is what a missing limit means when rendering
            okv = (vis is None and want is None) or (vis is not None and want is not None and tuple(vis) == want)
            cx.ob("R13c", t_reader_init, okc and okv, f"{label}: {text!r} -> columns section intact, limits {want!r}" if okc and okv else
                  f"{label}: {text!r} reads back as columns={got_cols!r} limits={vis!r}; expected limits {want!r}", stmt=f"table roundtrip {label}")
    cx.counts["R13c:table format states"] = n
    # separators-only strings
    for s in ("", ";", ";;"):
        ev2 = SymEval(repo, resolver=resolver)
        me = Obj("_PPTableParsedFmt")
        try:
            ev2.call(t_reader_init, [TS.lit(s)], self_val=me)
            src = me.attrs["cols_parsed_fmt"].attrs.get("src")
            ok = src == TS.lit("") and me.attrs.get("vis_lines") is None
            cx.ob("R13d", t_reader_init, ok, f"{s!r}: both sections read as 'unchanged'" if ok else f"{s!r}: reads as columns={src!r} limits={me.attrs.get('vis_lines')!r}", stmt=f"separators only {s!r}")
        except PyExc as e:
            cx.ob("R13d", t_reader_init, False, f"{s!r}: reader raises {e.name}", stmt=f"separators only {s!r}")
        except Rewrite as rw:
            cx.ob("R13a", rw.node, False, f"the writer emits field names verbatim, but the reader rewrites them: {rw.detail}", stmt="reader rewrites names")
            raise AnalysisError("R13a", "reader", "stopped after a rewriting reader was reported")
        except Undetermined as u:
            raise AnalysisError("R13d", f"{REL}::_PPTableParsedFmt.__init__", str(u))


# ------------------------------------------------------------------------------------------ R13d
def _empty_format(cx, repo):
    rs_set = cx.func(REL, "ReprStructure._set_parsed_fmt", "R13d")
    tf_set = cx.func(REL, "PPTableFormat._set_parsed_fmt", "R13d")
    set_fmt = cx.func(REL, "_PPTableImpl.set_fmt", "R13d")
    # columns == "" and other given -> clones of other's columns
    st = [s for s in walk_local(rs_set) if isinstance(s, ast.Assign) and is_name(s.targets[0], "columns") and isinstance(s.value, ast.ListComp)
          and isinstance(s.value.elt, ast.Call) and call_name(s.value.elt) == "clone"]
    if not st:
        # the same as a loop:  for c in other.columns: columns.append(c.clone())
        loops_ = [l for l in walk_local(rs_set) if isinstance(l, ast.For) and norm(l.iter) == "other.columns"]
        cx.need(not loops_ or len(loops_) > 1, "R13d", rs_set, "columns of the reference format are copied by a loop: form not analysed")
    ok = False
    if st:
        v = st[0].value
        ok = norm(v.elt) == f"{norm(v.generators[0].target)}.clone()" and norm(v.generators[0].iter) == "other.columns" and not v.generators[0].ifs
        from sa.guards import canon_facts
        fs = canon_facts(st[0])
        ok = ok and ("==", "''", "parsed_fmt.columns", True) in fs and ("is", "other", "None", False) in fs
    cx.ob("R13d", st[0] if st else rs_set, ok, "empty columns section: the current columns are cloned" if ok else "empty columns section does not clone every current column")
    # whatever the layout: the reference format's column objects themselves must not become columns of this object (column
    # objects carry negotiated widths): every use of other.columns that yields its elements yields clones
    for occ in [n for n in walk_local(rs_set) if isinstance(n, ast.Attribute) and n.attr == "columns" and is_name(n.value, "other")]:
        p_ = parent(occ)
        alias = None
        if isinstance(p_, ast.comprehension) and p_.iter is occ:
            comp_ = parent(p_)
            elt_ = getattr(comp_, "elt", None)
            tv_ = norm(p_.target)
            if elt_ is not None and norm(elt_) == tv_:
                alias = f"`{norm(comp_)[:60]}` copies the list but keeps the column objects"
        elif isinstance(p_, ast.Call) and occ in p_.args and isinstance(p_.func, ast.Name) and p_.func.id in ("list", "tuple", "sorted", "reversed"):
            alias = f"`{norm(p_)}` copies the list but keeps the column objects"
        elif isinstance(p_, ast.Call) and isinstance(p_.func, ast.Attribute) and p_.func.value is occ and p_.func.attr == "copy":
            alias = f"`{norm(p_)}` copies the list but keeps the column objects"
        elif isinstance(p_, ast.Subscript) and p_.value is occ and isinstance(p_.slice, ast.Slice):
            alias = f"`{norm(p_)}` copies the list but keeps the column objects"
        elif isinstance(p_, ast.Assign) and p_.value is occ:
            alias = f"`{norm(p_)[:60]}` takes the other format's list itself"
        elif isinstance(p_, ast.Call) and occ in p_.args and isinstance(p_.func, ast.Attribute) and p_.func.attr == "extend":
            alias = f"`{norm(p_)[:60]}` adds the other format's column objects"
        elif isinstance(p_, ast.Starred) or (isinstance(p_, ast.BinOp) and isinstance(p_.op, ast.Add)):
            alias = f"`{norm(parent(p_))[:60]}` splices the other format's column objects in"
        if alias:
            cx.ob("R13d", occ, False, alias + ": the new format shares ReprColumn objects with the format it was derived from - widths negotiated for one table show up in the other, "
                  "and the serialised fmt of either changes when the other is printed", stmt=norm(enclosing_stmt(occ))[:70] + " [aliasing]", semantic=True)
    fin = [s for s in rs_set.body if isinstance(s, ast.Assign) and any(is_self_attr(t, "columns") for t in s.targets)]
    ok = len(fin) == 1 and is_name(fin[0].value, "columns") and fin[0] is rs_set.body[-1]
    cx.ob("R13d", fin[0] if fin else rs_set, ok, "the new column list is installed" if ok else "self.columns is not set from the computed list at the end")
    # limits
    # (single assignments or one tuple assignment; the test may go through a local alias of parsed_fmt.vis_lines)
    a, copied = [], set()
    for s_ in walk_local(tf_set):
        if not isinstance(s_, ast.Assign):
            continue
        for t in s_.targets:
            if is_self_attr(t, ("limit_flines", "limit_llines")):
                a.append(s_)
                copied.add((norm(t), norm(s_.value)))
            elif isinstance(t, (ast.Tuple, ast.List)) and isinstance(s_.value, (ast.Tuple, ast.List)) and len(t.elts) == len(s_.value.elts):
                for x_, y_ in zip(t.elts, s_.value.elts):
                    if is_self_attr(x_, ("limit_flines", "limit_llines")):
                        a.append(s_)
                        copied.add((norm(x_), norm(y_)))
    ok = copied == {("self.limit_flines", "other.limit_flines"), ("self.limit_llines", "other.limit_llines")}
    if ok:
        from sa.guards import canon_fact, facts as _facts
        fs = {canon_fact(e_, p_) for e_, p_ in _facts(a[0], expand_tests=True)}
        ok = ("is", "parsed_fmt.vis_lines", "None", True) in fs and ("is", "other", "None", False) in fs
    cx.ob("R13d", a[0] if a else tf_set, ok, "absent limits section: the current limits are kept" if ok else "absent limits section does not copy both current limits")
    from sa.guards import xnorm_at as _xn, canon_fact as _cfa, facts as _fa
    # the limits handed over: parsed_fmt.vis_lines itself (set_limits ignores None), possibly through a local alias or as
    # `<limits> or <default>` (a limits pair is a non-empty tuple: truthy whenever given)
    def _given(c_):
        a_ = c_.args[0]
        if isinstance(a_, ast.BoolOp) and isinstance(a_.op, ast.Or):
            a_ = a_.values[0]
        return _xn(a_, c_) == "parsed_fmt.vis_lines"
    sl = [c for c in walk_local(tf_set) if isinstance(c, ast.Call) and call_name(c) == "set_limits" and c.args and _given(c)]
    ok = len(sl) == 1
    if ok:
        fs_ = {_cfa(e_, p_) for e_, p_ in _fa(sl[0], expand_tests=True)}
        # reached whenever a limits section is given: not under a condition that excludes it
        ok = ("is", "parsed_fmt.vis_lines", "None", True) not in fs_
    cx.ob("R13d", sl[0] if sl else tf_set, ok, "given limits are applied" if ok else "given limits are not applied")
    c = [x for x in walk_local(tf_set) if isinstance(x, ast.Call) and call_name(x) == "_set_parsed_fmt"]
    # second argument: other.repr_structure (also guarded: `other.repr_structure if other is not None else None`)
    def _ref_struct(e_):
        if isinstance(e_, ast.IfExp):
            from sa.guards import canon_test
            t_ = canon_test(e_.test)
            if t_ == {("is", "other", "None", False)}:
                return norm(e_.body) if const(e_.orelse) and e_.orelse.value is None else None
            if t_ == {("is", "other", "None", True)}:
                return norm(e_.orelse) if const(e_.body) and e_.body.value is None else None
            return None
        return norm(e_)
    ok = len(c) == 1 and len(c[0].args) == 2 and norm(c[0].args[0]) == "parsed_fmt.cols_parsed_fmt" and _ref_struct(c[0].args[1]) == "other.repr_structure"
    cx.ob("R13d", c[0] if c else tf_set, ok, "columns section is applied against the current columns" if ok else "column section is not applied with other.repr_structure")
    # set_fmt: clone, apply with the current format as `other`, install
    body = [norm(s) for s in set_fmt.body]
    ok = any(b == "new_fmt_obj._set_parsed_fmt(parsed_fmt, self._ppt_fmt)" for b in body) and any(b == "self._ppt_fmt = new_fmt_obj" for b in body) and \
        any(b == "new_fmt_obj = self._ppt_fmt.clone()" for b in body)
    cx.ob("R13d", set_fmt, ok, "set_fmt applies the parsed format to a clone, with the current format as reference" if ok else "set_fmt wiring altered")
    # ... on EVERY path: a path that leaves set_fmt before the clone is installed keeps the current format object, and with it the
    # state of earlier printings (negotiated column widths, the lines-skipped flag that decides whether str(fmt) shows the limits)
    inst = [s_ for s_ in set_fmt.body if isinstance(s_, ast.Assign) and norm(s_.targets[0]) == "self._ppt_fmt"]
    if ok and inst:
        early = [r_ for r_ in walk_local(set_fmt) if isinstance(r_, ast.Return) and r_.lineno < inst[0].lineno]
        inplace = []
        for n_ in walk_local(set_fmt):
            if getattr(n_, "lineno", 10 ** 9) >= inst[0].lineno:
                continue
            if isinstance(n_, ast.Call) and isinstance(n_.func, ast.Attribute) and norm(n_.func.value).startswith("self._ppt_fmt") and n_.func.attr != "clone":
                inplace.append(n_)
            if isinstance(n_, (ast.Assign, ast.AugAssign)):
                for t_ in (n_.targets if isinstance(n_, ast.Assign) else [n_.target]):
                    if isinstance(t_, (ast.Attribute, ast.Subscript)) and norm(t_).startswith("self._ppt_fmt."):
                        inplace.append(n_)
        if early and inplace:
            cx.ob("R13d", inplace[0], False, semantic=True, detail=f"`{norm(inplace[0])[:70]}` changes the current format object in place and set_fmt returns (line {early[0].lineno}) without installing a "
                  "fresh clone: what earlier printings left on that object (negotiated widths of ranged columns, the lines-skipped flag) survives the re-format, "
                  "so str(table.fmt) no longer reproduces the table")
        else:
            cx.need(not early, "R13d", early[0] if early else set_fmt, "set_fmt has an exit before the cloned format is installed (not decided whether that path may keep the old object)")
            cx.ob("R13d", set_fmt, True, "every path through set_fmt installs a fresh clone (no exit before the install, the current object is not modified in place)", stmt="set_fmt paths")
    # set_limits ignores None and takes (first, last) in order
    sl = cx.func(REL, "PPTableFormat.set_limits", "R13d")
    st = [s for s in walk_local(sl) if isinstance(s, ast.Assign) and isinstance(s.targets[0], ast.Tuple)]
    ok = len(st) == 1 and [norm(t) for t in st[0].targets[0].elts] == ["self.limit_flines", "self.limit_llines"] and is_name(st[0].value, params(sl)[1])
    cx.ob("R13c", st[0] if st else sl, ok, "limits are stored as (first, last)" if ok else "limits stored in another order")
    # constructor path: PPTableFormat.make
    mk = cx.func(REL, "PPTableFormat.make", "R13c")
    st = [s for s in walk_local(mk) if isinstance(s, ast.Assign) and isinstance(s.targets[0], ast.Tuple) and "vis_lines" in norm(s.value)]
    ok = len(st) == 1 and [norm(t) for t in st[0].targets[0].elts] == ["limit_flines", "limit_llines"]
    r = [x for x in walk_local(mk) if isinstance(x, ast.Return)]
    ok = ok and len(r) == 1 and isinstance(r[0].value, ast.Call) and [norm(a) for a in r[0].value.args[1:]] == ["limit_flines", "limit_llines"] and \
        "parsed_fmt.cols_parsed_fmt" in norm(r[0].value.args[0])
    cx.ob("R13c", mk, ok, "the constructor path applies the same parsed sections" if ok else "PPTableFormat.make does not pass (columns section, first, last)")


# ------------------------------------------------------------------------------------------ R13e
def _skipped_flag(cx, repo):
    """any_lines_skipped decides whether the limits section is serialised.  It is valid only for the limits of the object it
    is stored on and for its last rendering: it may be set to a computed value only by the line generator, and every other
    writer (constructor, clone, re-format) must leave / make it None ('unknown': limits are serialised)."""
    gen = cx.func(REL, "_PPTableImpl.gen_ch_lines", "R13e")
    n = 0
    for m in repo.modules.values():
        for st in ast.walk(m.tree):
            if not isinstance(st, ast.Assign):
                continue
            pairs_ = []
            for t in st.targets:
                if isinstance(t, ast.Attribute):
                    pairs_.append((t, st.value))
                elif isinstance(t, (ast.Tuple, ast.List)):
                    # a, b, c = (x, y, z): position-wise; anything else on the right: the element is not a constant None
                    if isinstance(st.value, (ast.Tuple, ast.List)) and len(st.value.elts) == len(t.elts):
                        pairs_ += [(a_, b_) for a_, b_ in zip(t.elts, st.value.elts) if isinstance(a_, ast.Attribute)]
                    else:
                        pairs_ += [(a_, st.value) for a_ in t.elts if isinstance(a_, ast.Attribute)]
            for t, val_ in pairs_:
                if t.attr == "any_lines_skipped":
                    n += 1
                    f = enclosing_func(st)
                    if f is gen:
                        ok = norm(val_) in ("n_skipped > 0", "bool(n_skipped)", "n_skipped != 0", "0 < n_skipped", "0 != n_skipped")
                        cx.ob("R13e", st, ok, "set from the number of records actually skipped in this rendering" if ok else f"flag computed as {norm(val_)}")
                    else:
                        ok = const(val_) and val_.value is None
                        cx.ob("R13e", st, ok, "elsewhere the flag is (re)set to 'unknown'" if ok else
                              f"`{norm(st)}` in {getattr(f, '_qual', '?')}: a flag describing another rendering / other limits is carried over; "
                              f"after a re-format the serialised fmt can silently drop the record limits")
    cx.at_least("R13e", "writers of any_lines_skipped", n, 2)
    # a change of the limits goes through a fresh (cloned) format object, whose flag is None
    sf = cx.func(REL, "_PPTableImpl.set_fmt", "R13e")
    ok = any(norm(s) == "new_fmt_obj = self._ppt_fmt.clone()" for s in sf.body)
    cx.ob("R13e", sf, ok, "re-formatting works on a clone (flag unknown until the next rendering)" if ok else "re-formatting mutates the live format object")
