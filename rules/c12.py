"""C12 — tables are rectangular, aligned, width-bounded and account for every record."""
import ast

from sa.core import (AnalysisError, FUNC, assignments, call_name, class_attr, const, dotted, enclosing, enclosing_func,
                     enclosing_stmt, is_attr, is_name, is_self_attr, literal, norm, params, parent, walk_local, names_in, assigned_names, ancestors)
from sa.guards import facts, enclosing_loops
from sa import events
from sa.affine import WidthInterp, Lin, Str, Chunk, CL, Cells, Text, UNK, Path, Facts, Obligation, ZERO

PROP = "C12"
REL = "ak/ppobj.py"
RELC = "ak/color.py"
EXPLANATION = (
    "Affine width analysis (linear identities over symbolic visible widths with path facts and a bound-substitution prover for "
    "side conditions), contracts checked on callees, event language of the row builder, guard rules. With tw := sum(w)+n+1: "
    "R12a every yield of _PPTableImpl.gen_ch_lines (border, header, titles, records, break / skipped-records lines, footer) has "
    "visible width tw as a linear identity on every path. R12b every make_cell_ch_chunks returns fit_to_width(.., <width "
    "parameter>, ..) or delegates with the column's width; title and record cells are produced per column of the same list. "
    "R12c fit_to_width returns exactly `width` on all five return paths for list / chunk / text arguments (centre: left + L + "
    "(filler-left); truncate: resize(width-dots)+dots with dots=min(3,width) so the precondition new_len>=0 holds for widths "
    "0..2). R12d resize_chunks_list returns exactly new_len: the supplied invariant W(result)+remaining=new_len, remaining>=0 is "
    "checked for initiation, preservation on both loop branches and use at all exits. R12e a row is SEP CELL (SEP CELL)* SEP and "
    "the border is ('+' '-'*w)* '+' over the same column list, so separators sit under '+'. R12f every assignment to a column "
    "width keeps it within [min_width, max_width]. R12g shown lines are first + [skipped] + last, the skipped count is total "
    "minus shown records, `seq[-n:]` is guarded by the truthiness of n, every record enters the line list once, in order. R12h "
    "no consumer mutates in place a list that fit_to_width / resize_chunks_list may have returned unchanged unless it is fresh "
    "or provably not the argument. R12i (content of a truncated cell): resize_chunks_list, interpreted by the relational text "
    "interpreter of C08 with the chunk list as the text, returns for every m >= 0 the first min(m, n) characters of the value in "
    "order and colour followed by max(m - n, 0) blanks; fit_to_width appends exactly the dots chunk to it. Assumes at least one "
    "column and non-negative widths. Content of cells that are not truncated (padding around the unchanged list) is decided as widths only."
)


def run(cx):
    repo = cx.repo
    for r, t in (("R12a", "every emitted line has the table width sum(w)+n+1"),
                 ("R12b", "cells are produced by fit_to_width with the column's width, one per column of the same list"),
                 ("R12c", "fit_to_width returns exactly `width`"),
                 ("R12d", "resize_chunks_list returns exactly new_len"),
                 ("R12e", "rows are SEP CELL (SEP CELL)* SEP; border is '+' ('-'*w '+')*"),
                 ("R12f", "column widths stay within [min_width, max_width]"),
                 ("R12g", "record accounting under limits; every record once, in order"),
                 ("R12h", "no in-place mutation of a list that may be shared"),
                 ("R12i", "a truncated cell shows a prefix of its own value, then the dots")):
        cx.rule(r, t)
    cx.assume("the table has at least one column (n >= 1) and column widths are non-negative (R12f + min_width >= 0)")
    fit = cx.func(REL, "FieldType.fit_to_width", "R12c")
    resize = cx.func(RELC, "CHText.resize_chunks_list", "R12d")
    gen = cx.func(REL, "_PPTableImpl.gen_ch_lines", "R12a")
    mk_line = cx.func(REL, "_PPTableImpl._make_table_line", "R12e")
    titles = cx.func(REL, "ReprStructure.gen_title_lines_ch_chunks_all", "R12b")
    records = cx.func(REL, "ReprStructure.make_record_ch_chunks_all", "R12b")
    detect = cx.func(REL, "ReprStructure.detect_actual_columns_widths", "R12f")

    cx.guard(_r12d, cx, resize)
    cx.guard(_r12i, cx, resize, fit)
    cx.guard(param_purity, cx, "R12h", [(resize, params(resize)[1]), (fit, params(fit)[0])])
    from rules.c10 import cache_fill_purity
    cx.guard(cache_fill_purity, cx, "R12h", repo)
    cx.guard(_r12c, cx, fit)
    cx.guard(_r12b, cx, repo, titles, records)
    cx.guard(_r12e, cx, mk_line)
    cx.guard(_r12a, cx, gen)
    cx.guard(_r12f, cx, repo, detect)
    from sa.inline import inlined as _inl
    gen_i, used_g = _inl(repo.modules[REL], gen)
    if used_g:
        cx.note(f"R12g: gen_ch_lines analysed with {used_g} expanded in place")
    cx.guard(_r12g, cx, gen_i)


# ----------------------------------------------------------------------------------------------- contracts
def c_fit(it, e, path):
    if len(e.args) < 2:
        return None
    w = it.lin(e.args[1], path)
    if w is None:
        return None
    it.need_nonneg(w, e, path, "precondition of fit_to_width (width >= 0)")
    fresh = isinstance(e.args[0], ast.List)
    if not fresh:
        v = it.ev(e.args[0], path)
        fresh = isinstance(v, CL) and v.fresh
    return CL(w, fresh=fresh)


def c_resize(it, e, path):
    if len(e.args) != 2:
        return None
    m = it.lin(e.args[1], path)
    if m is None:
        return None
    it.need_nonneg(m, e, path, "precondition of resize_chunks_list (new_len >= 0)")
    a = it.ev(e.args[0], path)
    fresh = False
    if isinstance(a, CL):
        # the argument itself is returned only when its width equals new_len
        fresh = a.fresh or path.facts.is_nonneg(a.n - m - Lin.const(1)) or path.facts.is_nonneg(m - a.n - Lin.const(1))
    return CL(m, fresh=fresh)


def _check_goal(cx, rule, it, goal_of, what, min_returns):
    n = 0
    for node, val, path in it.returns:
        n += 1
        g = goal_of(path)
        if isinstance(val, CL):
            ok = path.facts.equal(val.n, g)
            cx.ob(rule, node, ok, f"{what}: returns width {path.facts.reduce(val.n)} = {path.facts.reduce(g)}" if ok else
                  f"{what}: this path returns visible width {path.facts.reduce(val.n)}, not {path.facts.reduce(g)}")
        else:
            cx.ob(rule, node, False, f"{what}: returned value {val!r} has no decidable width")
    cx.at_least(rule, f"return paths of {what}", n, min_returns)


def _side(cx, rule, it, rule_alias="R12h"):
    for ob in it.side:
        if ob.kind == "alias":
            cx.ob(rule_alias, ob.node, ob.ok, ob.detail)
        else:
            cx.ob(rule, ob.node, ob.ok, ob.detail, stmt=norm(enclosing_stmt(ob.node))[:70] + " [" + ob.detail.split(":")[0][:40] + "]")


# ----------------------------------------------------------------------------------------------- R12d
def _r12d(cx, resize):
    ps = params(resize)
    cx.need(ps[1:] == ["chunks", "new_len"], "R12d", resize, f"parameters {ps}")
    loops = [s for s in resize.body if isinstance(s, ast.For)]
    cx.need(len(loops) == 1, "R12d", resize, "one loop expected")
    loop = loops[0]
    state = {"checked": 0}

    def loop_hook(it, st, path):
        # invariant:  W(result) + remaining_len = new_len,  remaining_len >= 0
        res_names = [k for k, v in path.env.items() if isinstance(v, CL) and v.fresh and k not in ("chunks",)]
        cx.need(len(res_names) == 1, "R12d", resize, "result list of the loop")
        rn = res_names[0]
        rem = next((k for k, v in path.env.items() if isinstance(v, Lin) and k in assigned_names(st)), None)
        cx.need(rem is not None, "R12d", resize, "remaining-length variable of the loop")
        new_len = Lin.sym("new_len")
        # initiation
        ok0 = path.facts.equal(path.env[rn].n + path.env[rem], new_len) and path.facts.is_nonneg(path.env[rem])
        cx.ob("R12d", st, ok0, f"invariant W({rn}) + {rem} = new_len, {rem} >= 0 holds at loop entry" if ok0 else "loop invariant does not hold at entry", stmt="invariant: initiation")
        # arbitrary iteration
        inv = path.fork()
        r = Lin.sym("r")
        inv.facts.lb["r"] = 0
        inv.env[rn] = CL(r, fresh=True)
        inv.env[rem] = new_len - r
        inv.facts.add_nonneg(new_len - r)
        body_path = inv.fork()
        tv = norm(st.target)
        body_path.env[tv] = Chunk(Lin.sym("c"))
        body_path.facts.lb["c"] = 0
        cx.need(is_name(st.iter, "chunks"), "R12d", st, "loop must range over the chunks argument")
        outs = it.run(st.body, body_path, loop_hook)
        for p in outs:
            v, rm = p.env.get(rn), p.env.get(rem)
            ok = isinstance(v, CL) and isinstance(rm, Lin) and p.facts.equal(v.n + rm, new_len) and p.facts.is_nonneg(rm)
            state["checked"] += 1
            cx.ob("R12d", st, ok, f"invariant preserved on a loop path (W={p.facts.reduce(v.n) if isinstance(v, CL) else v}, {rem}={p.facts.reduce(rm) if isinstance(rm, Lin) else rm})" if ok else
                  f"loop path breaks the invariant: W({rn})={v!r}, {rem}={rm!r}", stmt=f"invariant: preservation #{state['checked']}")
        # exit: the invariant state
        return [inv] + ([] if not st.orelse else [])
    it = WidthInterp(contracts={}, palette_names=("cp",), nonneg_syms=("W(chunks)",))
    path = Path({"chunks": CL(Lin.sym("W(chunks)"), fresh=False), "new_len": Lin.sym("new_len")}, it.base_facts())
    it.run(resize.body, path, loop_hook)
    cx.guard(_check_goal, cx, "R12d", it, lambda p: Lin.sym("new_len"), "resize_chunks_list", 4)
    cx.ob("R12d", loop, state["checked"] >= 2, f"{state['checked']} loop paths checked for preservation" if state["checked"] >= 2 else "loop body paths not analysed", stmt="invariant: coverage")
    for ob in it.side:
        if ob.kind != "alias":
            cx.ob("R12d", ob.node, ob.ok, ob.detail, stmt=norm(enclosing_stmt(ob.node))[:70] + " [side]")
    # aliasing summary: the argument is returned only when existing_len == new_len
    for node, val, p in it.returns:
        if isinstance(node.value, ast.Name) and node.value.id == "chunks":
            ok = p.facts.equal(Lin.sym("W(chunks)"), Lin.sym("new_len"))
            cx.ob("R12h", node, ok, "the argument list itself is returned only when its width already equals new_len" if ok else
                  "the argument list is returned on a path where its width differs from new_len")


# ----------------------------------------------------------------------------------------------- R12c
def _r12c(cx, fit):
    ps = params(fit)
    cx.need(ps[:2] == ["ch_chunks", "width"], "R12c", fit, f"parameters {ps}")
    total = 0
    for kind, val in (("list", CL(Lin.sym("L"), fresh=False)), ("chunk", Chunk(Lin.sym("L"))), ("text", Text(Lin.sym("L")))):
        it = WidthInterp(contracts={"resize_chunks_list": c_resize, "calc_chunks_len": None}, palette_names=(ps[3],), nonneg_syms=("L",))
        it.contracts.pop("calc_chunks_len")
        path = Path({"ch_chunks": val, "width": Lin.sym("width")}, it.base_facts())
        it.run(fit.body, path)
        n = 0
        for node, v, p in it.returns:
            n += 1
            ok = isinstance(v, CL) and p.facts.equal(v.n, Lin.sym("width"))
            cx.ob("R12c", node, ok, f"{kind} argument: returns width {p.facts.reduce(v.n) if isinstance(v, CL) else v} = width" if ok else
                  f"{kind} argument: this path returns visible width {p.facts.reduce(v.n) if isinstance(v, CL) else v!r}, not `width`", stmt=norm(node)[:60] + f" [{kind}]")
        total += n
        for ob in it.side:
            if ob.kind == "alias":
                if kind == "list":
                    cx.ob("R12h", ob.node, ob.ok, ob.detail)
            else:
                cx.ob("R12c", ob.node, ob.ok, f"{kind} argument: {ob.detail}", stmt=norm(enclosing_stmt(ob.node))[:60] + f" [{kind}: {ob.detail.split(':')[0][:34]}]")
    cx.at_least("R12c", "return paths of fit_to_width (3 argument kinds)", total, 15)


# ----------------------------------------------------------------------------------------------- R12b
def _r12b(cx, repo, titles, records):
    impls = [(m, q, f) for m, q, f in repo.functions() if f.name == "make_cell_ch_chunks"]
    cx.at_least("R12b", "make_cell_ch_chunks implementations", len(impls), 2)
    for m, q, f in impls:
        rets = [r for r in walk_local(f) if isinstance(r, ast.Return)]
        okall = bool(rets)
        for r in rets:
            v = r.value
            ok = False
            why = "return is not fit_to_width(.., width, ..) nor a delegation with the column width"
            if isinstance(v, ast.Call) and call_name(v) == "fit_to_width" and len(v.args) >= 2:
                ok = is_name(v.args[1]) and v.args[1].id in params(f) and v.args[1].id == "width"
                why = "cell = fit_to_width(text, <width parameter>, ..)"
            elif isinstance(v, ast.Call) and call_name(v) == "make_cell_ch_chunks" and len(v.args) >= 3:
                ok = norm(v.args[2]) == "self.width"
                why = "delegates with the column's own width"
            cx.ob("R12b", r, ok, why if ok else f"{q}: {why if not ok else ''}")
    # the two producers build one cell per column of self.columns, each with col.width
    for f, what in ((records, "record"), (titles, "title")):
        loops = [l for l in walk_local(f) if isinstance(l, ast.For) and norm(l.iter) == "self.columns"]
        ok = len(loops) == 1
        cell_w = None
        if ok:
            l = loops[0]
            col = norm(l.target)
            apps = [c for c in ast.walk(l) if isinstance(c, ast.Call) and call_name(c) == "append"]
            ok = len(apps) == 1 and parent(enclosing_stmt(apps[0])) is l
            if ok:
                a = apps[0].args[0]
                src = a
                if isinstance(a, ast.Name):
                    d = [v for s0, v in assignments(f, a.id) if v is not None and s0 in list(ast.walk(l))]
                    src = d[0] if len(d) == 1 else a
                if isinstance(src, ast.Call) and call_name(src) == "make_cell_ch_chunks":
                    if isinstance(src.func, ast.Attribute) and norm(src.func.value) == col:
                        cell_w = "col"      # ReprColumn.make_cell_ch_chunks -> self.width
                    elif len(src.args) >= 3 and norm(src.args[2]) == f"{col}.width":
                        cell_w = "col"
                ok = cell_w == "col" and not any(isinstance(x, (ast.Continue, ast.Break)) for x in ast.walk(l))
        cx.ob("R12b", f, ok, f"{what} line: exactly one cell per column of self.columns, fitted to that column's width" if ok else
              f"{what} line is not built as one fit-to-col.width cell per column of self.columns")
    # make_desired_cell_ch_chunks results are consumed through fit_to_width only
    for m in repo.modules.values():
        for c in ast.walk(m.tree):
            if isinstance(c, ast.Call) and call_name(c) == "make_desired_cell_ch_chunks":
                f = enclosing_func(c)
                if f is None or f.name in ("make_desired_cell_ch_chunks", "_make_text_cache_for_val"):
                    continue
                st = enclosing_stmt(c)
                ok = False
                if isinstance(st, ast.Assign) and isinstance(st.targets[0], ast.Tuple):
                    tname = norm(st.targets[0].elts[0])
                    uses = [n for n in walk_local(f) if isinstance(n, ast.Name) and n.id == tname and isinstance(n.ctx, ast.Load)]
                    ok = bool(uses) and all(isinstance(parent(u), ast.Call) and call_name(parent(u)) in ("fit_to_width", "calc_chunks_len") for u in uses)
                cx.ob("R12b", c, ok, "desired cell text is only measured or fitted to the width" if ok else "desired (unfitted) cell text escapes without fit_to_width")


# ----------------------------------------------------------------------------------------------- R12e
def _r12e(cx, mk_line):
    ps = params(mk_line)
    cells, sep = ps[1], ps[2]
    rets = [r for r in walk_local(mk_line) if isinstance(r, ast.Return)]
    cx.need(len(rets) == 1 and isinstance(rets[0].value, ast.Name), "R12e", mk_line, "returns the line list")
    line = rets[0].value.id

    def classify(st):
        if isinstance(st, ast.Assign) and is_name(st.targets[0], line):
            if isinstance(st.value, ast.List):
                return tuple("SEP" if is_name(x, sep) else "UNKNOWN" for x in st.value.elts)
            return "UNKNOWN"
        if isinstance(st, ast.Expr) and isinstance(st.value, ast.Call) and isinstance(st.value.func, ast.Attribute) and is_name(st.value.func.value, line):
            m, a = st.value.func.attr, st.value.args
            if m == "append" and len(a) == 1:
                return "SEP" if is_name(a[0], sep) else "UNKNOWN"
            if m == "extend" and len(a) == 1:
                loops = enclosing_loops(st)
                return "CELL" if loops and _iterates_cells(loops[0], cells, a[0]) else "UNKNOWN"
            return "UNKNOWN"
        if isinstance(st, ast.AugAssign) and is_name(st.target, line):
            return "UNKNOWN"
        return None
    spec = {("q0", "SEP"): "s1", ("s1", "CELL"): "c1", ("s1", "SEP"): "end0", ("c1", "SEP"): "s2", ("s2", "CELL"): "c1"}
    res = events.check(mk_line, classify, spec, "q0", {"s2", "end0"}, known_tests=events.reference_tests(mk_line))
    if not res.violations and res.uncertain:
        # only along paths through a test on state the event engine does not track: a loss of precision, not a finding
        raise AnalysisError("R12e", f"{REL}::_make_table_line", f"row language not decided: the only irregular paths go through a test on untracked state (line {res.uncertain[0][1][-1] if res.uncertain[0][1] else '?'}: {res.uncertain[0][0][:60]})")
    cx.counts["R12e:product states"] = res.states
    if not res.violations:
        cx.ob("R12e", mk_line, True, f"row = SEP CELL (SEP CELL)* SEP on every path ({res.states} product states)", stmt="row language")
    for msg, pth in res.violations[:3]:
        cx.ob("R12e", mk_line, False, f"{msg}; path through lines {pth[-10:]}", stmt="row language: " + msg[:50])
    loops = [l for l in walk_local(mk_line) if isinstance(l, ast.For)]
    ok = len(loops) == 1 and _iterates_cells(loops[0], cells, None) and not any(isinstance(x, (ast.Continue, ast.Break)) for x in ast.walk(loops[0]))
    cx.ob("R12e", loops[0] if loops else mk_line, ok, "every cell of the row is placed, in order" if ok else "the row builder skips or reorders cells")


def _iterates_cells(loop, cells, elem):
    """`for x in cells` or `for i, x in enumerate(cells)`; elem (if given) must be the element variable x."""
    if not isinstance(loop, ast.For):
        return False
    it, tgt = loop.iter, loop.target
    if isinstance(it, ast.Call) and call_name(it) == "enumerate" and len(it.args) == 1 and not it.keywords and isinstance(tgt, ast.Tuple) and len(tgt.elts) == 2:
        it, tgt = it.args[0], tgt.elts[1]
    return is_name(it, cells) and isinstance(tgt, ast.Name) and (elem is None or is_name(elem, tgt.id))


def c_make_table_line(it, e, path):
    """width = (count + 1) * W(sep) + total   (from the row language, count >= 1)"""
    if len(e.args) != 2:
        return None
    a0 = e.args[0]
    if isinstance(a0, ast.List) and a0.elts and not any(isinstance(x, ast.Starred) for x in a0.elts):
        # a literal list of cells, each a chunk list of known width
        vals = [it.ev(x, path) for x in a0.elts]
        if all(isinstance(v, CL) for v in vals):
            tot = Lin.const(0)
            for v in vals:
                tot = tot + v.n
            cells = Cells(Lin.const(len(vals)), tot)
        else:
            cells = None
    else:
        cells = it.ev(a0, path)
    sep = it.ev(e.args[1], path)
    if isinstance(cells, Cells) and isinstance(sep, Chunk) and sep.n.is_const():
        return CL((cells.c + Lin.const(1)).scale(sep.n.c()) + cells.w, fresh=True)
    return None


# ----------------------------------------------------------------------------------------------- R12a
COLS = ("columns", "self.columns", "repr_structure.columns", "self._ppt_fmt.repr_structure.columns")


def _r12a(cx, gen):
    cp = params(gen)[1]
    SW, N = Lin.sym("Σw"), Lin.sym("n")
    tw = SW + N + Lin.const(1)

    def int_hook(e, path):
        # sum(col.width for col in columns) ; len(columns) ; "".join(<a + b*col.width> for col in columns)
        if isinstance(e, ast.Call) and call_name(e) == "sum" and isinstance(e.args[0], ast.GeneratorExp):
            g = e.args[0]
            if len(g.generators) == 1 and not g.generators[0].ifs and norm(g.generators[0].iter) in COLS and norm(g.elt) == f"{norm(g.generators[0].target)}.width":
                return SW
        if isinstance(e, ast.Call) and call_name(e) == "len" and len(e.args) == 1 and norm(e.args[0]) in COLS:
            return N
        if isinstance(e, ast.Call) and call_name(e) == "join" and isinstance(e.args[0], (ast.GeneratorExp, ast.ListComp)):
            g = e.args[0]
            sepv = e.func.value
            if len(g.generators) == 1 and not g.generators[0].ifs and norm(g.generators[0].iter) in COLS and const(sepv, str):
                col = norm(g.generators[0].target)
                sub = WidthInterp(palette_names=(cp,))
                p2 = Path({f"{col}.width": Lin.sym("w_col")}, sub.base_facts())
                p2.facts.lb["w_col"] = 0
                v = sub.ev(g.elt, p2)
                if isinstance(v, Str):
                    k = v.n.get("w_col", 0)
                    c0 = v.n.c()
                    if set(v.n.syms()) <= {"w_col"}:
                        # n elements: sum = c0*n + k*Σw ; separators: len(sep)*(n-1)
                        return N.scale(c0) + SW.scale(k) + (N - Lin.const(1)).scale(len(sepv.value))
        return None

    def c_titles(it, e, path):
        return None

    contracts = {"fit_to_width": c_fit, "_make_table_line": c_make_table_line,
                 "make_record_ch_chunks_all": lambda it, e, p: Cells(N, SW)}
    it = WidthInterp(contracts=contracts, palette_names=(cp,), int_hook=int_hook, nonneg_syms=("Σw",), lower_bounds={"n": 1})
    # private straight-line helpers of the table class are interpreted in place (unless a contract describes them)
    owner = enclosing(gen, (ast.ClassDef,))
    it.helpers = {f_.name: f_ for f_ in (owner.body if owner is not None else []) if isinstance(f_, FUNC) and f_.name.startswith("_") and f_.name not in contracts and f_ is not gen}

    def loop_hook(it_, st, path):
        # bind the loop variable, run the body once, havoc what the body assigns
        body_path = path.fork()
        tv = norm(st.target)
        if isinstance(st.iter, ast.Call) and call_name(st.iter) == "gen_title_lines_ch_chunks_all":
            body_path.env[tv] = Cells(N, SW)
        else:
            body_path.env[tv] = UNK
        outs = it_.run(st.body, body_path, loop_hook)
        after = path
        for nm in assigned_names(st):
            after.env[nm] = UNK
        return [after]
    path = Path({}, it.base_facts())
    it.run(gen.body, path, loop_hook)
    n = 0
    for node, val, p, is_from in it.yields:
        n += 1
        e = node.value.value
        if isinstance(val, Text):
            ok = p.facts.equal(val.n, tw)
            cx.ob("R12a", node, ok, f"line width {p.facts.reduce(val.n)} = Σw + n + 1" if ok else
                  f"this line has visible width {p.facts.reduce(val.n)}, the table width is {tw} (lines are not all equally wide)")
        elif isinstance(e, ast.Attribute) and e.attr == "ch_text":
            # a service line: every text stored in a .ch_text slot in this function
            slots = {k: v for k, v in p.env.items() if k.endswith(".ch_text")}
            cx.need(slots, "R12a", node, "service line texts not found")
            for k, v in sorted(slots.items()):
                ok = isinstance(v, Text) and p.facts.equal(v.n, tw)
                cx.ob("R12a", node, ok, f"service line {k}: width {p.facts.reduce(v.n) if isinstance(v, Text) else v} = Σw + n + 1" if ok else
                      f"service line {k} has width {p.facts.reduce(v.n) if isinstance(v, Text) else repr(v)}, the table width is {tw}", stmt=f"yield {k}")
        else:
            cx.ob("R12a", node, False, f"yielded value `{norm(e)[:60]}` has no decidable width ({val!r})")
    cx.at_least("R12a", "yield sites of gen_ch_lines (per path)", n, 8)
    cx.guard(_side, cx, "R12a", it)
    # table_width definition
    d = [v for _, v in assignments(gen, "table_width") if v is not None]
    ok = len(d) == 1
    if ok:
        it2 = WidthInterp(palette_names=(cp,), int_hook=int_hook)
        l = it2.lin(d[0], Path({}, it2.base_facts()))
        ok = l is not None and Facts().equal(l, tw)
    cx.ob("R12a", gen, ok, "table_width = Σw + n + 1" if ok else "table_width is not sum of column widths + number of columns + 1", stmt="table_width")
    # the column list is fixed during the generation
    for nm in ("columns", "repr_structure"):
        ds = assignments(gen, nm)
        cx.ob("R12a", gen, len(ds) == 1, f"`{nm}` is bound once" if len(ds) == 1 else f"`{nm}` is re-bound during line generation (border and rows may use different column lists)", stmt=f"single binding of {nm}")
    # border characters
    bl = [v for _, v in assignments(gen, "border_line") if v is not None]
    ok = len(bl) == 1 and "'+' + '-' * " in norm(bl[0]) and norm(bl[0]).count("'+'") == 2
    cx.ob("R12e", gen, ok, "border is '+' '-'*w per column, then '+': a '+' sits at every separator offset" if ok else "border line is not ('+' + '-'*w)* + '+'", stmt="border shape")
    sp = [v for _, v in assignments(gen, "sep") if v is not None]
    ok = len(sp) == 1 and isinstance(sp[0], ast.Call) and const(sp[0].args[0], str) and len(sp[0].args[0].value) == 1
    cx.ob("R12e", gen, ok, "the separator is a single character" if ok else "separator is not one character wide", stmt="separator")


# ----------------------------------------------------------------------------------------------- R12f
def _r12f(cx, repo, detect):
    n = 0
    for m in repo.modules.values():
        for st in ast.walk(m.tree):
            if not isinstance(st, (ast.Assign, ast.AugAssign)):
                continue
            tgts = st.targets if isinstance(st, ast.Assign) else [st.target]
            for t in tgts:
                if isinstance(t, ast.Attribute) and t.attr == "width" and enclosing_func(st) is not None and norm(t.value) in ("col", "self", "c", "column"):
                    cls = enclosing(st, (ast.ClassDef,))
                    if cls is None or cls.name not in ("ReprStructure", "ReprColumn"):
                        continue
                    n += 1
                    v = st.value
                    base = norm(t.value)
                    if isinstance(st, ast.Assign) and const(v) and v.value is None:
                        cx.ob("R12f", st, True, "width reset to 'not negotiated yet'")
                        continue
                    txt = norm(v)
                    form_a = isinstance(v, ast.Call) and call_name(v) == "min" and len(v.args) == 2 and norm(v.args[0]) == f"{base}.max_width" and \
                        isinstance(v.args[1], ast.Call) and call_name(v.args[1]) == "max" and norm(v.args[1].args[0]) == f"{base}.min_width"
                    form_b = txt == f"{base}.min_width"
                    form_c = isinstance(v, ast.Call) and call_name(v) == "max" and len(v.args) == 2 and norm(v.args[0]) == f"{base}.width" and \
                        isinstance(v.args[1], ast.Call) and call_name(v.args[1]) == "min" and norm(v.args[1].args[0]) == f"{base}.max_width" and \
                        any(norm(e) == f"{base}.width < {base}.max_width" and pol for e, pol in facts(st))
                    ok = form_a or form_b or form_c
                    cx.ob("R12f", st, ok, "assigned width stays within [min_width, max_width]" if ok else
                          f"column width is assigned `{txt[:60]}`, which is not bounded by min_width / max_width")
    cx.at_least("R12f", "assignments to a column width", n, 4)


# ----------------------------------------------------------------------------------------------- R12g
def _r12g(cx, gen):
    # (1) every record enters table_lines once, in order
    loops = [l for l in gen.body if isinstance(l, ast.For) and norm(l.iter) == "self.records"]
    cx.need(len(loops) == 1, "R12g", gen, "loop over self.records")
    l = loops[0]
    rec = norm(l.target)
    apps = [s for s in l.body if isinstance(s, ast.Expr) and isinstance(s.value, ast.Call) and call_name(s.value) == "append" and [norm(a) for a in s.value.args] == [rec]]
    ok = len(apps) == 1 and not any(isinstance(x, (ast.Continue, ast.Break)) for x in ast.walk(l))
    cx.ob("R12g", l, ok, "every record is appended to the line list exactly once, in order" if ok else "records are skipped / duplicated when the line list is built")
    lines = norm(apps[0].value.func.value) if apps else "table_lines"
    # (2) negative slices guarded
    n_neg = 0
    for s in walk_local(gen):
        if isinstance(s, ast.Subscript) and isinstance(s.slice, ast.Slice) and isinstance(s.slice.lower, ast.UnaryOp) and isinstance(s.slice.lower.op, ast.USub) and s.slice.upper is None:
            n_neg += 1
            k = norm(s.slice.lower.operand)
            g = any(norm(e) == k and pol for e, pol in facts(s))
            cx.ob("R12g", s, g, f"`[-{k}:]` is taken only when {k} is non-zero" if g else f"`{norm(s)}` with {k} == 0 is the whole list, not the empty one (all lines shown twice)")
        if isinstance(s, ast.Subscript) and isinstance(s.slice, ast.Slice) and isinstance(s.slice.upper, ast.UnaryOp) and isinstance(s.slice.upper.op, ast.USub):
            n_neg += 1
            k = norm(s.slice.upper.operand)
            g = any(norm(e) == k and pol for e, pol in facts(s))
            cx.ob("R12g", s, g, f"`[..:-{k}]` is taken only when {k} is non-zero" if g else f"`{norm(s)}` with {k} == 0 is empty, not `everything up to the end` (lines / counts are lost when no last lines are requested)")
    cx.at_least("R12g", "tail slices", n_neg, 1)
    # (3) composition and count
    from sa.core import seq_tokens
    # (the shown list may be a variable of its own, not the re-bound line list)
    comp = [s_.value for s_ in walk_local(gen) if isinstance(s_, ast.Assign) and len(s_.targets) == 1 and isinstance(s_.targets[0], ast.Name)
            and isinstance(s_.value, (ast.BinOp, ast.List)) and any(x in (seq_tokens(s_.value) or []) for x in ("*first_lines", "*last_lines", "skipped_recs_line"))]
    ok = len(comp) == 1 and seq_tokens(comp[0]) == ["*first_lines", "skipped_recs_line", "*last_lines"]
    cx.ob("R12g", gen, ok, "shown lines = first + [skipped marker] + last" if ok else "composition of the shown lines altered", stmt="composition")
    ns = [v for _, v in assignments(gen, "n_skipped") if v is not None]
    ok = len(ns) == 2 and any(const(v, int) and v.value == 0 for v in ns)
    formula = next((v for v in ns if not const(v)), None)
    if ok and formula is not None:
        verdict = _skipped_formula(gen, formula)
        if verdict is None:
            raise AnalysisError("R12g", f"{REL}::_PPTableImpl.gen_ch_lines", f"form of the skipped-records count not recognised: {norm(formula)[:80]}")
        ok = verdict
    cx.ob("R12g", gen, ok, "skipped = total records - records among the shown lines" if ok else "the announced number of skipped records is not total - shown", stmt="n_skipped")
    # the condition under which the first / last slices are taken: the must-facts at the statement that takes them, whatever
    # the spelling (branch polarity, negations, mirrored comparisons)
    lim = [st for st, v in assignments(gen, "first_lines") if v is not None]
    ok = len(lim) == 1
    if ok:
        from sa.guards import canon_fact
        from sa.poly import linear
        fs = facts(lim[0])
        cfs = {canon_fact(e, pol) for e, pol in fs}
        both = ("is", "n_first", "None", False) in cfs and ("is", "n_last", "None", False) in cfs
        thr = False
        for e, pol in fs:
            if not (isinstance(e, ast.Compare) and len(e.ops) == 1 and type(e.ops[0]) in (ast.Lt, ast.LtE, ast.Gt, ast.GtE)):
                continue
            l_, r_, op = e.left, e.comparators[0], type(e.ops[0])
            if not pol:
                op = {ast.Lt: ast.GtE, ast.GtE: ast.Lt, ast.Gt: ast.LtE, ast.LtE: ast.Gt}[op]
            if op in (ast.Lt, ast.LtE):
                l_, r_, op = r_, l_, {ast.Lt: ast.Gt, ast.LtE: ast.GtE}[op]
            # now: l_ > r_  or  l_ >= r_
            if norm(l_) == f"len({lines})":
                lin = linear(r_)
                if lin is not None and lin.get("n_first") == 1 and lin.get("n_last") == 1 and set(lin) <= {"n_first", "n_last", 1}:
                    c0 = lin.get(1, 0)
                    thr = thr or c0 >= (0 if op is ast.Gt else 1)
        ok = both and thr
    cx.ob("R12g", lim[0] if lim else gen, ok, "limits apply only when both are set and there are more lines than first+last (the two slices cannot overlap)" if ok else
          "limit condition does not guarantee len(lines) > n_first + n_last with both limits set: first and last slices may overlap (records shown twice)")
    fl = [v for _, v in assignments(gen, "first_lines") if v is not None]
    ok = len(fl) == 1 and norm(fl[0]).startswith(f"{lines}[:n_first]")
    cx.ob("R12g", gen, ok, "first lines = the first n_first lines" if ok else "first_lines is not table_lines[:n_first]", stmt="first_lines")
    ll = [v for _, v in assignments(gen, "last_lines") if v is not None]
    ok = len(ll) == 1 and norm(ll[0]).startswith(f"{lines}[-n_last:]")
    cx.ob("R12g", gen, ok, "last lines = the last n_last lines" if ok else "last_lines is not table_lines[-n_last:]", stmt="last_lines")
    srcs = {"n_first": "self._ppt_fmt.limit_flines", "n_last": "self._ppt_fmt.limit_llines"}
    for k, want in srcs.items():
        d = [v for _, v in assignments(gen, k) if v is not None]
        ok = len(d) == 1 and norm(d[0]) == want
        cx.ob("R12g", gen, ok, f"{k} is the format's limit" if ok else f"{k} is not {want}", stmt=k)
    # (4) the final loop yields every line of the list
    fin = [x for x in gen.body if isinstance(x, ast.For) and norm(x.iter) == lines]
    ok = len(fin) == 1 and not any(isinstance(x, (ast.Continue, ast.Break)) for x in ast.walk(fin[0]))
    cx.ob("R12g", fin[0] if fin else gen, ok, "every shown line is emitted, in order" if ok else "not every line of the list is emitted")
    st = [s for s in walk_local(gen) if isinstance(s, ast.Assign) and norm(s.targets[0]).endswith("any_lines_skipped")]
    ok = len(st) == 1 and norm(st[0].value) == "n_skipped > 0"
    cx.ob("R12g", st[0] if st else gen, ok, "the format records whether lines were skipped" if ok else "any_lines_skipped is not n_skipped > 0")


def _r12i(cx, resize, fit):
    """Content (not only width) of a truncated cell.  resize_chunks_list(chunks, m) is interpreted by the relational text
    interpreter of C08 (sa/textint.py) with the chunk list as the text: for every m >= 0 and every list the result shows the
    first min(m, n) characters of the value, in order and in their colours, then max(m - n, 0) blanks; fit_to_width appends the
    dots chunk after it (and nothing between)."""
    from sa.textint import TextInterp, State, Int, Opaque, Unsupported, N, K as K_, same_text, witness
    from sa.fm import Lin as FLin, lin as flin, ge, gt, le, eq
    ps = params(resize)
    cx.need(len(ps) == 3, "R12i", resize, "parameters (cls, chunks, new_len)")
    it = TextInterp({})
    m = FLin.var("m")
    outs = []
    try:
        for shape in ([eq(N, 0), eq(K_, 0)], [ge(N, 1), ge(K_, 1)]):
            outs.extend(it.run(resize.body, State({ps[0]: Opaque("cls"), ps[1]: Opaque("self.chunks"), ps[2]: Int(m)}, [ge(m, 0)] + shape)))
    except Unsupported as u:
        raise AnalysisError("R12i", f"{RELC}::CHText.resize_chunks_list", f"not decided: {u}")
    n_pairs = 0
    for desc, cons, want in (("m <= n", [le(m, N)], [("cov", flin(0), m)]), ("m > n", [gt(m, N)], [("cov", flin(0), N), ("pad", m - N)])):
        bad = None
        for o in outs:
            s = o.st.assume(*cons)
            if not it.feasible(s):
                continue
            n_pairs += 1
            line = getattr(o.node, "lineno", resize.lineno)
            if o.how == "alarm":
                bad = f"line {line}: {o.value}"
            elif o.how != "return":
                bad = f"line {line}: {o.how} {o.value or ''}"
            else:
                got = it._text_parts(o.value)
                if got is None or not same_text(it, got, want, s):
                    bad = f"line {line}: returns {o.value!r}"
            if bad:
                bad += f"; e.g. {witness(it, s, {'m', 'n', 'k'})}"
                break
        cx.ob("R12i", resize, bad is None, f"resize_chunks_list, {desc}: the first min(m, n) characters of the value, then blanks" if bad is None else f"resize_chunks_list, {desc}: {bad}", stmt=f"resize [{desc}]")
    cx.at_least("R12i", "path x case pairs", n_pairs, 4)
    cx.counts["R12i:linear-arithmetic queries"] = it.stats["fm_queries"]
    # fit_to_width: result of resize, then the dots, nothing else
    rs = [st for st, v in assignments(fit, "result") if v is not None and isinstance(v, ast.Call) and call_name(v) == "resize_chunks_list"]
    cx.need(len(rs) == 1, "R12i", fit, "truncation branch of fit_to_width")
    par = parent(rs[0])
    blk = next((lst for lst in (getattr(par, "body", None), getattr(par, "orelse", None)) if isinstance(lst, list) and rs[0] in lst), None)
    cx.need(blk is not None, "R12i", fit, "truncation branch block")
    tail = blk[blk.index(rs[0]) + 1:]
    if len(tail) == 1 and isinstance(fit.body[-1], ast.Return) and norm(fit.body[-1]) == "return result" and not any(
            isinstance(x, (ast.Assign, ast.AugAssign, ast.Expr)) for x in fit.body[fit.body.index(next(a for a in [rs[0]] + list(ancestors(rs[0])) if a in fit.body)) + 1:-1]):
        tail = tail + [fit.body[-1]]        # single exit: the branch falls through to the function's final `return result`
    from sa.guards import xnorm_at as _xn
    p0 = params(fit)[0]

    def _own_chunks(e):
        """the cell's own chunk list: the parameter, or a local every definition of which is the parameter / its chunks / a copy"""
        if is_name(e, p0):
            return True
        if not isinstance(e, ast.Name):
            return False
        ds = [v for _s, v in assignments(fit, e.id) if v is not None and not (isinstance(v, ast.Call) and call_name(v) == "resize_chunks_list")]
        forms = (p0, f"[{p0}]", f"{p0}.chunks.copy()", f"list({p0}.chunks)", f"list({p0})", f"{p0}.chunks", f"{p0}.copy()", f"{p0}[:]", f"{p0}.chunks[:]")
        return bool(ds) and all(norm(v) in forms for v in ds)
    a0, a1 = rs[0].value.args[0], rs[0].value.args[1]
    ok = len(tail) == 2 and norm(tail[0]).startswith("result.append(") and "'.' * dots_len" in norm(tail[0]).replace("*", " * ").replace("  ", " ") and norm(tail[1]) == "return result" \
        and _own_chunks(a0) and _xn(a1, rs[0]) == "width - dots_len"
    cx.ob("R12i", rs[0], ok, "truncated cell = resize(cell's own chunks, width - dots) followed by the dots chunk" if ok else "the truncation branch does not return resize(own chunks, visible length) + dots")


def param_purity(cx, rule, funcs):
    """The chunk-list helpers receive lists that callers keep (cached renderings of enum cells, chunk lists of texts): any
    in-place change of the parameter object - through the parameter or an alias of it: item / slice assignment, del, +=, a
    mutator call - changes what later renderings show.  (Re-binding a name to a new list is fine.)"""
    from sa.core import param_mutations
    n = 0
    for f, p in funcs:
        for x, alias, bad in param_mutations(f, p):
            n += 1
            # harmless only when that name was re-bound to a fresh list before, in an enclosing block (dominating)
            rebound = [st for st, v in assignments(f, alias) if v is not None and st.lineno < x.lineno and
                       (isinstance(v, (ast.List, ast.ListComp)) or isinstance(v, ast.Call) and call_name(v) in ("list", "sorted"))]
            dominated = any(parent(st) is f or any(parent(st) is a for a in ancestors(x)) for st in rebound)
            cx.ob(rule, x, dominated, f"{f.name}: works on its own copy of `{p}`" if dominated else
                  f"{f.name}: {bad}, which may be the caller's object `{p}` (e.g. the cached rendering of an enum value, or a text's chunk list): the same value renders differently afterwards")
    cx.ob(rule, funcs[0][0], True, f"chunk-list helpers examined for in-place changes of their list parameter ({n} candidate sites)", stmt="parameter purity")


def _skipped_formula(gen, formula):
    """n_skipped == (number of records) - (number of shown lines that are records)?   True / False / None (not recognised).
    Local names bound once are seen through; the count of shown records may be written as a sum over first_lines + last_lines,
    over the pair (first_lines, last_lines) with a nested loop, with `1 if T else 0`, `T`, `int(T)` or `1 ... if T` elements,
    T = not isinstance(line, self._ServiceLine)."""
    def resolve(e, depth=0):
        if isinstance(e, ast.Name) and depth < 4:
            ds = [v for _, v in assignments(gen, e.id) if v is not None]
            if len(ds) == 1:
                return resolve(ds[0], depth + 1)
        return e
    f = resolve(formula)
    # counting LINES instead of records: len() of the line lists, while the line list also holds service lines (break-by markers)
    lens = [c for c in ast.walk(f) if isinstance(c, ast.Call) and call_name(c) == "len" and c.args and norm(c.args[0]) in ("table_lines", "first_lines", "last_lines")]
    if lens:
        recs = [l for l in gen.body if isinstance(l, ast.For) and norm(l.iter) == "self.records"]
        extra = [c for l in recs for c in ast.walk(l) if isinstance(c, ast.Call) and call_name(c) == "append" and norm(c.func.value) == "table_lines" and norm(c.args[0]) != norm(l.target)]
        return False if extra else None
    if not (isinstance(f, ast.BinOp) and isinstance(f.op, ast.Sub)):
        return None
    total, shown = resolve(f.left), resolve(f.right)
    if norm(total) != "len(self.records)":
        return None
    if not (isinstance(shown, ast.Call) and call_name(shown) == "sum" and len(shown.args) == 1 and isinstance(shown.args[0], (ast.GeneratorExp, ast.ListComp))):
        return None
    g = shown.args[0]
    gens = g.generators
    # the iterated lines
    if len(gens) == 1:
        it, var = resolve(gens[0].iter), gens[0].target
        src = None
        if isinstance(it, ast.BinOp) and isinstance(it.op, ast.Add):
            src = {norm(it.left), norm(it.right)}
        elif isinstance(it, ast.Call) and call_name(it) == "chain":
            src = {norm(a) for a in it.args}
        ifs = gens[0].ifs
    elif len(gens) == 2 and isinstance(gens[0].iter, (ast.Tuple, ast.List)) and norm(gens[1].iter) == norm(gens[0].target) and not gens[0].ifs:
        src, var, ifs = {norm(x) for x in gens[0].iter.elts}, gens[1].target, gens[1].ifs
    else:
        return None
    if src is None or not isinstance(var, ast.Name):
        return None
    if src != {"first_lines", "last_lines"}:
        return False      # counts over something else than exactly the shown lines
    v = var.id

    cls_ = getattr(gen, "_parent", None)
    while cls_ is not None and not isinstance(cls_, ast.ClassDef):
        cls_ = getattr(cls_, "_parent", None)

    def is_service(t):
        if norm(t) == f"isinstance({v}, self._ServiceLine)":
            return True
        # a predicate method of the class:  def h(self, x): return isinstance(x, self._ServiceLine)
        if isinstance(t, ast.Call) and isinstance(t.func, ast.Attribute) and is_name(t.func.value, "self") and len(t.args) == 1 and is_name(t.args[0], v) and cls_ is not None:
            h = next((m for m in cls_.body if isinstance(m, FUNC) and m.name == t.func.attr), None)
            if h is not None:
                body = [b for b in h.body if not (isinstance(b, ast.Expr) and isinstance(b.value, ast.Constant))]
                ps = [a.arg for a in h.args.args]
                return len(body) == 1 and isinstance(body[0], ast.Return) and len(ps) == 2 and norm(body[0].value) == f"isinstance({ps[1]}, self._ServiceLine)"
        return False

    def is_rec(t):      # T
        return isinstance(t, ast.UnaryOp) and isinstance(t.op, ast.Not) and is_service(t.operand)
    e = g.elt
    if isinstance(e, ast.Call) and call_name(e) in ("int", "bool") and len(e.args) == 1:
        e = e.args[0]
    if not ifs:
        if is_rec(e):
            return True
        if isinstance(e, ast.IfExp) and const(e.body, int) and const(e.orelse, int):
            if is_rec(e.test):
                return (e.body.value, e.orelse.value) == (1, 0)
            if is_service(e.test):
                return (e.body.value, e.orelse.value) == (0, 1)
        if is_service(e):
            return False
        if const(e, int):
            return False      # every shown line is counted, service lines included
        return None
    if len(ifs) == 1 and const(e, int):
        if is_rec(ifs[0]):
            return e.value == 1
        if is_service(ifs[0]):
            return False
    return None
