"""C01 — every parse result is a valid derivation (machinery that removes helper symbols and resets abandoned alternatives)."""
import ast

from sa.core import (AnalysisError, FUNC, assignments, call_name, class_attr, const, dotted, enclosing, enclosing_func,
                     enclosing_stmt, is_attr, is_name, is_self_attr, literal, norm, params, parent, walk_local, names_in, ancestors)
from sa.guards import facts, split, enclosing_loops
from sa.cfg import CFG

PROP = "C01"
REL = "ak/llparser.py"
EXPLANATION = (
    "Typestate / must-pass-through / field-effect / def-use rules on the parser machinery in ak/llparser.py; the arithmetic of "
    "common-prefix computation and of the partial undo is NOT decided. R01a (helper-symbol typestate): the minted helper name "
    "has the reserved '__' form that user symbols and terminals are asserted not to contain; it is added to the suffix set on "
    "every path before the group production mentioning it is returned; it is placed last in that production and stays last "
    "when a suffix is merged back; `del rules[s]` and `suffix_symbols.remove(s)` are paired, for exactly the suffixes that were "
    "merged; the set returned is the one stored in self._suffix_symbols and read by the splice. R01b (must-pass-through on the "
    "CFG of LLParser.parse): every path from 'production matched' to the hand-over next_matched(t_elem, ..) or to `return root` "
    "evaluates the suffix test, and its true branch pops the helper child and extends the parent with the helper's children. "
    "R01c: fields written by next_matched are re-initialised by switch_to_next_prod, which alone advances the alternative; clone "
    "copies every constructor field; the roll-back `continue` is preceded by the stack cut and the switch. R01d: tokens are "
    "filtered only by the skip set and not reordered; a leaf is built from the token under the cursor only under the name test "
    "and the cursor advances by exactly one. R01e: the returned root is child 0 of the node of the synthetic production "
    "(start symbol, end token)."
)


def run(cx):
    repo = cx.repo
    for r, t in (("R01a", "helper symbols: reserved name, registered before use, last in their production, removed in pairs; one shared suffix set"),
                 ("R01b", "the suffix splice is evaluated on every completion path before the node is handed over"),
                 ("R01c", "roll-back resets all per-alternative state"),
                 ("R01d", "leaves are exactly the non-skipped tokens, in order"),
                 ("R01e", "the returned root is the start symbol's node")):
        cx.rule(r, t)
    fcp = cx.func(REL, "LLParser._factorize_common_prefix_prods", "R01a")
    fp = cx.func(REL, "LLParser._factorize_productions", "R01a")
    ctor = cx.func(REL, "LLParser.__init__", "R01a")
    parse = cx.func(REL, "LLParser.parse", "R01b")
    se = cx.cls(REL, "_StackElement", "R01c")
    create = cx.func(REL, "LLParser._create_productions", "R01a")

    # ------------------------------------------------------------------ R01a
    sset = params(fcp)[-1]
    mints = [(st, v) for st, v in assignments(fcp, "grp_symbol_suffix") if v is not None]
    minted = None
    for n in walk_local(fcp):
        if isinstance(n, ast.Assign) and isinstance(n.value, ast.JoinedStr) and any(const(x, str) and "__" in x.value for x in n.value.values):
            minted = n
    cx.need(minted is not None, "R01a", fcp, "helper-name construction (f-string with '__') not found")
    hname = norm(minted.targets[0])
    ok = any(const(x, str) and x.value.startswith("__") for x in minted.value.values) and isinstance(minted.value.values[0], ast.FormattedValue) and norm(minted.value.values[0].value) == params(fcp)[1]
    cx.ob("R01a", minted, ok, "helper name = <symbol> + '__S..': contains the reserved '__'" if ok else "helper name does not have the reserved <symbol>__ form")
    # reserved-name assertions for user symbols and terminals
    a1 = any(isinstance(a, ast.Assert) and "'__' not in" in norm(a.test) for a in ast.walk(create))
    a2 = any(isinstance(s, ast.Assert) and "bad_terminals" in norm(s.test) for s in ctor.body) and any("'__' in" in norm(v) for _, v in assignments(ctor, "bad_terminals") if v is not None)
    cx.ob("R01a", create, a1, "user symbols containing '__' are rejected" if a1 else "user symbols may contain '__' and collide with helper symbols", stmt="reserved symbol names")
    cx.ob("R01a", ctor, a2, "terminal names containing '__' are rejected" if a2 else "terminal names may contain '__'", stmt="reserved terminal names")
    # add dominates return
    g = CFG(fcp)
    adds = [n for n in walk_local(fcp) if isinstance(n, ast.Call) and call_name(n) == "add" and norm(n.func.value) == sset and norm(n.args[0]) == hname]
    cx.ob("R01a", adds[0] if adds else fcp, len(adds) == 1, "the helper symbol is registered in the suffix set" if adds else "the minted helper symbol is never added to the suffix set (it would stay in returned trees)")
    if adds:
        an = g.node_of(enclosing_stmt(adds[0]))
        path = g.reach_avoiding(g.entry, {g.exit.id}, {an.id}, follow_raise=False)
        cx.ob("R01a", adds[0], path is None, "registration happens on every path before the productions are returned" if path is None else
              f"a path returns productions mentioning the helper symbol without registering it (lines {[getattr(p.ast, 'lineno', p.kind) for p in path]})", stmt=norm(enclosing_stmt(adds[0])) + " [dominates return]")
        # before the recursive factorisation that may consult the set
        rec = [c for c in walk_local(fcp) if isinstance(c, ast.Call) and call_name(c) == "_factorize_prods_list"]
        ok = bool(rec) and all(adds[0].lineno < c.lineno for c in rec) and all(norm(c.args[-1]) == sset for c in rec)
        cx.ob("R01a", rec[0] if rec else fcp, ok, "nested factorisation shares the same suffix set" if ok else "nested factorisation does not receive the same suffix set after registration")
    # helper last in the group production
    gp = [v for _, v in assignments(fcp, "group_prod_rule") if v is not None]
    ok = len(gp) == 1 and isinstance(gp[0], ast.Call) and call_name(gp[0]) == "ProdRule" and norm(gp[0].args[1]) == f"tuple(list(common_prefix) + [{hname}])" and norm(gp[0].args[0]) == params(fcp)[1]
    cx.ob("R01a", gp[0] if gp else fcp, ok, "group production = common prefix + [helper] (helper last) for the original symbol" if ok else "the helper symbol is not the last symbol of the group production")
    # suffix productions: the remainders after the common prefix, one per original production, in order, owned by the helper
    sp = [v for _, v in assignments(fcp, "suffix_prod_rules") if v is not None]
    ok = len(sp) == 1 and isinstance(sp[0], ast.ListComp) and not sp[0].generators[0].ifs and norm(sp[0].generators[0].iter) == params(fcp)[3]
    if ok:
        c = sp[0].elt
        ov = norm(sp[0].generators[0].target)
        ok = isinstance(c, ast.Call) and call_name(c) == "ProdRule" and norm(c.args[0]) == hname and norm(c.args[1]) == f"tuple({ov}.production[len(common_prefix):])"
    cx.ob("R01a", sp[0] if sp else fcp, ok, "one suffix production per original production: its symbols after the common prefix" if ok else "suffix productions are not the remainders of every original production")
    # _factorize_productions: paired removal, for merged suffixes only
    dels = [n for n in walk_local(fp) if isinstance(n, ast.Delete)]
    rms = [c for c in walk_local(fp) if isinstance(c, ast.Call) and call_name(c) == "remove"]
    ok = len(dels) == 1 and len(rms) == 1 and parent(dels[0]) is parent(enclosing_stmt(rms[0]))
    lp = enclosing_loops(dels[0])[0] if dels and enclosing_loops(dels[0]) else None
    if ok and lp is not None:
        v = norm(lp.target)
        ok = norm(dels[0].targets[0]) == f"result_rules[{v}]" and norm(rms[0]) == f"suffix_symbols.remove({v})" and norm(lp.iter) == "suffixes_to_remove"
    cx.ob("R01a", dels[0] if dels else fp, ok, "a merged suffix is removed from the grammar and from the suffix set together" if ok else
          "removal of a helper symbol's productions and of its suffix-set entry are not paired over the same set of merged suffixes")
    marks = [c for c in walk_local(fp) if isinstance(c, ast.Call) and call_name(c) == "add" and norm(c.func.value) == "suffixes_to_remove"]
    ok = len(marks) == 1
    if ok:
        m = marks[0]
        blk = parent(enclosing_stmt(m)).body
        exp = [s for s in blk if isinstance(s, ast.For) and "suffix_productions" in norm(s.iter)]
        ok = norm(m.args[0]) == "last_symbol" and len(exp) == 1 and blk.index(exp[0]) < blk.index(enclosing_stmt(m)) and not any(isinstance(x, (ast.Break, ast.Continue)) for x in ast.walk(exp[0]))
        if ok:
            ap = [c for c in ast.walk(exp[0]) if isinstance(c, ast.Call) and call_name(c) == "append"]
            ok = len(ap) == 1 and norm(ap[0].args[0]) == f"tuple([first_symbol] + list({norm(exp[0].target)}.production))"
    cx.ob("R01a", marks[0] if marks else fp, ok, "a suffix is marked for removal only after all its productions were merged back behind the first symbol (helper of a nested suffix stays last)" if ok else
          "partial undo marks / merges suffix productions differently: a helper symbol may stay referenced or lose alternatives")
    gd = [e for e, pol in (facts(marks[0]) if marks else [])]
    ok = any(norm(e) == "last_symbol not in suffix_symbols" for e in gd)
    cx.ob("R01a", marks[0] if marks else fp, ok, "only productions whose last symbol is a helper are expanded" if ok else "expansion is not restricted to productions ending in a helper symbol", stmt="undo guard")
    rets = [r for r in walk_local(fp) if isinstance(r, ast.Return)]
    ok = len(rets) == 1 and norm(rets[0].value) == "(result_rules, suffix_symbols)"
    cx.ob("R01a", rets[0] if rets else fp, ok, "the rewritten grammar and the (updated) suffix set are returned together" if ok else "returned pair altered")
    st = [s for s in ctor.body if isinstance(s, ast.Assign) and isinstance(s.targets[0], ast.Tuple) and isinstance(s.value, ast.Call) and call_name(s.value) == fp.name]
    ok = len(st) == 1 and [norm(t) for t in st[0].targets[0].elts] == ["self.prods_map", "self._suffix_symbols"]
    cx.ob("R01a", st[0] if st else ctor, ok, "the parser keeps that grammar and that suffix set" if ok else "constructor does not store (prods_map, _suffix_symbols) from the factorisation")
    for m in repo.modules.values():
        for n in ast.walk(m.tree):
            if isinstance(n, ast.Attribute) and n.attr == "_suffix_symbols" and isinstance(n.ctx, ast.Store) and enclosing_func(n) is not ctor:
                cx.ob("R01a", n, False, "the suffix set is re-bound outside the constructor")

    # ------------------------------------------------------------------ R01b
    g = CFG(parse)
    mw = next(w for w in parse.body if isinstance(w, ast.While))
    done_if = next((s for s in mw.body if isinstance(s, ast.If) and "len(top.values) == len(cur_prod.production)" in norm(s.test)), None)
    cx.need(done_if is not None, "R01b", parse, "'production matched' branch")
    suffix_ifs = [s for s in ast.walk(done_if) if isinstance(s, ast.If) and "self._suffix_symbols" in norm(s.test)]
    cx.need(len(suffix_ifs) == 1, "R01b", parse, "suffix test in the completion branch")
    sif = suffix_ifs[0]
    fs = [norm(e) for e, pol in split(sif.test, True) if pol]
    ok = "cur_prod.production[-1] in self._suffix_symbols" in fs
    cx.ob("R01b", sif, ok, "the test looks at the last symbol of the completed production" if ok else "suffix test does not examine production[-1]")
    handovers = [s for s in ast.walk(done_if) if (isinstance(s, ast.Expr) and isinstance(s.value, ast.Call) and call_name(s.value) == "next_matched") or isinstance(s, ast.Return)]
    cx.at_least("R01b", "hand-over sites of a completed node", len(handovers), 2)
    entry = g.node_of(done_if)
    sn = g.node_of(sif)
    body_entry = next(s for s, lab in entry.succ if isinstance(lab, tuple) and lab[2] is True)
    for h in handovers:
        hn = g.node_of(h)
        path = None
        if body_entry.id != sn.id:
            class _S:
                succ = [(body_entry, None)]
            path = g.reach_avoiding(_S, {hn.id}, {sn.id}, follow_raise=False)
        cx.ob("R01b", h, path is None, "reached only after the suffix test" if path is None else
              f"a completed node can be handed over without the suffix test (lines {[getattr(p.ast, 'lineno', 0) for p in path if getattr(p, 'ast', None) is not None]})")
    body = [norm(s) for s in sif.body]
    ok = len(sif.body) == 2 and body[0] == "suffix_elem = t_elem.value.pop()" and isinstance(sif.body[1], ast.If) and norm(sif.body[1].test) == "suffix_elem.value is not None" \
        and [norm(s) for s in sif.body[1].body] == ["t_elem.value.extend(suffix_elem.value)"]
    cx.ob("R01b", sif, ok, "splice: drop the helper child, append its children (if any) to the parent" if ok else "splice body is not pop() + extend(helper's children)", stmt="splice body")
    # the node handed over is the one spliced; its children are the matched values
    te = [v for _, v in assignments(parse, "t_elem") if v is not None]
    ok = len(te) == 2 and all(isinstance(v, ast.Call) and call_name(v) == "TElement" and norm(v.args[0]) == "top.symbol" for v in te)
    cx.ob("R01b", done_if, ok, "the node carries the symbol being expanded and the children matched so far" if ok else "completed node construction altered", stmt="node construction")
    for h in handovers:
        if isinstance(h, ast.Expr):
            ok = [norm(a) for a in h.value.args] == ["t_elem", "new_token_pos"] and norm(h.value.func.value) == "top"
            cx.ob("R01b", h, ok, "the parent receives the node and the cursor reached by it" if ok else "hand-over arguments altered", stmt=norm(h) + " [args]")
    ntp = [v for _, v in assignments(parse, "new_token_pos") if v is not None]
    ok = len(ntp) == 1 and norm(ntp[0]) == "top.cur_token_pos"
    cx.ob("R01b", done_if, ok, "the cursor handed over is the completed element's cursor" if ok else "cursor hand-over altered", stmt="cursor")

    # ------------------------------------------------------------------ R01c
    init = repo.method(se, "__init__")
    nm = repo.method(se, "next_matched")
    sw = repo.method(se, "switch_to_next_prod")
    cl = repo.method(se, "clone")
    cx.need(all(x is not None for x in (init, nm, sw, cl)), "R01c", f"{REL}::_StackElement", "methods")

    def written(f):
        out = set()
        for n in walk_local(f):
            if isinstance(n, ast.Attribute) and isinstance(n.ctx, ast.Store) and is_name(n.value, "self"):
                out.add(n.attr)
            if isinstance(n, ast.Call) and isinstance(n.func, ast.Attribute) and is_self_attr(n.func.value) and n.func.attr in ("append", "extend", "pop", "insert", "clear"):
                out.add(n.func.value.attr)
        return out
    w_nm, w_sw = written(nm), written(sw)
    ok = w_nm <= w_sw
    cx.ob("R01c", sw, ok, f"switch_to_next_prod re-initialises everything next_matched changes ({sorted(w_nm)})" if ok else
          f"next_matched changes {sorted(w_nm - w_sw)} which switch_to_next_prod does not reset: children / cursor of an abandoned alternative leak into the next one")
    sw_body = {norm(s) for s in sw.body}
    ok = {"self.values = []", "self.cur_token_pos = self.start_token_pos", "self.cur_prod_id += 1"} <= sw_body
    cx.ob("R01c", sw, ok, "values emptied, cursor back to the element's start, next alternative selected" if ok else f"switch_to_next_prod body is {sorted(sw_body)}", stmt="reset values")
    for m in repo.modules.values():
        for n in ast.walk(m.tree):
            if isinstance(n, ast.Attribute) and n.attr == "cur_prod_id" and isinstance(n.ctx, ast.Store):
                f = enclosing_func(n)
                ok = f in (init, sw, cl)
                cx.ob("R01c", n, ok, "alternative index written by the element itself" if ok else "the alternative index is changed outside _StackElement")
    init_fields = {n.attr for n in walk_local(init) if isinstance(n, ast.Attribute) and isinstance(n.ctx, ast.Store) and is_name(n.value, "self")}
    ctor_call = [c for c in walk_local(cl) if isinstance(c, ast.Call) and call_name(c) == "_StackElement"]
    copied = {n.attr for n in walk_local(cl) if isinstance(n, ast.Attribute) and isinstance(n.ctx, ast.Store)}
    via_ctor = set()
    if ctor_call:
        for a, p in zip(ctor_call[0].args, params(init)[1:]):
            for s in walk_local(init):
                if isinstance(s, ast.Assign) and is_name(s.value, p):
                    via_ctor |= {t.attr for t in s.targets if isinstance(t, ast.Attribute)}
    miss = init_fields - copied - via_ctor - {"log_offset"}
    ok = not miss and bool(ctor_call) and [norm(a) for a in ctor_call[0].args] == ["self.symbol", "self.start_token_pos", "self.prod_rs"]
    cx.ob("R01c", cl, ok, "clone copies every field the constructor creates" if ok else f"clone omits {sorted(miss)}")
    vc = [s for s in walk_local(cl) if isinstance(s, ast.Assign) and norm(s.targets[0]).endswith(".values")]
    ok = len(vc) == 1 and norm(vc[0].value) in ("self.values[:]", "list(self.values)", "self.values.copy()")
    cx.ob("R01c", vc[0] if vc else cl, ok, "the clone has its own children list" if ok else "clone shares the children list with the live stack element")
    nb = {norm(s) for s in nm.body}
    ok = {"self.values.append(value)", "self.cur_token_pos = new_token_pos"} <= nb
    cx.ob("R01c", nm, ok, "next_matched appends the child and moves the cursor" if ok else "next_matched altered")
    gcs = repo.method(se, "get_cur_symbol")
    ok = gcs is not None and any(norm(r.value) == "self.prod_rs[self.cur_prod_id].production[len(self.values)]" for r in walk_local(gcs) if isinstance(r, ast.Return))
    cx.ob("R01c", gcs if gcs is not None else se, ok, "the next symbol to match is production[number of children so far]" if ok else "get_cur_symbol altered")
    # a fresh element starts at alternative 0 with no children at the given cursor
    ib = {norm(s) for s in init.body}
    ok = {"self.cur_prod_id = 0", "self.values = []", "self.cur_token_pos = token_pos", "self.start_token_pos = token_pos"} <= ib
    cx.ob("R01c", init, ok, "a new element starts with its first alternative, no children, at the given cursor" if ok else "_StackElement constructor altered")

    # ------------------------------------------------------------------ R01d
    tk = [v for _, v in assignments(parse, "tokens") if v is not None]
    ok = len(tk) == 1 and isinstance(tk[0], ast.ListComp) and len(tk[0].generators) == 1
    if ok:
        gcomp = tk[0].generators[0]
        ok = norm(tk[0].elt) == norm(gcomp.target) and call_name(gcomp.iter) == "tokenize" and [norm(i) for i in gcomp.ifs] == [f"{norm(gcomp.target)}.name not in self.skip_tokens"]
    cx.ob("R01d", tk[0] if tk else parse, ok, "tokens = the tokenizer's tokens, in order, minus the skip set only" if ok else "token list is not [t for t in tokenize(..) if t.name not in skip_tokens]")
    for n in walk_local(parse):
        if isinstance(n, ast.Call) and isinstance(n.func, ast.Attribute) and is_name(n.func.value, "tokens") and n.func.attr in ("sort", "reverse", "pop", "remove", "insert", "append"):
            cx.ob("R01d", n, False, "the token list is modified after tokenizing")
        if isinstance(n, ast.Subscript) and is_name(n.value, "tokens") and isinstance(n.ctx, ast.Store):
            cx.ob("R01d", n, False, "a token is replaced in the token list")
    leafs = [c for c in walk_local(parse) if isinstance(c, ast.Call) and call_name(c) == "TElement" and len(c.args) == 2 and "next_token" in norm(c.args[1])]
    ok = len(leafs) == 1 and [norm(a) for a in leafs[0].args] == ["cur_symbol", "next_token.value"]
    cx.ob("R01d", leafs[0] if leafs else parse, ok, "a leaf has the expected terminal's name and the token's value" if ok else "leaf construction altered")
    if leafs:
        fsl = {(norm(e), pol) for e, pol in facts(leafs[0])}
        ok = ("next_token.name == cur_symbol", True) in fsl and ("cur_symbol in self.terminals", True) in fsl
        cx.ob("R01d", leafs[0], ok, "built only when the token under the cursor has the expected name" if ok else "a leaf can be built for a token of another name", stmt=norm(leafs[0])[:50] + " [guard]")
        call = parent(leafs[0])
        ok = isinstance(call, ast.Call) and call_name(call) == "next_matched" and norm(call.args[1]).replace(" ", "") == "top.cur_token_pos+1"
        cx.ob("R01d", call if isinstance(call, ast.Call) else leafs[0], ok, "the cursor advances by exactly one token" if ok else "cursor does not advance by exactly one on a terminal match")
    nt = [v for _, v in assignments(parse, "next_token") if v is not None]
    ok = len(nt) == 1 and norm(nt[0]) == "tokens[top.cur_token_pos]"
    cx.ob("R01d", parse, ok, "the token examined is the one under the top element's cursor" if ok else "next_token altered", stmt="next_token")

    # ------------------------------------------------------------------ R01e
    rets = [r for r in ast.walk(done_if) if isinstance(r, ast.Return)]
    ok = len(rets) == 1 and is_name(rets[0].value, "root")
    rd = [v for _, v in assignments(parse, "root") if v is not None]
    ok = ok and len(rd) == 1 and norm(rd[0]) == "t_elem.value[0]"
    g2 = {(norm(e), pol) for e, pol in facts(rets[0])} if rets else set()
    ok = ok and ("parse_stack", False) in g2
    cx.ob("R01e", rets[0] if rets else parse, ok, "returned when the stack is empty: child 0 of the synthetic start node" if ok else "the returned root is not child 0 of the last completed (synthetic) node")
    ini = [c for c in walk_local(parse) if isinstance(c, ast.Call) and call_name(c) == "ProdRule"]
    ok = len(ini) == 1 and norm(ini[0].args[1]) == "(start_symbol_name, self._END_TOKEN_NAME)" and norm(ini[0].args[0]) == "self._INIT_PRODUCTION_NAME"
    cx.ob("R01e", ini[0] if ini else parse, ok, "the synthetic production is $START$ -> (start symbol, $END$)" if ok else "synthetic start production altered")
    ssn = [(s, v) for s, v in assignments(parse, "start_symbol_name") if v is not None]
    ok = len(ssn) == 1 and norm(ssn[0][1]) == "self.start_symbol_name" and any(norm(e) == "start_symbol_name is not None" and not pol for e, pol in facts(ssn[0][0]))
    cx.ob("R01e", ssn[0][0] if ssn else parse, ok, "the start symbol defaults to the constructor's" if ok else "start symbol selection altered")
    # end token appended by the tokenizer under the same name
    tok = cx.func(REL, "_Tokenizer.tokenize", "R01e")
    endt = [c for c in walk_local(tok) if isinstance(c, ast.Call) and call_name(c) == "_Token" and norm(c.args[0]) == "self.end_token_name"]
    tinit = cx.func(REL, "_Tokenizer.__init__", "R01e")
    dflt = {a.arg: d for a, d in zip(tinit.args.kwonlyargs, tinit.args.kw_defaults) if d is not None}
    ec = class_attr(cx.cls(REL, "LLParser", "R01e"), "_END_TOKEN_NAME")
    ok = len(endt) == 1 and "end_token_name" in dflt and const(dflt["end_token_name"], str) and const(ec, str) and dflt["end_token_name"].value == ec.value
    cx.ob("R01e", endt[0] if endt else tok, ok, "the tokenizer ends every input with the parser's end token" if ok else "end token of tokenizer and parser differ")
