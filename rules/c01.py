"""C01 — every parse result is a valid derivation (machinery that removes helper symbols and resets abandoned alternatives)."""
import ast

from sa.core import (AnalysisError, FUNC, assignments, call_name, class_attr, const, dotted, enclosing, enclosing_func,
                     enclosing_stmt, is_attr, is_name, is_self_attr, literal, norm, params, parent, walk_local, names_in, ancestors)
from sa.guards import facts, split, enclosing_loops
from sa.cfg import CFG
from sa.objflow import ObjFlow

PROP = "C01"
REL = "ak/llparser.py"
EXPLANATION = (
    "Typestate / must-pass-through / field-effect / def-use rules on the parser machinery in ak/llparser.py; the arithmetic of "
    "common-prefix computation and of the partial undo is NOT decided. R01a (helper-symbol typestate): the minted helper name "
    "has the reserved '__' form that user symbols and terminals are asserted not to contain; it is added to the suffix set on "
    "every path before the group production mentioning it is returned; it is placed last in that production and stays last "
    "when a suffix is merged back; `del rules[s]` and `suffix_symbols.remove(s)` are paired, for exactly the suffixes that were "
    "merged; the set returned is the one stored in self._suffix_symbols and read by the splice. R01b (must-pass-through on the "
    "CFG of LLParser.parse): every path from 'production matched' to the hand-over next_matched(t_elem, ..) or to `return root` "
    "evaluates the suffix test, and its true branch pops the helper child and extends the parent with the helper's children. "
    "When the splice is decided by a flag stored on the production object instead of a look-up in the suffix set, an "
    "allocation-site flow analysis of ProdRule objects (sa/objflow.py) plus a fixpoint over construction sites decides that "
    "the flag equals 'the production ends in a helper symbol' for every object that can be built (a site whose last symbol is "
    "copied from a possibly helper-ending production while the flag is not is reported). "
    "R01c: fields written by next_matched are re-initialised by switch_to_next_prod, which alone advances the alternative; clone "
    "copies every constructor field; the roll-back `continue` is preceded by the stack cut and the switch. R01d: tokens are "
    "filtered only by the skip set and not reordered; a leaf is built from the token under the cursor only under the name test "
    "and the cursor advances by exactly one. R01e: the returned root is child 0 of the node of the synthetic production "
    "(start symbol, end token)."
)


def run(cx):
    repo = cx.repo
    for r, t in (("R01a", "helper symbols: reserved name, registered before use, last in their production, removed in pairs; one shared suffix set"),
                 ("R01b", "the suffix splice is evaluated on every completion path before the node is handed over"),
                 ("R01c", "roll-back resets all per-alternative state"),
                 ("R01d", "leaves are exactly the non-skipped tokens, in order"),
                 ("R01e", "the returned root is the start symbol's node"),
                 ("R01f", "the factored prefix is common to all alternatives of the group (spliced nodes are user productions)")):
        cx.rule(r, t)
    from rules.c02 import common_prefix_rule
    cx.guard(common_prefix_rule, cx, "R01f")
    fcp = cx.func(REL, "LLParser._factorize_common_prefix_prods", "R01a")
    fp = cx.func(REL, "LLParser._factorize_productions", "R01a")
    ctor = cx.func(REL, "LLParser.__init__", "R01a")
    parse = cx.func(REL, "LLParser.parse", "R01b")
    se = cx.cls(REL, "_StackElement", "R01c")
    create = cx.func(REL, "LLParser._create_productions", "R01a")

    # ------------------------------------------------------------------ R01a
    sset = params(fcp)[-1]
    mints = [(st, v) for st, v in assignments(fcp, "grp_symbol_suffix") if v is not None]
    minted = None
    for n in walk_local(fcp):
        if isinstance(n, ast.Assign) and isinstance(n.value, ast.JoinedStr) and any(const(x, str) and "__" in x.value for x in n.value.values):
            minted = n
    cx.need(minted is not None, "R01a", fcp, "helper-name construction (f-string with '__') not found")
    hname = norm(minted.targets[0])
    ok = any(const(x, str) and x.value.startswith("__") for x in minted.value.values) and isinstance(minted.value.values[0], ast.FormattedValue) and norm(minted.value.values[0].value) == params(fcp)[1]
    cx.ob("R01a", minted, ok, "helper name = <symbol> + '__S..': contains the reserved '__'" if ok else "helper name does not have the reserved <symbol>__ form")
    # reserved-name assertions for user symbols and terminals
    a1 = any(isinstance(a, ast.Assert) and "'__' not in" in norm(a.test) for a in ast.walk(create))
    a2 = any(isinstance(s, ast.Assert) and "bad_terminals" in norm(s.test) for s in ctor.body) and any("'__' in" in norm(v) for _, v in assignments(ctor, "bad_terminals") if v is not None)
    cx.ob("R01a", create, a1, "user symbols containing '__' are rejected" if a1 else "user symbols may contain '__' and collide with helper symbols", stmt="reserved symbol names")
    cx.ob("R01a", ctor, a2, "terminal names containing '__' are rejected" if a2 else "terminal names may contain '__'", stmt="reserved terminal names")
    # add dominates return
    g = CFG(fcp)
    adds = [n for n in walk_local(fcp) if isinstance(n, ast.Call) and call_name(n) == "add" and norm(n.func.value) == sset and norm(n.args[0]) == hname]
    cx.ob("R01a", adds[0] if adds else fcp, len(adds) == 1, "the helper symbol is registered in the suffix set" if adds else "the minted helper symbol is never added to the suffix set (it would stay in returned trees)")
    if adds:
        an = g.node_of(enclosing_stmt(adds[0]))
        path = g.reach_avoiding(g.entry, {g.exit.id}, {an.id}, follow_raise=False)
        cx.ob("R01a", adds[0], path is None, "registration happens on every path before the productions are returned" if path is None else
              f"a path returns productions mentioning the helper symbol without registering it (lines {[getattr(p.ast, 'lineno', p.kind) for p in path]})", stmt=norm(enclosing_stmt(adds[0])) + " [dominates return]")
        # before the recursive factorisation that may consult the set
        rec = [c for c in walk_local(fcp) if isinstance(c, ast.Call) and call_name(c) == "_factorize_prods_list"]
        ok = bool(rec) and all(adds[0].lineno < c.lineno for c in rec) and all(norm(c.args[-1]) == sset for c in rec)
        cx.ob("R01a", rec[0] if rec else fcp, ok, "nested factorisation shares the same suffix set" if ok else "nested factorisation does not receive the same suffix set after registration")
    # helper last in the group production
    def _seq_tokens(e):
        """a concatenation of sequences as a token list: `tuple(list(a) + [x])`, `a + (x,)`, `(*a, x)` all read ['*a', 'x']"""
        if isinstance(e, ast.Call) and isinstance(e.func, ast.Name) and e.func.id in ("tuple", "list") and len(e.args) == 1 and not e.keywords:
            return _seq_tokens(e.args[0])
        if isinstance(e, ast.BinOp) and isinstance(e.op, ast.Add):
            a_, b_ = _seq_tokens(e.left), _seq_tokens(e.right)
            return None if a_ is None or b_ is None else a_ + b_
        if isinstance(e, (ast.Tuple, ast.List)):
            out_ = []
            for x_ in e.elts:
                if isinstance(x_, ast.Starred):
                    t_ = _seq_tokens(x_.value)
                    if t_ is None:
                        return None
                    out_ += t_
                else:
                    out_.append(norm(x_))
            return out_
        if isinstance(e, ast.Name):
            return ["*" + e.id]
        return None
    gp = [v for _, v in assignments(fcp, "group_prod_rule") if v is not None]
    ok = len(gp) == 1 and isinstance(gp[0], ast.Call) and call_name(gp[0]) == "ProdRule" and _seq_tokens(gp[0].args[1]) == ["*common_prefix", hname] and norm(gp[0].args[0]) == params(fcp)[1]
    cx.ob("R01a", gp[0] if gp else fcp, ok, "group production = common prefix + [helper] (helper last) for the original symbol" if ok else "the helper symbol is not the last symbol of the group production")
    # suffix productions: the remainders after the common prefix, one per original production, in order, owned by the helper
    sp = [v for _, v in assignments(fcp, "suffix_prod_rules") if v is not None]
    ok = len(sp) == 1 and isinstance(sp[0], ast.ListComp) and len(sp[0].generators) == 1 and not sp[0].generators[0].ifs
    if ok:
        from sa.guards import expand_at as _ea, xnorm_at as _xna, reaching_def as _rd2
        g_ = sp[0].generators[0]
        it_, tv_ = g_.iter, g_.target
        if isinstance(it_, ast.Call) and call_name(it_) == "enumerate" and len(it_.args) == 1 and isinstance(tv_, ast.Tuple) and len(tv_.elts) == 2:
            it_, tv_ = it_.args[0], tv_.elts[1]         # numbered in the original order
        at_ = enclosing_stmt(sp[0])
        it_x = it_
        if isinstance(it_, ast.Name):
            from sa.guards import reaching_def as _rd
            r_ = _rd(it_.id, at_, calls=True, containers=True)
            it_x = r_[0] if r_ is not None else it_
        ov = norm(tv_)
        prod_ = None
        if norm(it_x) == params(fcp)[3]:
            prod_ = f"{ov}.production"                  # iterating the rules
        elif isinstance(it_x, ast.ListComp) and len(it_x.generators) == 1 and not it_x.generators[0].ifs and norm(it_x.generators[0].iter) == params(fcp)[3] \
                and norm(it_x.elt) == f"{norm(it_x.generators[0].target)}.production":
            prod_ = ov                                   # iterating the productions of the rules
        c = sp[0].elt
        a1_ = c.args[1] if isinstance(c, ast.Call) and len(c.args) > 1 else None
        while isinstance(a1_, ast.Call) and isinstance(a1_.func, ast.Name) and a1_.func.id in ("tuple", "list") and len(a1_.args) == 1:
            a1_ = a1_.args[0]
        ok = prod_ is not None and isinstance(c, ast.Call) and call_name(c) == "ProdRule" and norm(c.args[0]) == hname and isinstance(a1_, ast.Subscript) \
            and isinstance(a1_.slice, ast.Slice) and a1_.slice.upper is None and a1_.slice.step is None and a1_.slice.lower is not None and norm(a1_.value) == prod_ \
            and (norm(a1_.slice.lower) == "len(common_prefix)" or isinstance(a1_.slice.lower, ast.Name) and (_rd2(a1_.slice.lower.id, at_, calls=True) or (None,))[0] is not None
                 and norm(_rd2(a1_.slice.lower.id, at_, calls=True)[0]) == "len(common_prefix)")
    cx.ob("R01a", sp[0] if sp else fcp, ok, "one suffix production per original production: its symbols after the common prefix" if ok else "suffix productions are not the remainders of every original production")
    # _factorize_productions: paired removal, for merged suffixes only
    dels = [n for n in walk_local(fp) if isinstance(n, ast.Delete)]
    rms = [c for c in walk_local(fp) if isinstance(c, ast.Call) and call_name(c) == "remove"]
    ok = len(dels) == 1 and len(rms) == 1 and parent(dels[0]) is parent(enclosing_stmt(rms[0]))
    lp = enclosing_loops(dels[0])[0] if dels and enclosing_loops(dels[0]) else None
    if ok and lp is not None:
        v = norm(lp.target)
        ok = norm(dels[0].targets[0]) == f"result_rules[{v}]" and norm(rms[0]) == f"suffix_symbols.remove({v})" and norm(lp.iter) == "suffixes_to_remove"
    cx.ob("R01a", dels[0] if dels else fp, ok, "a merged suffix is removed from the grammar and from the suffix set together" if ok else
          "removal of a helper symbol's productions and of its suffix-set entry are not paired over the same set of merged suffixes")
    from sa.guards import alias_env, xnorm, xcanon_facts
    env = alias_env(fp)
    marks = [c for c in walk_local(fp) if isinstance(c, ast.Call) and call_name(c) == "add" and norm(c.func.value) == "suffixes_to_remove"]
    if len(marks) != 1:
        raise AnalysisError("R01a", f"{REL}::_factorize_productions", "marking of merged suffixes for removal not recognised")
    m = marks[0]
    xS = xnorm(m.args[0], env)
    # (a) all productions of that suffix are merged back behind the first symbol: a loop over result_rules[S] without
    #     break/continue, appending tuple([first] + list(rule.production)), in the block that marks S (before the mark)
    blk = parent(enclosing_stmt(m))
    stmts_ = blk.body if enclosing_stmt(m) in getattr(blk, "body", []) else blk.orelse
    exp = [s_ for s_ in stmts_ if isinstance(s_, ast.For) and f"result_rules[{xS}]" in xnorm(s_.iter, env)]
    if len(exp) != 1:
        raise AnalysisError("R01a", f"{REL}::_factorize_productions", "loop merging the suffix productions back not recognised")
    ok = xnorm(exp[0].iter, env) == f"result_rules[{xS}]" and stmts_.index(exp[0]) < stmts_.index(enclosing_stmt(m)) and not any(isinstance(x, (ast.Break, ast.Continue)) for x in ast.walk(exp[0]))
    if ok:
        ap = [c for c in ast.walk(exp[0]) if isinstance(c, ast.Call) and call_name(c) == "append"]
        merged = ap[0].args[0] if len(ap) == 1 else None
        if isinstance(merged, ast.Call) and call_name(merged) == "ProdRule" and len(merged.args) >= 2:
            merged = merged.args[1]     # the merged production may be wrapped into its ProdRule at once
        first_x = xS[:-3] + "[0]" if xS.endswith("[1]") else None
        ok = merged is not None and first_x is not None and xnorm(merged, env) == f"tuple([{first_x}] + list({norm(exp[0].target)}.production))"
    cx.ob("R01a", m, ok, "a suffix is marked for removal only after all its productions were merged back behind the first symbol (helper of a nested suffix stays last)" if ok else
          "partial undo marks / merges suffix productions differently: a helper symbol may stay referenced or lose alternatives")
    # (b) only productions whose last symbol is a helper are expanded
    cf = xcanon_facts(m, env)
    ok = ("in", xS, "suffix_symbols", True) in cf
    cx.ob("R01a", m, ok, "only productions whose last symbol is a helper are expanded" if ok else "expansion is not restricted to productions ending in a helper symbol", stmt="undo guard")
    rets = [r for r in walk_local(fp) if isinstance(r, ast.Return)]
    ok = len(rets) == 1 and norm(rets[0].value) == "(result_rules, suffix_symbols)"
    cx.ob("R01a", rets[0] if rets else fp, ok, "the rewritten grammar and the (updated) suffix set are returned together" if ok else "returned pair altered")
    st = [s for s in ctor.body if isinstance(s, ast.Assign) and isinstance(s.targets[0], ast.Tuple) and isinstance(s.value, ast.Call) and call_name(s.value) == fp.name]
    ok = len(st) == 1 and [norm(t) for t in st[0].targets[0].elts] == ["self.prods_map", "self._suffix_symbols"]
    cx.ob("R01a", st[0] if st else ctor, ok, "the parser keeps that grammar and that suffix set" if ok else "constructor does not store (prods_map, _suffix_symbols) from the factorisation")
    for m in repo.modules.values():
        for n in ast.walk(m.tree):
            if isinstance(n, ast.Attribute) and n.attr == "_suffix_symbols" and isinstance(n.ctx, ast.Store) and enclosing_func(n) is not ctor:
                cx.ob("R01a", n, False, "the suffix set is re-bound outside the constructor")

    # ------------------------------------------------------------------ R01b
    # on a copy of parse with its private helpers expanded in place; local names are read through their reaching definitions
    from sa.inline import inlined as _inl
    from sa.guards import xnorm_at as _xat
    parse_o = parse
    parse, _used_b = _inl(repo.modules[REL], parse_o)
    if _used_b:
        cx.note(f"R01b: parse analysed with {_used_b} expanded in place")
    g = CFG(parse)
    mw = next(w for w in parse.body if isinstance(w, ast.While))
    done_if = next((s for s in mw.body if isinstance(s, ast.If) and "len(top.values) == len(cur_prod.production)" in norm(s.test)), None)
    cx.need(done_if is not None, "R01b", parse, "'production matched' branch")
    suffix_ifs = [s for s in ast.walk(done_if) if isinstance(s, ast.If) and "self._suffix_symbols" in norm(s.test)]
    if not suffix_ifs:
        # the splice may be decided by something else than a look-up in the suffix set: locate it by its effect
        suffix_ifs = [s for s in ast.walk(done_if) if isinstance(s, ast.If) and s is not done_if and any(norm(x).endswith("t_elem.value.pop()") for x in s.body)]
    cx.need(len(suffix_ifs) == 1, "R01b", parse, "suffix test in the completion branch")
    sif = suffix_ifs[0]
    fs = [_xat(e, sif) for e, pol in split(sif.test, True) if pol]
    ok = "cur_prod.production[-1] in self._suffix_symbols" in fs
    flag = [e for e, pol in split(sif.test, True) if pol and isinstance(e, ast.Attribute) and is_name(e.value, "cur_prod")]
    if not ok and flag:
        # a flag carried by the production object decides the splice: it must agree with "last symbol is a helper"
        # for every ProdRule that can ever be constructed
        _flag_agreement(cx, repo, sif, flag[0].attr, fcp, hname)
    else:
        cx.ob("R01b", sif, ok, "the test looks at the last symbol of the completed production" if ok else "suffix test does not examine production[-1]")
    handovers = [s for s in ast.walk(done_if) if (isinstance(s, ast.Expr) and isinstance(s.value, ast.Call) and call_name(s.value) == "next_matched") or isinstance(s, ast.Return)]
    cx.at_least("R01b", "hand-over sites of a completed node", len(handovers), 2)
    entry = g.node_of(done_if)
    sn = g.node_of(sif)
    body_entry = next(s for s, lab in entry.succ if isinstance(lab, tuple) and lab[2] is True)
    for h in handovers:
        hn = g.node_of(h)
        path = None
        if body_entry.id != sn.id:
            class _S:
                succ = [(body_entry, None)]
            path = g.reach_avoiding(_S, {hn.id}, {sn.id}, follow_raise=False)
        cx.ob("R01b", h, path is None, "reached only after the suffix test" if path is None else
              f"a completed node can be handed over without the suffix test (lines {[getattr(p.ast, 'lineno', 0) for p in path if getattr(p, 'ast', None) is not None]})")
    # splice body: X = <node>.value.pop(); if X.value is not None: <node>.value.extend(X.value)      (names are free)
    ok = False
    if len(sif.body) == 2 and isinstance(sif.body[0], ast.Assign) and len(sif.body[0].targets) == 1 and isinstance(sif.body[0].targets[0], ast.Name) \
            and isinstance(sif.body[0].value, ast.Call) and call_name(sif.body[0].value) == "pop" and not sif.body[0].value.args and isinstance(sif.body[1], ast.If):
        x_ = sif.body[0].targets[0].id
        node_val = norm(sif.body[0].value.func.value)
        ok = node_val.endswith(".value") and norm(sif.body[1].test) == f"{x_}.value is not None" and not sif.body[1].orelse \
            and [norm(s) for s in sif.body[1].body] == [f"{node_val}.extend({x_}.value)"]
        if ok:
            # and it is the node that is handed over afterwards
            nodes = {norm(h.value.args[0]) for h in handovers if isinstance(h, ast.Expr) and h.value.args}
            ok = node_val[:-len(".value")] in nodes
    if not ok:
        calls_ = {call_name(c) for st_ in sif.body for c in ast.walk(st_) if isinstance(c, ast.Call)}
        cx.need(calls_ <= {"pop", "extend", "append", "insert", "remove", "len", "list"}, "R01b", sif, f"splice body not recognised (calls {sorted(calls_)})")
    cx.ob("R01b", sif, ok, "splice: drop the helper child, append its children (if any) to the parent" if ok else "splice body is not pop() + extend(helper's children)", stmt="splice body")
    # the node handed over is the one spliced; its children are the matched values
    te = [v for _, v in assignments(parse, "t_elem") if v is not None]
    ok = len(te) == 2 and all(isinstance(v, ast.Call) and call_name(v) == "TElement" and norm(v.args[0]) == "top.symbol" for v in te)
    cx.ob("R01b", done_if, ok, "the node carries the symbol being expanded and the children matched so far" if ok else "completed node construction altered", stmt="node construction")
    for h in handovers:
        if isinstance(h, ast.Expr):
            ok = [norm(a) for a in h.value.args] == ["t_elem", "new_token_pos"] and norm(h.value.func.value) == "top"
            cx.ob("R01b", h, ok, "the parent receives the node and the cursor reached by it" if ok else "hand-over arguments altered", stmt=norm(h) + " [args]")
    ntp = [v for _, v in assignments(parse, "new_token_pos") if v is not None]
    ok = len(ntp) == 1 and norm(ntp[0]) == "top.cur_token_pos"
    cx.ob("R01b", done_if, ok, "the cursor handed over is the completed element's cursor" if ok else "cursor hand-over altered", stmt="cursor")
    parse = parse_o

    # ------------------------------------------------------------------ R01c
    init = repo.method(se, "__init__")
    nm = repo.method(se, "next_matched")
    sw = repo.method(se, "switch_to_next_prod")
    cl = repo.method(se, "clone")
    cx.need(all(x is not None for x in (init, nm, sw, cl)), "R01c", f"{REL}::_StackElement", "methods")

    def written(f):
        out = set()
        for n in walk_local(f):
            if isinstance(n, ast.Attribute) and isinstance(n.ctx, ast.Store) and is_name(n.value, "self"):
                out.add(n.attr)
            if isinstance(n, ast.Call) and isinstance(n.func, ast.Attribute) and is_self_attr(n.func.value) and n.func.attr in ("append", "extend", "pop", "insert", "clear"):
                out.add(n.func.value.attr)
        return out
    w_nm, w_sw = written(nm), written(sw)
    ok = w_nm <= w_sw
    cx.ob("R01c", sw, ok, f"switch_to_next_prod re-initialises everything next_matched changes ({sorted(w_nm)})" if ok else
          f"next_matched changes {sorted(w_nm - w_sw)} which switch_to_next_prod does not reset: children / cursor of an abandoned alternative leak into the next one")
    sw_body = {norm(s) for s in sw.body}
    ok = {"self.values = []", "self.cur_token_pos = self.start_token_pos", "self.cur_prod_id += 1"} <= sw_body
    cx.ob("R01c", sw, ok, "values emptied, cursor back to the element's start, next alternative selected" if ok else f"switch_to_next_prod body is {sorted(sw_body)}", stmt="reset values")
    for m in repo.modules.values():
        for n in ast.walk(m.tree):
            if isinstance(n, ast.Attribute) and n.attr == "cur_prod_id" and isinstance(n.ctx, ast.Store):
                f = enclosing_func(n)
                ok = f in (init, sw, cl)
                cx.ob("R01c", n, ok, "alternative index written by the element itself" if ok else "the alternative index is changed outside _StackElement")
    init_fields = {n.attr for n in walk_local(init) if isinstance(n, ast.Attribute) and isinstance(n.ctx, ast.Store) and is_name(n.value, "self")}
    ctor_call = [c for c in walk_local(cl) if isinstance(c, ast.Call) and call_name(c) == "_StackElement"]
    copied = {n.attr for n in walk_local(cl) if isinstance(n, ast.Attribute) and isinstance(n.ctx, ast.Store)}
    via_ctor = set()
    if ctor_call:
        for a, p in zip(ctor_call[0].args, params(init)[1:]):
            for s in walk_local(init):
                if isinstance(s, ast.Assign) and is_name(s.value, p):
                    via_ctor |= {t.attr for t in s.targets if isinstance(t, ast.Attribute)}
    miss = init_fields - copied - via_ctor - {"log_offset"}
    ok = not miss and bool(ctor_call) and [norm(a) for a in ctor_call[0].args] == ["self.symbol", "self.start_token_pos", "self.prod_rs"]
    cx.ob("R01c", cl, ok, "clone copies every field the constructor creates" if ok else f"clone omits {sorted(miss)}")
    vc = [s for s in walk_local(cl) if isinstance(s, ast.Assign) and norm(s.targets[0]).endswith(".values")]
    ok = len(vc) == 1 and norm(vc[0].value) in ("self.values[:]", "list(self.values)", "self.values.copy()")
    cx.ob("R01c", vc[0] if vc else cl, ok, "the clone has its own children list" if ok else "clone shares the children list with the live stack element")
    nb = {norm(s) for s in nm.body}
    ok = {"self.values.append(value)", "self.cur_token_pos = new_token_pos"} <= nb
    cx.ob("R01c", nm, ok, "next_matched appends the child and moves the cursor" if ok else "next_matched altered")
    gcs = repo.method(se, "get_cur_symbol")
    ok = gcs is not None and any(norm(r.value) == "self.prod_rs[self.cur_prod_id].production[len(self.values)]" for r in walk_local(gcs) if isinstance(r, ast.Return))
    cx.ob("R01c", gcs if gcs is not None else se, ok, "the next symbol to match is production[number of children so far]" if ok else "get_cur_symbol altered")
    # a fresh element starts at alternative 0 with no children at the given cursor
    ib = {norm(s) for s in init.body}
    ok = {"self.cur_prod_id = 0", "self.values = []", "self.cur_token_pos = token_pos", "self.start_token_pos = token_pos"} <= ib
    cx.ob("R01c", init, ok, "a new element starts with its first alternative, no children, at the given cursor" if ok else "_StackElement constructor altered")

    # ------------------------------------------------------------------ R01d
    tk = [v for _, v in assignments(parse, "tokens") if v is not None]
    ok = len(tk) == 1 and isinstance(tk[0], ast.ListComp) and len(tk[0].generators) == 1
    if ok:
        gcomp = tk[0].generators[0]
        ok = norm(tk[0].elt) == norm(gcomp.target) and call_name(gcomp.iter) == "tokenize" and [norm(i) for i in gcomp.ifs] == [f"{norm(gcomp.target)}.name not in self.skip_tokens"]
    cx.ob("R01d", tk[0] if tk else parse, ok, "tokens = the tokenizer's tokens, in order, minus the skip set only" if ok else "token list is not [t for t in tokenize(..) if t.name not in skip_tokens]")
    for n in walk_local(parse):
        if isinstance(n, ast.Call) and isinstance(n.func, ast.Attribute) and is_name(n.func.value, "tokens") and n.func.attr in ("sort", "reverse", "pop", "remove", "insert", "append"):
            cx.ob("R01d", n, False, "the token list is modified after tokenizing")
        if isinstance(n, ast.Subscript) and is_name(n.value, "tokens") and isinstance(n.ctx, ast.Store):
            cx.ob("R01d", n, False, "a token is replaced in the token list")
    leafs = [c for c in walk_local(parse) if isinstance(c, ast.Call) and call_name(c) == "TElement" and len(c.args) == 2 and "next_token" in norm(c.args[1])]
    ok = len(leafs) == 1 and [norm(a) for a in leafs[0].args] == ["cur_symbol", "next_token.value"]
    cx.ob("R01d", leafs[0] if leafs else parse, ok, "a leaf has the expected terminal's name and the token's value" if ok else "leaf construction altered")
    if leafs:
        from sa.guards import canon_facts
        fsl = canon_facts(leafs[0])
        ok = ("==", "cur_symbol", "next_token.name", True) in fsl and ("in", "cur_symbol", "self.terminals", True) in fsl
        cx.ob("R01d", leafs[0], ok, "built only when the token under the cursor has the expected name" if ok else "a leaf can be built for a token of another name", stmt=norm(leafs[0])[:50] + " [guard]")
        call = parent(leafs[0])
        ok = isinstance(call, ast.Call) and call_name(call) == "next_matched" and norm(call.args[1]).replace(" ", "") == "top.cur_token_pos+1"
        cx.ob("R01d", call if isinstance(call, ast.Call) else leafs[0], ok, "the cursor advances by exactly one token" if ok else "cursor does not advance by exactly one on a terminal match")
    nt = [v for _, v in assignments(parse, "next_token") if v is not None]
    ok = len(nt) == 1 and norm(nt[0]) == "tokens[top.cur_token_pos]"
    cx.ob("R01d", parse, ok, "the token examined is the one under the top element's cursor" if ok else "next_token altered", stmt="next_token")

    # ------------------------------------------------------------------ R01e
    rets = [r for r in ast.walk(done_if) if isinstance(r, ast.Return)]
    ok = len(rets) == 1 and is_name(rets[0].value, "root")
    rd = [v for _, v in assignments(parse, "root") if v is not None]
    ok = ok and len(rd) == 1 and norm(rd[0]) == "t_elem.value[0]"
    g2 = {(norm(e), pol) for e, pol in facts(rets[0])} if rets else set()
    ok = ok and ("parse_stack", False) in g2
    cx.ob("R01e", rets[0] if rets else parse, ok, "returned when the stack is empty: child 0 of the synthetic start node" if ok else "the returned root is not child 0 of the last completed (synthetic) node")
    ini = [c for c in walk_local(parse) if isinstance(c, ast.Call) and call_name(c) == "ProdRule"]
    ok = len(ini) == 1 and norm(ini[0].args[1]) == "(start_symbol_name, self._END_TOKEN_NAME)" and norm(ini[0].args[0]) == "self._INIT_PRODUCTION_NAME"
    cx.ob("R01e", ini[0] if ini else parse, ok, "the synthetic production is $START$ -> (start symbol, $END$)" if ok else "synthetic start production altered")
    ssn = [(s, v) for s, v in assignments(parse, "start_symbol_name") if v is not None]
    ok = len(ssn) == 1 and norm(ssn[0][1]) == "self.start_symbol_name" and any(norm(e) == "start_symbol_name is not None" and not pol for e, pol in facts(ssn[0][0]))
    cx.ob("R01e", ssn[0][0] if ssn else parse, ok, "the start symbol defaults to the constructor's" if ok else "start symbol selection altered")
    # end token appended by the tokenizer under the same name
    tok = cx.func(REL, "_Tokenizer.tokenize", "R01e")
    endt = [c for c in walk_local(tok) if isinstance(c, ast.Call) and call_name(c) == "_Token" and norm(c.args[0]) == "self.end_token_name"]
    tinit = cx.func(REL, "_Tokenizer.__init__", "R01e")
    dflt = {a.arg: d for a, d in zip(tinit.args.kwonlyargs, tinit.args.kw_defaults) if d is not None}
    ec = class_attr(cx.cls(REL, "LLParser", "R01e"), "_END_TOKEN_NAME")
    ok = len(endt) == 1 and "end_token_name" in dflt and const(dflt["end_token_name"], str) and const(ec, str) and dflt["end_token_name"].value == ec.value
    cx.ob("R01e", endt[0] if endt else tok, ok, "the tokenizer ends every input with the parser's end token" if ok else "end token of tokenizer and parser differ")


# ---------------------------------------------------------------------- R01b, flag-carried splice decision
class _Und(Exception):
    pass


def _flag_agreement(cx, repo, sif, attr, fcp, hname):
    """The splice is decided by `cur_prod.<attr>`.  Decide  <attr> == (production ends in a live helper symbol)  for every
    ProdRule object that can be constructed: allocation-site flow (sa.objflow) tells which construction sites an expression
    `R` may denote; every construction site is classified by (what decides its last symbol, what decides its flag) where each
    side is a constant or "the same as R's"; the possible (ends-in-helper, flag) pairs per site are the least fixpoint."""
    m = repo.mod(REL)
    pr = cx.cls(REL, "ProdRule", "R01b")
    init = repo.method(pr, "__init__")
    cx.need(init is not None, "R01b", pr, "ProdRule.__init__")
    ps = params(init)
    st = {t.attr: sst.value for sst in init.body if isinstance(sst, ast.Assign) for t in sst.targets if is_self_attr(t)}
    cx.need(isinstance(st.get(attr), ast.Name) and st[attr].id in ps and isinstance(st.get("production"), ast.Name) and st["production"].id in ps,
            "R01b", init, f"ProdRule stores its `production` and `{attr}` parameters unchanged")
    fpar, ppar = st[attr].id, st["production"].id
    fidx, pidx = ps.index(fpar) - 1, ps.index(ppar) - 1
    ndef = len(init.args.defaults)
    pos = init.args.args
    dflt = None
    k = ps.index(fpar) - (len(pos) - ndef)
    if 0 <= k < ndef:
        dflt = init.args.defaults[k]
    for kw, d in zip(init.args.kwonlyargs, init.args.kw_defaults):
        if kw.arg == fpar:
            dflt = d
    # the two attributes are fixed at construction
    for mod in repo.modules.values():
        for n in ast.walk(mod.tree):
            if isinstance(n, ast.Attribute) and n.attr in (attr, "production") and isinstance(n.ctx, (ast.Store, ast.Del)) and enclosing_func(n) is not init \
                    and (n.attr == attr or mod.rel == REL and not is_self_attr(n)):
                raise AnalysisError("R01b", where_(n), f"`.{n.attr}` is re-assigned after construction: flag agreement not decided")
    of = ObjFlow(m, "ProdRule")
    cx.at_least("R01b", "ProdRule construction sites", len(of.sites), 5)

    def argof(c, idx, name):
        for kw in c.keywords:
            if kw.arg == name:
                return kw.value
        return c.args[idx] if idx < len(c.args) else None

    def is_kobj(func, name):
        return any(isinstance(a, ast.Attribute) and a.attr in ("production", "sort_n", attr) and is_name(a.value, name) for a in walk_local(func))

    def sources(func, name, seen):
        """Expressions whose value may be bound to `name` (directly, or as an element of the container it iterates)."""
        out = []
        if name in params(func):
            out.append(("param", name))
        for stt, v in assignments(func, name):
            if v is not None and not (isinstance(stt, (ast.For, ast.comprehension))):
                out.append(("expr", v))
        for n in walk_local(func):
            if isinstance(n, (ast.For, ast.comprehension)):
                tn = [x.id for x in ast.walk(n.target) if isinstance(x, ast.Name)]
                if name not in tn:
                    continue
                it = n.iter
                while isinstance(it, ast.Call) and call_name(it) in ("enumerate", "sorted", "list", "tuple", "reversed", "iter") and it.args:
                    it = it.args[0]
                if isinstance(it, ast.Name):
                    out.extend(elements(func, it.id, seen))
                else:
                    out.append(("opaque", it))
        return out

    def elements(func, cname, seen):
        if (id(func), cname) in seen:
            return []
        seen.add((id(func), cname))
        out = []
        if cname in params(func):
            out.append(("param-elem", cname))
        for stt, v in assignments(func, cname):
            if v is None:
                continue
            if isinstance(v, (ast.List, ast.Tuple, ast.Set)):
                out.extend(("expr", e) for e in v.elts)
            elif isinstance(v, ast.ListComp):
                out.append(("expr", v.elt))
            else:
                out.append(("opaque", v))
        for c in walk_local(func):
            if isinstance(c, ast.Call) and isinstance(c.func, ast.Attribute) and is_name(c.func.value, cname):
                if c.func.attr in ("append", "add", "appendleft"):
                    out.append(("expr", c.args[0]))
                elif c.func.attr == "insert":
                    out.append(("expr", c.args[1]))
                elif c.func.attr in ("extend", "update"):
                    out.append(("opaque", c.args[0]))
        return out

    def is_terminal(n):
        """A must-fact at this use says the name is one of the terminals (which are asserted not to contain '__')."""
        for t, pol in facts(n):
            if isinstance(t, ast.Compare) and len(t.ops) == 1 and is_name(t.left, n.id) and norm(t.comparators[0]) in ("terminals", "self.terminals"):
                if isinstance(t.ops[0], ast.In) and pol or isinstance(t.ops[0], ast.NotIn) and not pol:
                    return True
        return False

    def helper_free(e, func, depth=0):
        """True when no helper symbol can occur in the value of `e` (user supplied symbols; '__' is reserved, R01a)."""
        for n in ast.walk(e):
            if isinstance(n, ast.Attribute) and n.attr == "production":
                return False
            if isinstance(n, ast.Name) and isinstance(n.ctx, ast.Load):
                if func is fcp and n.id == hname:
                    return False
                if n.id in ("self", "cls") or n.id[:1].isupper() or n.id in ("next", "len", "tuple", "list", "str", "sorted", "set"):
                    continue
                if is_terminal(n):
                    continue
                if depth > 3:
                    return False
                for kind, src in sources(func, n.id, set()):
                    if kind in ("param", "param-elem"):
                        if not user_param(func, src, depth + 1):
                            return False
                    elif kind == "expr":
                        if src is e or any(x is e for x in ast.walk(src)):
                            continue
                        if not helper_free(src, func, depth + 1):
                            return False
                    else:
                        if not helper_free(src, func, depth + 1):
                            return False
        return True

    def user_param(func, pname, depth):
        """Every caller inside the package passes helper-free data for this parameter (or it is public input)."""
        if depth > 4:
            return False
        ix = params(func).index(pname)
        callers = [(f, c) for fl in of.funcs.values() for f in fl for c in walk_local(f) if isinstance(c, ast.Call) and func in of.resolve(c)]
        for f, c in callers:
            off = 1 if params(func)[:1] in (["self"], ["cls"]) and isinstance(c.func, ast.Attribute) else 0
            a = None
            for kw in c.keywords:
                if kw.arg == pname:
                    a = kw.value
            if a is None and ix - off < len(c.args):
                a = c.args[ix - off]
            if a is None:
                continue
            if not helper_free(a, f, depth):
                return False
        return True

    def last_terms(e, func, seen):
        """(terms deciding the last symbol, may be empty).  Terms: 'N' user symbol, 'A' helper, ('S', R) the last symbol of R's production."""
        if isinstance(e, ast.Call) and call_name(e) in ("tuple", "list") and len(e.args) == 1 and isinstance(e.func, ast.Name):
            return last_terms(e.args[0], func, seen)
        if isinstance(e, (ast.Tuple, ast.List)):
            if not e.elts:
                return set(), True
            le = e.elts[-1]
            if isinstance(le, ast.Starred):
                raise _Und(f"starred tail in {norm(e)}")
            if func is fcp and is_name(le, hname):
                return {"A"}, False
            if helper_free(le, func):
                return {"N"}, False
            raise _Und(f"cannot classify the last element of {norm(e)}")
        if isinstance(e, ast.BinOp) and isinstance(e.op, ast.Add):
            rt, re_ = last_terms(e.right, func, seen)
            if not re_:
                return rt, False
            lt, le_ = last_terms(e.left, func, seen)
            only = [t for t in rt if isinstance(t, tuple) and t[0] == "S"]
            if len(rt) == 1 and len(only) == 1:
                # the left operand decides only when R's production is empty: keep that condition with the term
                lt = {("C", t, only[0][1]) if not isinstance(t, tuple) else t for t in lt}
            return rt | lt, le_
        if isinstance(e, ast.Attribute) and e.attr == "production" and isinstance(e.value, ast.Name):
            return {("S", e.value.id)}, True
        if isinstance(e, ast.Subscript) and isinstance(e.slice, ast.Slice) and e.slice.upper is None and e.slice.step is None:
            t, _ = last_terms(e.value, func, seen)
            return t | {"E"}, True      # 'E': the slice may drop everything although the original is not empty
        if isinstance(e, ast.Name):
            if (id(func), e.id) in seen:
                return set(), True
            seen = seen | {(id(func), e.id)}
            out, emp = set(), False
            srcs = sources(func, e.id, set())
            if not srcs:
                raise _Und(f"no binding of `{e.id}` found")
            for kind, src in srcs:
                if kind == "expr":
                    if isinstance(src, ast.Name) and is_kobj(func, src.id) or id(src) in of.site_ix:
                        continue        # a ProdRule object, not a tuple of symbols (separated by the isinstance test of the consumer)
                    t, em = last_terms(src, func, seen)
                    out |= t
                    emp = emp or em
                elif kind in ("param", "param-elem"):
                    if user_param(func, src, 0):
                        out.add("N")
                        emp = True
                    else:
                        raise _Und(f"parameter `{src}` may carry helper symbols")
                else:
                    if helper_free(src, func):
                        out.add("N")
                        emp = True
                    else:
                        raise _Und(f"cannot follow {norm(src)[:60]}")
            return out, emp
        if helper_free(e, func):
            return {"N"}, True
        raise _Und(f"cannot classify production expression {norm(e)[:70]}")

    info = []
    for i, c in enumerate(of.sites):
        func = enclosing_func(c)
        pe = argof(c, pidx, ppar)
        fe = argof(c, fidx, fpar)
        try:
            if pe is None:
                raise _Und("no production argument")
            terms, emp = last_terms(pe, func, set())
            if emp:
                terms = terms | {"N"} if not any(isinstance(t, tuple) and t[0] == "S" for t in terms) else terms
            if fe is None:
                fe = dflt
            if fe is None:
                raise _Und("flag argument missing and no default")
            if isinstance(fe, ast.Constant) and isinstance(fe.value, bool):
                ft = "T" if fe.value else "F"
            elif isinstance(fe, ast.Attribute) and fe.attr == attr and isinstance(fe.value, ast.Name):
                ft = ("S", fe.value.id)
            else:
                raise _Und(f"flag expression {norm(fe)}")
        except _Und as u:
            raise AnalysisError("R01b", f"{REL}:{c.lineno}", f"flag agreement not decided for `{norm(c)[:70]}`: {u}")
        info.append((c, func, terms, ft))
    pairs = [set() for _ in info]
    own = [set() for _ in info]      # pairs a site creates itself (not an unchanged copy of both sides from one source object)
    via = [dict() for _ in info]
    changed = True
    while changed:
        changed = False
        for i, (c, func, terms, ft) in enumerate(info):
            new, mine = set(), set()

            def flags():
                return [ft] if not isinstance(ft, tuple) else [q[1] for k2 in of.of_name(func, ft[1]) for q in pairs[k2]]
            for t in terms:
                if isinstance(t, tuple) and t[0] == "C":
                    # value t[1] applies when the production of object t[2] is empty (then that object does not end in a helper)
                    if isinstance(ft, tuple) and ft[1] == t[2]:
                        fl = [q[1] for k2 in of.of_name(func, t[2]) for q in pairs[k2] if q[0] == "N"]
                    else:
                        fl = flags()
                    for f in fl:
                        mine.add((t[1], f))
                        via[i].setdefault((t[1], f), None)
                elif isinstance(t, tuple):
                    src = of.of_name(func, t[1])
                    if isinstance(ft, tuple) and ft[1] == t[1]:
                        for j in src:
                            new |= pairs[j]
                    else:
                        for j in src:
                            for pp in pairs[j]:
                                for f in flags():
                                    mine.add((pp[0], f))
                                    via[i].setdefault((pp[0], f), t[1])
                else:
                    e = "N" if t == "E" else t
                    for f in flags():
                        mine.add((e, f))
                        via[i].setdefault((e, f), None)
            if not (new | mine) <= pairs[i]:
                pairs[i] |= new | mine
                changed = True
            own[i] |= mine
    origins = [info[j][0].lineno for j in range(len(info)) if "A" in info[j][2]]
    for i, (c, func, terms, ft) in enumerate(info):
        bad = sorted(pp for pp in own[i] if pp in (("A", "F"), ("N", "T")))
        if not bad:
            inherited = sorted(pp for pp in pairs[i] - own[i])
            cx.ob("R01b", c, True, f"`{attr}` agrees with 'the production ends in a helper symbol' for every object built here: possible (ends-in-helper, flag) pairs {sorted(own[i])}"
                  + (f"; last symbol and flag are both copied unchanged from one source object ({inherited})" if inherited else ""))
            continue
        pp = bad[0]
        r = via[i].get(pp)
        if pp == ("A", "F"):
            msg = (f"the production built here ends in the last symbol of `{r}`'s production, and `{r}` may be a group production ending in a helper symbol (built at line {origins}), "
                   if r else "the production built here ends in a helper symbol, ") + f"but `{attr}` is {'not passed (default False)' if argof(c, fidx, fpar) is None else 'false'}: the splice is skipped and the helper node stays in the returned tree"
        else:
            msg = f"`{attr}` is true for a production that does not end in a helper symbol: the splice would drop a real child"
        cx.ob("R01b", c, False, msg)


def where_(n):
    from sa.core import where
    return where(n)
