"""C14 — syntax colours resolve by inheritance, independent of registration order."""
import ast

from sa.core import (AnalysisError, FUNC, assignments, call_name, class_attr, const, dotted, enclosing, enclosing_func,
                     enclosing_stmt, is_attr, is_name, is_self_attr, literal, norm, params, parent, walk_local, names_in)
from sa.guards import facts, enclosing_loops
from sa.finite import Interp, C, K, S, TOP

PROP = "C14"
REL = "ak/color.py"
EXPLANATION = (
    "Finite abstract interpretation + guard / ordering / def-use rules on the colours configuration in ak/color.py. "
    "R14a/R14c: _ColorConfColorDescr.resolve is interpreted over representative tokens {'' , '-', NAME, INT, TUPLE, GRAY} x "
    "parent {absent, coloured, default} for fg and bg (the code touches tokens only through ==''/in ['-','']): the value "
    "handed to ColorFmt is the own colour, else the parent's, '-' and the un-inherited '' become None, and neither '' nor "
    "'-' can ever reach ColorFmt; modifiers merge parent first, own last. R14b: the syntax map is written only under 'id not "
    "present' (first registration wins) and the constructor registers the explicit configuration before the built-ins. "
    "R14d: every registration retries all pending items of the whole map, resolves a chain from its resolved ancestor "
    "outwards threading the parent, leaves chains reaching unknown ids untouched. R14e: the palette cache is reset whenever "
    "a new id is stored and the global configuration re-syncs synced palettes. R14f: under no_color resolve stores the "
    "effect-free formatter and constructs no ColorFmt. R14g: lookup falls back to the default id and to the effect-free "
    "formatter for unresolved items. R14h: description grammar: at most three sections, modifier table maps the ten names "
    "to (effect, bool) with no_ => False. Order-independence as such (all registration histories) is not decided."
)

EFFECTS = ("bold", "faint", "underline", "blink", "crossed")


def run(cx):
    repo = cx.repo
    for r, t in (("R14a", "neither '' nor '-' can reach ColorFmt; own colour overrides, '' inherits, '-' is the terminal default"),
                 ("R14b", "first registration wins; explicit configuration is registered before the built-in defaults"),
                 ("R14c", "modifiers: parent's first, own override"),
                 ("R14d", "pending items of the whole map are retried on every registration; chains resolve from the resolved ancestor outwards"),
                 ("R14e", "cache reset when a new id is stored; global configuration re-syncs synced palettes"),
                 ("R14f", "no_color: only the effect-free formatter"),
                 ("R14g", "lookup: unknown id -> default id; unresolved -> effect-free formatter"),
                 ("R14h", "description grammar: <= 3 sections; modifier table"),
                 ("R14i", "nested configuration dicts are flattened to the full dotted id of every item")):
        cx.rule(r, t)
    descr = cx.cls(REL, "_ColorConfColorDescr", "R14a")
    resolve = cx.func(REL, "_ColorConfColorDescr.resolve", "R14a")
    d_init = cx.func(REL, "_ColorConfColorDescr.__init__", "R14a")
    conf = cx.cls(REL, "ColorsConfig", "R14b")
    c_init = cx.func(REL, "ColorsConfig.__init__", "R14b")
    add = cx.func(REL, "ColorsConfig.add_new_items", "R14b")
    get_color = cx.func(REL, "ColorsConfig.get_color", "R14g")
    parse = cx.func(REL, "_ColorConfColorDescr._parse_init_str", "R14h")
    parse_mod = cx.func(REL, "_ColorConfColorDescr._parse_modifiers", "R14h")

    cx.guard(_resolve_table, cx, resolve, d_init)
    cx.guard(_first_wins, cx, repo, c_init, add)
    from sa.inline import inlined as _inlined
    add_i, _u = _inlined(repo.modules[REL], add, nested=True, tests=True)
    if _u:
        cx.note(f"R14d: add_new_items analysed with {_u} expanded in place")
    cx.guard(_pending, cx, add_i)
    cx.guard(_cache_and_sync, cx, repo, add)
    cx.guard(_lookup, cx, get_color, conf)
    cx.guard(_grammar, cx, descr, parse, parse_mod, repo)
    cx.guard(_flatten_rule, cx, repo)


# -------------------------------------------------------------------------------------- R14a / c / f
OWN = [("''", C("")), ("'-'", C("-")), ("NAME", C("RED")), ("INT", C(107)), ("INT 0", C(0)), ("TUPLE", C((1, 2, 3))), ("TUPLE (0,0,0)", C((0, 0, 0))), ("GRAY", C("g3"))]
PARENT = [("no parent", None), ("parent coloured", C("BLUE")), ("parent default", C(None))]


def _resolve_table(cx, resolve, d_init):
    ps = params(resolve)
    cx.need(ps[1:] == ["parent", "no_color"], "R14a", resolve, f"resolve parameters changed: {ps}")
    n = 0
    for no_color in (False, True):
        for pl, pv in PARENT:
            for ol, ov in OWN:
                for slot in ("fg_color", "bg_color"):
                    other = "bg_color" if slot == "fg_color" else "fg_color"
                    n += 1
                    calls = []

                    def hook(it, e, env):
                        if call_name(e) == "ColorFmt":
                            calls.append(([it.ev(a, env) for a in e.args], {k.arg: it.ev(k.value, env) for k in e.keywords}))
                        return None
                    it = Interp(call_hook=hook)
                    env = {"self.color_fmt": C(None), f"self.{slot}": ov, f"self.{other}": C("GREEN"),
                           "self.modifiers": K("dict", None, "own-mods"), "no_color": C(no_color)}
                    if pv is None:
                        env.update({"self.parent_syntax_id": C(None), "parent": C(None)})
                    else:
                        env.update({"self.parent_syntax_id": K("str", False), "parent": K("other", False, "descr"), "parent.color_fmt": K("other", False, "fmt"),
                                    f"parent.{slot}": pv, f"parent.{other}": C("CYAN"), "parent.modifiers": K("dict", None, "parent-mods")})
                    outs = it.run(resolve.body, env)
                    label = f"{slot} own={ol}, {pl}, no_color={no_color}"
                    normal = [o for o in outs if o.how == "fall" or o.how == "return"]
                    if not normal:
                        cx.ob("R14a", resolve, False, f"{label}: resolve ends with {[(o.how, o.value) for o in outs]}", stmt=f"resolve {label}")
                        continue
                    # expected resolved value
                    if ov.v == "":
                        want = pv.v if pv is not None else None
                    elif ov.v == "-":
                        want = None
                    else:
                        want = ov.v
                    for o in ([] if no_color else normal):
                        got = o.env.get(f"self.{slot}")
                        ok = isinstance(got, C) and got.v == want and type(got.v) is type(want)
                        cx.ob("R14a", resolve, ok, f"{label} -> {want!r}" if ok else f"{label}: resolved {slot} is {got!r}, the property needs {want!r}", stmt=f"resolve {label}")
                    if no_color:
                        fm = {repr(o.env.get("self.color_fmt")) for o in normal}
                        ok = not calls and all("_NO_EFFECTS_FMT" in f for f in fm)
                        cx.ob("R14f", resolve, ok, f"{label}: effect-free formatter, no ColorFmt built" if ok else f"{label}: no_color resolve builds a ColorFmt / stores {sorted(fm)}", stmt=f"no_color {label}")
                    else:
                        cx.ob("R14a", resolve, len(calls) >= 1, f"{label}: a ColorFmt is built" if calls else f"{label}: no ColorFmt is built", stmt=f"fmt built {label}")
                        for pos, kw in calls:
                            arg = pos[0] if (slot == "fg_color" and pos) else kw.get("bg_color" if slot == "bg_color" else "color", pos[1] if len(pos) > 1 else None)
                            bad = isinstance(arg, C) and arg.v in ("", "-")
                            ok = isinstance(arg, C) and not bad and arg.v == want
                            cx.ob("R14a", resolve, ok, f"{label}: ColorFmt receives {want!r}" if ok else
                                  f"{label}: ColorFmt receives {arg!r} ({'a special token it rejects with ValueError' if bad else 'not the resolved colour'})", stmt=f"ColorFmt arg {label}")
    cx.counts["R14a:abstract cases"] = n
    # R14c modifiers: {**parent.modifiers, **self.modifiers}
    ms = [st for st in walk_local(resolve) if isinstance(st, ast.Assign) and any(is_self_attr(t, "modifiers") for t in st.targets)]
    ok = False
    if len(ms) == 1 and isinstance(ms[0].value, ast.Dict) and all(k is None for k in ms[0].value.keys):
        ok = [norm(v) for v in ms[0].value.values] == ["parent.modifiers", "self.modifiers"]
    cx.ob("R14c", ms[0] if ms else resolve, ok, "modifiers = parent's, then own (own override)" if ok else "modifier merge is not {**parent.modifiers, **self.modifiers}")
    if ms:
        g = any(isinstance(e, ast.Compare) and len(e.ops) == 1 and norm(e.left) == "self.parent_syntax_id" and isinstance(e.comparators[0], ast.Constant) and e.comparators[0].value is None and
                (isinstance(e.ops[0], ast.IsNot) and pol or isinstance(e.ops[0], ast.Is) and not pol) for e, pol in facts(ms[0]))
        cx.ob("R14c", ms[0], g, "merged only when there is a parent" if g else "modifier merge is not under `parent_syntax_id is not None`", stmt=norm(ms[0]) + " [guard]")
    fc = [c for c in walk_local(resolve) if isinstance(c, ast.Call) and call_name(c) == "ColorFmt"]
    ok = len(fc) == 1 and any(k.arg is None and norm(k.value) == "self.modifiers" for k in fc[0].keywords) and norm(fc[0].args[0]) == "self.fg_color" \
        and any(k.arg == "bg_color" and norm(k.value) == "self.bg_color" for k in fc[0].keywords)
    cx.ob("R14c", fc[0] if fc else resolve, ok, "ColorFmt(fg, bg_color=bg, **modifiers)" if ok else "formatter is not built from (fg_color, bg_color, modifiers)")
    # constructor: None from the parser becomes '' (inherit); parent-less items resolve at once
    for slot in ("fg_color", "bg_color"):
        st = [s for s in walk_local(d_init) if isinstance(s, ast.Assign) and any(is_self_attr(t, slot) for t in s.targets) and const(s.value, str)]
        ok = len(st) == 1 and st[0].value.value == "" and any(isinstance(e, ast.Compare) and isinstance(e.ops[0], ast.Is) and pol and norm(e.left) == f"self.{slot}" for e, pol in facts(st[0]))
        cx.ob("R14a", st[0] if st else d_init, ok, f"unspecified {slot} is the inherit token ''" if ok else f"unspecified {slot} is not turned into ''")
    rc = [c for c in walk_local(d_init) if isinstance(c, ast.Call) and call_name(c) == "resolve"]
    ok = len(rc) == 1 and [norm(a) for a in rc[0].args] == ["None", "no_color"] and any(
        isinstance(e, ast.Compare) and isinstance(e.ops[0], ast.Is) and pol and norm(e.left) == "self.parent_syntax_id" for e, pol in facts(rc[0]))
    cx.ob("R14d", rc[0] if rc else d_init, ok, "an item without parent is resolved at construction" if ok else "parent-less items are not resolved at construction")


# -------------------------------------------------------------------------------------- R14b
def _first_wins(cx, repo, c_init, add):
    stores = []
    for m in repo.modules.values():
        for n in ast.walk(m.tree):
            if isinstance(n, ast.Subscript) and isinstance(n.ctx, (ast.Store, ast.Del)) and isinstance(n.value, ast.Attribute) and n.value.attr == "syntax_map":
                stores.append(n)
            if isinstance(n, ast.Call) and isinstance(n.func, ast.Attribute) and n.func.attr in ("update", "setdefault", "pop", "clear", "popitem") and \
                    isinstance(n.func.value, ast.Attribute) and n.func.value.attr == "syntax_map":
                stores.append(n)
    cx.at_least("R14b", "writes to syntax_map", len(stores), 1)
    for s in stores:
        f = enclosing_func(s)
        if f is not add:
            cx.ob("R14b", s, False, "the syntax map is written outside add_new_items")
            continue
        if isinstance(s, ast.Call):
            cx.ob("R14b", s, s.func.attr == "setdefault", "setdefault keeps the first registration" if s.func.attr == "setdefault" else f"syntax_map.{s.func.attr}() can overwrite or drop a registered item")
            continue
        key = norm(s.slice)
        fs_ = list(facts(s))
        # ... or the loop runs over a dict that was filtered by that very test (keys of a dict are distinct, and the only
        # writes to the map inside the loop are the stores of these keys)
        from sa.guards import iter_facts
        for l_ in enclosing_loops(s):
            if isinstance(l_, ast.For):
                only_own = all(x is s or not (isinstance(x, ast.Subscript) and isinstance(x.ctx, (ast.Store, ast.Del)) and isinstance(x.value, ast.Attribute) and x.value.attr == "syntax_map")
                               for x in ast.walk(l_))
                if only_own:
                    fs_ += iter_facts(l_)
        g = any(isinstance(e, ast.Compare) and len(e.ops) == 1 and ((isinstance(e.ops[0], ast.In) and not pol) or (isinstance(e.ops[0], ast.NotIn) and pol))
                and norm(e.left) == key and norm(e.comparators[0]) == "self.syntax_map" for e, pol in fs_)
        cx.ob("R14b", s, g, "an id is stored only if it is not present yet (first registration wins)" if g else
              "a later registration overwrites an existing id (component defaults could override the explicit configuration)")
        st = enclosing_stmt(s)
        v = st.value if isinstance(st, ast.Assign) else None
        ok = isinstance(v, ast.Call) and call_name(v) == "_ColorConfColorDescr" and len(v.args) >= 2 and norm(v.args[0]) == key
        if ok:
            # the init string is the one paired with the key in the iteration
            loop = next((l for l in enclosing_loops(s) if isinstance(l, ast.For)), None)
            ok = loop is not None and isinstance(loop.target, ast.Tuple) and [norm(x) for x in loop.target.elts] == [key, norm(v.args[1])] and norm(loop.iter).endswith(".items()")
            if ok:
                from sa.guards import iter_source
                comp_, _b, _v = iter_source(loop)
                if comp_ is not None:
                    # a filtered copy must keep each id with its own init string
                    g_ = comp_.generators[0]
                    ok = isinstance(comp_, ast.DictComp) and isinstance(g_.target, ast.Tuple) and [norm(x) for x in g_.target.elts] == [norm(comp_.key), norm(comp_.value)] \
                        and norm(g_.iter).endswith(".items()")
            ok = ok and any(norm(a) == "self.no_color" for a in v.args[2:] + [k.value for k in v.keywords])
        cx.ob("R14b", st, ok, "stored description is built from that id's own init string and the configuration's no_color" if ok else
              "stored description is not _ColorConfColorDescr(id, its init string, source, self.no_color)", stmt=norm(st)[:80] + " [value]")
    # constructor: explicit configuration first
    calls = [c for c in c_init.body if isinstance(c, ast.Expr) and isinstance(c.value, ast.Call) and call_name(c.value) == "add_new_items"]
    srcs = []
    for c in calls:
        a0 = c.value.args[0]
        d = [v for s0, v in sorted(assignments(c_init, a0.id), key=lambda x: x[0].lineno) if v is not None and s0.lineno < c.lineno] if isinstance(a0, ast.Name) else [a0]
        srcs.append(norm(d[-1]) if d else "?")
    ok = len(calls) == 2 and "init_config" in srcs[0] and "BUILT_IN_CONFIG" in srcs[1]
    cx.ob("R14b", calls[0] if calls else c_init, ok, "the explicit configuration is registered before the built-in defaults" if ok else
          f"constructor registers {srcs}: the explicit configuration must come first")
    sm = [s for s in c_init.body if isinstance(s, ast.Assign) and any(is_self_attr(t, "syntax_map") for t in s.targets)]
    ok = len(sm) == 1 and isinstance(sm[0].value, ast.Dict) and not sm[0].value.keys and (not calls or sm[0].lineno < calls[0].lineno)
    cx.ob("R14b", sm[0] if sm else c_init, ok, "the map starts empty" if ok else "syntax map initialisation altered")
    nc = [s for s in c_init.body if isinstance(s, ast.Assign) and any(is_self_attr(t, "no_color") for t in s.targets)]
    ok = len(nc) == 1 and is_name(nc[0].value, "no_color") and (not calls or nc[0].lineno < calls[0].lineno)
    cx.ob("R14f", nc[0] if nc else c_init, ok, "no_color is recorded before any item is created" if ok else "self.no_color is not set from the argument before registration")


# -------------------------------------------------------------------------------------- R14d
def _pending(cx, add):
    # the rules below describe one algorithm: a work list of all pending items, an upward walk collecting a path, resolution over
    # the reversed path, rounds until nothing new is resolved.  Another algorithm is not judged by them.
    cx.need(assignments(add, "to_resolve") or assignments(add, "path"), "R14d", add,
            "the resolution of pending items is not the work-list / path walk these rules are written for (another algorithm: not decided)")
    tr = [v for _, v in assignments(add, "to_resolve") if v is not None]
    ok = False
    if len(tr) == 1 and isinstance(tr[0], ast.DictComp):
        g = tr[0].generators[0]
        ok = norm(g.iter) == "self.syntax_map.items()" and len(g.ifs) == 1 and norm(g.ifs[0]).endswith(".color_fmt is None")
    cx.shape_ob("R14d", add, ok, "the work list is every pending item of the whole map (not only the new ones)", "the work list of unresolved items is not built from all items of syntax_map with color_fmt is None", add, stmt="to_resolve")
    rc = [c for c in walk_local(add) if isinstance(c, ast.Call) and call_name(c) == "resolve"]
    cx.need(len(rc) == 1, "R14d", add, "one resolve call expected in add_new_items")
    c = rc[0]
    loops = enclosing_loops(c)
    inner = loops[0] if loops else None
    ok = isinstance(inner, ast.For) and isinstance(inner.iter, ast.Call) and call_name(inner.iter) == "reversed" and is_name(inner.iter.args[0], "path")
    cx.shape_ob("R14d", c, ok, "a chain is resolved from the resolved ancestor outwards (reversed path)", "chain is not resolved over reversed(path)", add)
    a0 = norm(c.args[0]) if c.args else "?"
    thr = False
    if isinstance(inner, ast.For):
        body = inner.body
        idx = next((i for i, s in enumerate(body) if c in list(ast.walk(s))), None)
        recv = norm(c.func.value)
        thr = idx is not None and any(isinstance(s, ast.Assign) and norm(s.targets[0]) == a0 and norm(s.value) == recv for s in body[idx + 1:])
        fetched = any(isinstance(s, ast.Assign) and norm(s.targets[0]) == recv and norm(s.value) == f"self.syntax_map[{norm(inner.target)}]" for s in body[:idx or 0])
        thr = thr and fetched
    cx.shape_ob("R14d", c, thr, "each resolved item becomes the parent of the next one in the chain", "the parent is not threaded along the chain", add, stmt=norm(c) + " [threading]")
    ok = len(c.args) == 2 and norm(c.args[1]) == "self.no_color"
    cx.ob("R14f", c, ok, "chains are resolved with the configuration's no_color" if ok else "resolve is not given self.no_color")
    # start of the chain: the ancestor that is already resolved
    from sa.core import ancestors
    g = False
    prev = c
    for a in ancestors(c):
        if isinstance(a, ast.If) and isinstance(a.test, ast.Compare) and isinstance(a.test.ops[0], ast.IsNot) and norm(a.test.left).endswith(".color_fmt") \
                and const(a.test.comparators[0]) and a.test.comparators[0].value is None and any(prev is s or prev in list(ast.walk(s)) for s in a.body):
            # the first parent handed to resolve must be the object just tested
            tested = norm(a.test.left)[: -len(".color_fmt")]
            g = any(isinstance(s, ast.Assign) and norm(s.targets[0]) == a0 and norm(s.value) == tested for s in a.body)
        prev = a
    cx.shape_ob("R14d", c, g, "resolution starts only at an ancestor that is already resolved", "chain resolution is not guarded by `ancestor.color_fmt is not None`", add, stmt=norm(c) + " [start]")
    # unknown parent => nothing of the chain is touched
    cu = [x for x in walk_local(add) if isinstance(x, ast.Call) and call_name(x) == "update" and norm(x.func.value) == "cant_resolve"]
    ok = len(cu) == 1 and any(isinstance(e, ast.BoolOp) or (isinstance(e, ast.Compare) and isinstance(e.ops[0], ast.NotIn) and norm(e.comparators[0]) == "self.syntax_map") for e, pol in facts(cu[0]) if pol)
    brk = False
    if cu:
        blk = parent(enclosing_stmt(cu[0]))
        body = blk.body if hasattr(blk, "body") else []
        brk = any(isinstance(s, ast.Break) for s in body)
    cx.shape_ob("R14d", cu[0] if cu else add, ok and brk, "a chain that reaches an unknown id is left pending, untouched", "chains reaching an unknown id are not abandoned without partial writes", add)
    # walking up: path.append(id); move to the parent's description
    up = [s for s in walk_local(add) if isinstance(s, ast.Assign) and norm(s.value).startswith("self.syntax_map[") and "parent_syntax_id" in norm(s.value)]
    ok = len(up) == 1
    cx.shape_ob("R14d", up[0] if up else add, ok, "the walk follows parent_syntax_id through the map", "the upward walk along parent ids is missing", add)
    # fixpoint loop: repeats while something was resolved
    nr = [s for s in walk_local(add) if isinstance(s, ast.If) and is_name(s.test, "new_resolved")]
    ok = len(nr) == 1 and any(isinstance(x, ast.Break) for x in nr[0].orelse)
    cx.shape_ob("R14d", nr[0] if nr else add, ok, "rounds repeat until nothing new is resolved", "resolution rounds do not run to a fixpoint", add)


# -------------------------------------------------------------------------------------- R14e (= R10b, R10d)
def cache_rules(cx, repo, add, rule_b="R14e", rule_d="R14e"):
    from sa.inline import inlined
    add_orig = add
    add, _inl = inlined(repo.mod(REL), add, nested=True, tests=True)
    # reset of _cache dominated store loop
    store_loop = next((l for l in add.body if isinstance(l, ast.For) and any(isinstance(n, ast.Subscript) and isinstance(n.ctx, ast.Store) and norm(n.value) == "self.syntax_map" for n in ast.walk(l))), None)
    if store_loop is None:
        # not at the top level of the function (nested under an `else` after an early return, say): found anywhere, and the
        # placement of the reset is then decided on the flow graph only
        store_loop = next((l for l in walk_local(add) if isinstance(l, ast.For) and any(isinstance(n, ast.Subscript) and isinstance(n.ctx, ast.Store) and norm(n.value) == "self.syntax_map"
                                                                                        for n in ast.walk(l))), None)
    cx.need(store_loop is not None, rule_b, add, "loop storing new items")
    idx = add.body.index(store_loop) if store_loop in add.body else 0
    resets = []
    for s in add.body[:idx]:
        if isinstance(s, ast.Assign) and any(is_self_attr(t, "_cache") for t in s.targets) and isinstance(s.value, ast.Dict) and not s.value.keys:
            resets.append(("always", s))
        if isinstance(s, ast.If) and any(isinstance(x, ast.Assign) and any(is_self_attr(t, "_cache") for t in x.targets) and isinstance(x.value, ast.Dict) and not x.value.keys for x in s.body):
            t = s.test
            newp = params(add)[1]
            ok = isinstance(t, ast.Call) and call_name(t) == "any" and isinstance(t.args[0], ast.GeneratorExp) and isinstance(t.args[0].elt, ast.Compare) and \
                isinstance(t.args[0].elt.ops[0], ast.NotIn) and norm(t.args[0].elt.comparators[0]) == "self.syntax_map" and \
                norm(t.args[0].elt.left) == norm(t.args[0].generators[0].target) and norm(t.args[0].generators[0].iter) in (newp, f"{newp}.keys()") and not t.args[0].generators[0].ifs
            if not ok:
                # `if <flag>` where the flag is the truth of the very collection the store loop runs over
                from sa.guards import expand_at, iter_source
                tx = norm(expand_at(t, s, calls=True))
                _c, base_, _v = iter_source(store_loop)
                b_ = norm(base_)
                ok = tx in (b_, f"bool({b_})", f"len({b_}) > 0", f"len({b_}) != 0") and _c is not None and not _c.generators[0].ifs[1:] and \
                    any(isinstance(e_, ast.Compare) and isinstance(e_.ops[0], ast.NotIn) and norm(e_.comparators[0]) == "self.syntax_map" for e_ in _c.generators[0].ifs)
            resets.append(("if-new" if ok else "other", s))
    good = [r for r in resets if r[0] in ("always", "if-new")]
    if not good:
        # the same on the flow graph, for any placement: every execution that stores a new id also resets the cache - before the
        # store (no path from the entry to the store avoids a reset) or after it (no path from the store to a normal exit does)
        from sa.cfg import CFG
        g_ = CFG(add)
        reset_ids = {g_.node_of(x).id for x in walk_local(add) if isinstance(x, ast.Assign) and any(is_self_attr(t, "_cache") for t in x.targets)
                     and isinstance(x.value, ast.Dict) and not x.value.keys and g_.node_of(x) is not None}
        stores_ = [enclosing_stmt(n) for n in ast.walk(store_loop) if isinstance(n, ast.Subscript) and isinstance(n.ctx, ast.Store) and norm(n.value) == "self.syntax_map"]
        ok_all = bool(reset_ids) and bool(stores_)
        for st_ in stores_:
            nd = g_.node_of(st_)
            if nd is None:
                ok_all = False
                continue
            before = g_.reach_avoiding(g_.entry, {nd.id}, reset_ids, follow_raise=False) is None
            after = g_.reach_avoiding(nd, {g_.exit.id}, reset_ids, follow_raise=False) is None
            ok_all = ok_all and (before or after)
        if ok_all:
            good = [("flow", next(x for x in walk_local(add) if isinstance(x, ast.Assign) and any(is_self_attr(t, "_cache") for t in x.targets)))]
    cx.ob(rule_b, good[0][1] if good else store_loop, bool(good), ("the palette cache is reset before any new id is stored (condition: some id is new)" if good and good[0][0] != "flow" else "every execution that stores a new id resets the palette cache before it returns") if good else
          "new ids are stored without resetting the palette cache first: palettes cached for this configuration keep stale colours")
    # other writers of _cache
    for m in repo.modules.values():
        for n in ast.walk(m.tree):
            if isinstance(n, ast.Attribute) and n.attr == "_cache" and isinstance(n.ctx, ast.Store) and isinstance(n.value, ast.Name) and n.value.id == "self":
                f = enclosing_func(n)
                c = enclosing(n, (ast.ClassDef,))
                if c is not None and c.name == "ColorsConfig":
                    ok = f is not None and f.name in ("__init__", "add_new_items")
                    cx.ob(rule_b, n, ok, f"cache (re)created in {f.name}" if ok else f"cache replaced in {f.name if f else '?'}")
    # resolve() callers: only add_new_items (and private helpers of the configuration that are called from nowhere else) and the
    # description's own constructor
    conf_cls = enclosing(add_orig, (ast.ClassDef,))
    registration = {add_orig.name}
    grew = True
    while grew:
        grew = False
        for h in [f_ for f_ in conf_cls.body if isinstance(f_, FUNC) and f_.name.startswith("_") and not f_.name.startswith("__") and f_.name not in registration]:
            sites = [c for m_ in repo.modules.values() for c in ast.walk(m_.tree) if isinstance(c, ast.Attribute) and c.attr == h.name]
            if sites and all(enclosing_func(c) is not None and enclosing_func(c).name in registration and enclosing(enclosing_func(c), (ast.ClassDef,)) is conf_cls for c in sites):
                registration.add(h.name)
                grew = True
    for m in repo.modules.values():
        for n in ast.walk(m.tree):
            if isinstance(n, ast.Call) and call_name(n) == "resolve" and isinstance(n.func, ast.Attribute):
                f = enclosing_func(n)
                ok = (f is not None and f.name in registration and enclosing(f, (ast.ClassDef,)) is conf_cls) or (f is not None and f.name == "__init__" and enclosing(f, (ast.ClassDef,)).name == "_ColorConfColorDescr")
                cx.ob(rule_b, n, ok, "items are resolved only during registration" if ok else f"an item is resolved in {f.name if f else '?'} (colour changes without a cache reset)")
    # color_fmt writers
    for m in repo.modules.values():
        for n in ast.walk(m.tree):
            if isinstance(n, ast.Attribute) and n.attr == "color_fmt" and isinstance(n.ctx, ast.Store):
                c = enclosing(n, (ast.ClassDef,))
                ok = c is not None and c.name == "_ColorConfColorDescr"
                cx.ob(rule_b, n, ok, "color_fmt is written by the description itself" if ok else "color_fmt of an item is written from outside the description class")
    # global re-sync
    sync_calls = [c for c in walk_local(add) if isinstance(c, ast.Call) and call_name(c) == "set_global_colors_config"]
    ok = len(sync_calls) == 1 and [norm(a) for a in sync_calls[0].args] == ["self"]
    if ok and not assignments(add, "any_modifications"):
        # no modification flag: decided on the flow graph - every execution that stored a new id reaches, before it returns,
        # the test `self is _GLOBAL_COLORS_CONF` that guards the re-sync (and nothing else guards it)
        from sa.cfg import CFG
        from sa.guards import canon_test
        own_if = parent(enclosing_stmt(sync_calls[0]))
        pure = isinstance(own_if, ast.If) and enclosing_stmt(sync_calls[0]) in own_if.body and canon_test(own_if.test) in ({("is", "self", "_GLOBAL_COLORS_CONF", True)}, {("is", "_GLOBAL_COLORS_CONF", "self", True)})
        cx.need(pure, rule_d, sync_calls[0], "condition of the re-sync is neither the modification flag idiom nor the plain identity test")
        g_ = CFG(add)
        gate = g_.node_of(own_if)
        cx.need(gate is not None, rule_d, own_if, "re-sync test not found in the flow graph")
        stores_ = [enclosing_stmt(n) for n in ast.walk(store_loop) if isinstance(n, ast.Subscript) and isinstance(n.ctx, ast.Store) and norm(n.value) == "self.syntax_map"]
        res_ = [enclosing_stmt(c) for c in walk_local(add) if isinstance(c, ast.Call) and call_name(c) == "resolve"]
        bad = None
        for st_ in stores_ + res_:
            nd = g_.node_of(st_)
            if nd is None:
                continue
            pth = g_.reach_avoiding(nd, {g_.exit.id}, {gate.id}, follow_raise=False)
            if pth is not None:
                bad = (st_, [getattr(x.ast, "lineno", None) for x in pth if x.ast is not None][-6:])
                break
        cx.ob(rule_d, sync_calls[0], bad is None, "every execution that registers or resolves an item reaches the re-sync test of the global configuration" if bad is None else
              f"after `{norm(bad[0])[:50]}` the function can return (lines {bad[1]}) without re-syncing the synced palettes of the global configuration: "
              "palettes handed out earlier keep the colours of the old state")
        return_flag_rules = False
    else:
        return_flag_rules = True
    if ok and return_flag_rules:
        fs = facts(sync_calls[0])
        ok = any(norm(e) == "any_modifications" and pol for e, pol in fs) and any(isinstance(e, ast.Compare) and isinstance(e.ops[0], ast.Is) and pol and norm(e.left) == "self"
                                                                                  and norm(e.comparators[0]) == "_GLOBAL_COLORS_CONF" for e, pol in fs)
        from sa.guards import split
        own_if = parent(enclosing_stmt(sync_calls[0]))
        if ok and isinstance(own_if, ast.If):
            ok = sorted(norm(e) for e, pol in split(own_if.test, True)) == ["any_modifications", "self is _GLOBAL_COLORS_CONF"] and parent(own_if) is add
    if not return_flag_rules:
        return
    cx.ob(rule_d, sync_calls[0] if sync_calls else add, ok, "a modified global configuration re-syncs the synced palettes" if ok else
          "modifying the global configuration does not trigger the re-sync of synced palettes")
    # any_modifications is set where an item is stored and where something gets resolved
    sets = [s for s in walk_local(add) if isinstance(s, ast.Assign) and is_name(s.targets[0], "any_modifications") and const(s.value, bool) and s.value.value is True]
    in_store = any(s in list(ast.walk(store_loop)) for s in sets)
    if not in_store:
        # the flag may be computed as "the collection of new items is not empty" before the loop
        from sa.guards import iter_source as _its
        _c, base_, _v = _its(store_loop)
        b_ = norm(base_)
        pre = [s_ for s_ in add.body[:(add.body.index(store_loop) if store_loop in add.body else 0)] if isinstance(s_, ast.Assign) and is_name(s_.targets[0], "any_modifications")
               and norm(s_.value) in (f"bool({b_})", f"len({b_}) > 0", f"len({b_}) != 0")]
        in_store = bool(pre) and _c is not None
    # outside the store loop the flag must be raised when something got resolved: it is guarded by a variable that is updated
    # (set True / added to) inside a loop that contains a resolve() call
    res_calls = [c for c in walk_local(add) if isinstance(c, ast.Call) and call_name(c) == "resolve"]
    res_loops = {id(l) for c in res_calls for l in enclosing_loops(c)}
    on_resolved = False
    others = [s for s in sets if s not in list(ast.walk(store_loop))]
    for s in others:
        for e, pol in facts(s):
            if isinstance(e, ast.Name) and pol:
                ups = [u for u in walk_local(add) if (isinstance(u, ast.Assign) and any(is_name(t, e.id) for t in u.targets) and not (const(u.value, bool) and u.value.value is False) and not isinstance(u.value, (ast.Set, ast.List, ast.Call)))
                       or (isinstance(u, ast.Call) and isinstance(u.func, ast.Attribute) and is_name(u.func.value, e.id) and u.func.attr in ("add", "update", "append", "extend"))
                       or (isinstance(u, ast.AugAssign) and is_name(u.target, e.id))]
                if any(id(l) in res_loops for u in ups for l in enclosing_loops(u)):
                    on_resolved = True
    if in_store and others and not on_resolved:
        raise AnalysisError(rule_d, f"{REL}::ColorsConfig.add_new_items", "how the modification flag follows newly resolved items is not recognised")
    cx.ob(rule_d, add, in_store and on_resolved, "the modification flag is raised for new items and for newly resolved items" if in_store and on_resolved else
          "the modification flag misses new items or newly resolved items", stmt="any_modifications")
    setg = cx.func(REL, "set_global_colors_config", rule_d)
    loops = [l for l in walk_local(setg) if isinstance(l, ast.For)]
    ok = len(loops) == 1 and norm(loops[0].iter) == "_GSYNCED_PALETTES.values()" and any(
        isinstance(c, ast.Call) and call_name(c) == "_sync_with_config" and norm(c.func.value) == norm(loops[0].target) for c in ast.walk(loops[0])) and parent(loops[0]) is setg
    cx.ob(rule_d, loops[0] if loops else setg, ok, "replacing the global configuration syncs every registered synced palette" if ok else
          "set_global_colors_config does not sync every entry of the synced registry")
    if loops:
        c = [c for c in ast.walk(loops[0]) if isinstance(c, ast.Call) and call_name(c) == "_sync_with_config"]
        cfg_arg = norm(c[0].args[0]) if c and c[0].args else None
        gs = [s for s in walk_local(setg) if isinstance(s, ast.Assign) and is_name(s.targets[0], "_GLOBAL_COLORS_CONF")]
        ok = bool(gs) and cfg_arg is not None and all(norm(s.value) == cfg_arg for s in gs) and any(isinstance(g, ast.Global) and "_GLOBAL_COLORS_CONF" in g.names for g in walk_local(setg))
        cx.ob(rule_d, gs[0] if gs else setg, ok, "the new configuration becomes the global one and is the one synced with" if ok else "global configuration assignment / sync argument mismatch")
    # _sync_with_config implementations re-read every accessor
    for m, q, f in repo.functions({REL}):
        if f.name != "_sync_with_config":
            continue
        cls = enclosing(f, (ast.ClassDef,))
        if cls.name == "Palette":
            loops = [l for l in walk_local(f) if isinstance(l, ast.For)]
            ok = len(loops) == 1 and norm(loops[0].iter) == "self._LOCAL_SYNTAX.items()" and any(
                isinstance(c, ast.Call) and call_name(c) == "setattr" and len(c.args) == 3 and isinstance(c.args[2], ast.Call) and call_name(c.args[2]) == "get_color"
                and norm(c.args[2].func.value) == params(f)[1] for c in ast.walk(loops[0]))
            cx.ob(rule_d, f, ok, "a synced palette re-reads every accessor from the new configuration" if ok else "sync does not re-read every accessor from the given configuration")
        else:
            sup = [c for c in walk_local(f) if isinstance(c, ast.Call) and call_name(c) == "_sync_with_config" and norm(c.func.value) == "super()"]
            st = [s for s in walk_local(f) if isinstance(s, ast.Assign) and norm(s.value) == params(f)[1]]
            ok = len(sup) == 1 and bool(st)
            cx.ob(rule_d, f, ok, f"{cls.name} sync stores the new configuration and delegates" if ok else f"{cls.name}._sync_with_config does not store the configuration / delegate")


def _cache_and_sync(cx, repo, add):
    cache_rules(cx, repo, add, "R14e", "R14e")


# -------------------------------------------------------------------------------------- R14g
def _lookup(cx, get_color, conf):
    it = Interp()
    p = params(get_color)[1]
    cases = [("known & resolved", K("other", False, "descr"), K("other", False, "fmt"), None, None),
             ("known & pending", K("other", False, "descr"), C(None), None, None),
             ("unknown, default resolved", C(None), None, K("other", False, "descr2"), K("other", False, "fmt2")),
             ("unknown, no default", C(None), None, C(None), None)]
    # the function is tiny: interpret it with a call hook modelling syntax_map.get
    for label, first, first_fmt, second, second_fmt in cases:
        seq = []

        def hook(it_, e, env):
            if call_name(e) == "get" and norm(e.func.value) == "self.syntax_map":
                key = norm(e.args[0])
                seq.append(key)
                return first if key == p else (second if second is not None else C(None))
            return None
        it.call_hook = hook
        env = {}
        # attribute reads x.color_fmt
        outs = None
        # emulate attribute by pre-binding for the variable name used in the function
        var = next((norm(s.targets[0]) for s in walk_local(get_color) if isinstance(s, ast.Assign) and isinstance(s.value, ast.Call) and call_name(s.value) == "get"), "syntax_color")

        class _I(Interp):
            pass
        it2 = Interp(call_hook=hook)
        orig_ev = it2.ev

        def ev(e, env, _orig=orig_ev):
            if isinstance(e, ast.Attribute) and e.attr == "color_fmt" and is_name(e.value, var):
                base = env.get(var)
                if base == first:
                    return first_fmt if first_fmt is not None else C(None)
                if second is not None and base == second:
                    return second_fmt if second_fmt is not None else C(None)
                return C(None)
            return _orig(e, env)
        it2.ev = ev
        outs = it2.run(get_color.body, {p: K("str", False)})
        rets = {repr(o.value) for o in outs if o.how == "return"}
        if label == "known & resolved":
            ok = rets == {repr(first_fmt)}
        elif label == "unknown, default resolved":
            ok = rets == {repr(second_fmt)} and any("DFLT_SYNTAX_ID" in s for s in seq)
        else:
            ok = len(rets) == 1 and "_NO_EFFECTS_FMT" in next(iter(rets))
        cx.ob("R14g", get_color, ok, f"{label}: returns the expected formatter" if ok else f"{label}: get_color returns {sorted(rets)}", stmt=f"lookup {label}")
    d = class_attr(conf, "DFLT_SYNTAX_ID")
    b = class_attr(conf, "BUILT_IN_CONFIG")
    ok = const(d, str) and isinstance(b, ast.Dict) and any(const(k, str) and k.value == d.value for k in b.keys)
    cx.ob("R14g", d if d is not None else conf, ok, "the default id is one of the built-in ids" if ok else "DFLT_SYNTAX_ID is not defined by the built-in configuration")


# -------------------------------------------------------------------------------------- R14h
def _grammar(cx, descr, parse, parse_mod, repo):
    tbl = class_attr(descr, "_MODIFIERS")
    cx.need(tbl is not None, "R14h", f"{REL}::_ColorConfColorDescr._MODIFIERS", "vanished")
    try:
        t = literal(tbl)
    except ValueError as e:
        raise AnalysisError("R14h", "_MODIFIERS", str(e))
    want = {}
    for e in EFFECTS:
        want[e] = (e, True)
        want["no_" + e] = (e, False)
    cx.ob("R14h", tbl, t == want, "ten modifier names map to (effect, bool), no_ => False" if t == want else
          f"modifier table deviates: {sorted(k for k in set(t) | set(want) if t.get(k) != want.get(k))}")
    # at most three sections
    g = [s for s in walk_local(parse) if isinstance(s, ast.If) and isinstance(s.test, ast.Compare) and norm(s.test.left) == "len(chunks)" and isinstance(s.test.ops[0], ast.Gt)
         and const(s.test.comparators[0], int) and s.test.comparators[0].value == 3 and any(isinstance(x, ast.Raise) and call_name(x.exc) == "ValueError" for x in s.body)]
    cx.ob("R14h", g[0] if g else parse, len(g) == 1, "more than three sections is a ValueError" if g else "section-count check missing")
    sp = [v for _, v in assignments(parse, "chunks") if v is not None]
    ok = len(sp) == 1 and norm(sp[0]) == f"{params(parse)[1]}.split(':')"
    cx.ob("R14h", parse, ok, "sections are separated by ':'" if ok else "sections are not split on ':'", stmt="split")
    # every raise in the parser family is ValueError
    fam = [f for m, q, f in repo.functions({REL}) if q.startswith("_ColorConfColorDescr._parse")]
    cx.at_least("R14h", "parser functions", len(fam), 5)
    for f in fam:
        for r in walk_local(f):
            if isinstance(r, ast.Raise) and r.exc is not None:
                ok = call_name(r.exc) == "ValueError"
                cx.ob("R14h", r, ok, "malformed description -> ValueError" if ok else f"raises {norm(r.exc)[:40]}")
    # modifiers parser: name -> table lookup -> stored under the effect name with its bool
    lk = [s for s in walk_local(parse_mod) if isinstance(s, ast.Assign) and isinstance(s.value, ast.Subscript) and norm(s.value.value).endswith("_MODIFIERS")]
    st = [s for s in walk_local(parse_mod) if isinstance(s, ast.Assign) and isinstance(s.targets[0], ast.Subscript)]
    ok = len(lk) == 1 and isinstance(lk[0].targets[0], ast.Tuple) and len(st) == 1 and [norm(x) for x in lk[0].targets[0].elts] == [norm(st[0].targets[0].slice), norm(st[0].value)]
    if not lk and not st:
        # dict(<table>[name] for name in names): the table's (effect, bool) pairs become the entries directly
        dc = [c for c in walk_local(parse_mod) if isinstance(c, ast.Call) and isinstance(c.func, ast.Name) and c.func.id == "dict" and len(c.args) == 1
              and isinstance(c.args[0], (ast.GeneratorExp, ast.ListComp)) and len(c.args[0].generators) == 1]
        cx.need(len(dc) == 1, "R14h", parse_mod, "how modifier names become (effect, bool) entries is not recognised")
        ge = dc[0].args[0]
        ok = isinstance(ge.elt, ast.Subscript) and norm(ge.elt.value).endswith("_MODIFIERS") and norm(ge.elt.slice) == norm(ge.generators[0].target) and not ge.generators[0].ifs
        lk = [enclosing_stmt(dc[0])]
    cx.ob("R14h", lk[0] if lk else parse_mod, ok, "each modifier sets its effect to the table's bool" if ok else "modifier parsing does not store table[effect] = bool")
    # colour names accepted by the description parser = names of the formatter + '' + '-' + greys
    cn = class_attr(descr, "_COLORS_NAMES")
    txt = norm(cn) if cn is not None else ""
    ok = "_ColorSequences._COLORS.keys()" in txt and "''" in txt and "'-'" in txt and "range(24)" in txt
    cx.ob("R14h", cn if cn is not None else descr, ok, "accepted names = formatter's names + '' + '-' + g0..g23" if ok else "accepted colour names are not derived from the formatter's table plus '', '-', greys")


# -------------------------------------------------------------------------------------- R14i
def _flatten_rule(cx, repo):
    """ColorsConfig._flatten_dict(map[, prefix]) -> {dotted id: value}.  Claim, by induction over the nesting depth: the keys of
    F(m, p) are p + path for every leaf path of m (components joined by '.').  Leaf step: the key stored for a string value is
    p + key.  Nesting step: with the recursive call F(value, q) returning q + rest (induction hypothesis), every key that reaches
    the result is p + key + '.' + rest.  Keys are compared as symbolic concatenations over the symbols P (incoming prefix), K (the
    key of this level) and R (the rest of the path)."""
    fn = cx.func(REL, "ColorsConfig._flatten_dict", "R14i")
    ps = [a for a in params(fn) if a not in ("self", "cls")]
    cx.need(1 <= len(ps) <= 2, "R14i", fn, "parameters (map[, prefix]) expected")
    m_par = ps[0]
    pre = ps[1] if len(ps) == 2 else None
    if pre is not None:
        d = fn.args.defaults
        cx.need(len(d) == 1 and const(d[0], str) and d[0].value == "", "R14i", fn, "the prefix parameter must default to ''")
        for c in [c for mm in repo.modules.values() for c in ast.walk(mm.tree) if isinstance(c, ast.Call) and call_name(c) == fn.name and enclosing_func(c) is not fn]:
            ok = len(c.args) == 1 and not c.keywords
            cx.ob("R14i", c, ok, "top-level call starts with the empty prefix" if ok else "a caller passes its own prefix to the flattening")
    P = (("P",),) if pre is not None else ()

    def sym(e, env):
        if isinstance(e, ast.Constant) and isinstance(e.value, str):
            return (e.value,) if e.value else ()
        if isinstance(e, ast.Name):
            return env.get(e.id)
        if isinstance(e, ast.JoinedStr):
            out = ()
            for v in e.values:
                if isinstance(v, ast.Constant):
                    out += (v.value,) if v.value else ()
                elif isinstance(v, ast.FormattedValue) and v.conversion == -1 and v.format_spec is None:
                    x = sym(v.value, env)
                    if x is None:
                        return None
                    out += x
                else:
                    return None
            return out
        if isinstance(e, ast.BinOp) and isinstance(e.op, ast.Add):
            a, b = sym(e.left, env), sym(e.right, env)
            return None if a is None or b is None else a + b
        return None

    def flat(parts):
        out = []
        for x in parts:
            if isinstance(x, str) and out and isinstance(out[-1], str):
                out[-1] += x
            else:
                out.append(x)
        return tuple(out)

    def show(parts):
        return " + ".join(repr(x) if isinstance(x, str) else {"P": "<prefix>", "K": "<key>", "R": "<rest of path>"}[x[0]] for x in parts) or "''"

    loops = [l for l in walk_local(fn) if isinstance(l, ast.For) and isinstance(l.iter, ast.Call) and call_name(l.iter) == "items" and is_name(l.iter.func.value, m_par)]
    cx.need(len(loops) == 1 and isinstance(loops[0].target, ast.Tuple) and len(loops[0].target.elts) == 2 and all(isinstance(x, ast.Name) for x in loops[0].target.elts),
            "R14i", fn, "loop `for key, value in map.items()`")
    lp = loops[0]
    kname, vname = lp.target.elts[0].id, lp.target.elts[1].id
    rets = [r for r in walk_local(fn) if isinstance(r, ast.Return)]
    cx.need(len(rets) == 1 and isinstance(rets[0].value, ast.Name), "R14i", fn, "one `return result`")
    res = rets[0].value.id
    env0 = {kname: (("K",),)}
    if pre is not None:
        env0[pre] = (("P",),)

    def rec_prefix(call):
        """symbolic prefix of what a recursive call returns"""
        cx.need(call.args and is_name(call.args[0], vname), "R14i", call, "the recursive call must flatten the value of this entry")
        parg = call.args[1] if len(call.args) > 1 else next((k.value for k in call.keywords if k.arg == pre), None)
        if parg is None:
            return ()
        q = sym(parg, env0)
        cx.need(q is not None, "R14i", call, "prefix argument of the recursive call is not a concatenation of prefix / key / constants")
        return q
    n = 0
    for st in ast.walk(lp):
        key_syms = None
        where = None
        if isinstance(st, ast.Assign) and len(st.targets) == 1 and isinstance(st.targets[0], ast.Subscript) and is_name(st.targets[0].value, res):
            where = st
            inner = [l for l in enclosing_loops(st) if l is not lp and l in list(ast.walk(lp))]
            if not inner:
                got = sym(st.targets[0].slice, env0)
                want = P + (("K",),)
                what = "leaf"
            else:
                cx.need(len(inner) == 1, "R14i", st, "one loop over the flattened sub-dictionary expected")
                il = inner[0]
                src = il.iter.func.value if isinstance(il.iter, ast.Call) and call_name(il.iter) == "items" else None
                if isinstance(src, ast.Name):
                    ds = [v for _, v in assignments(fn, src.id)]
                    src = ds[0] if len(ds) == 1 else None
                cx.need(isinstance(src, ast.Call) and call_name(src) == fn.name and isinstance(il.target, ast.Tuple) and isinstance(il.target.elts[0], ast.Name),
                        "R14i", il, "inner loop must iterate over the items of the recursive call")
                env = dict(env0)
                env[il.target.elts[0].id] = rec_prefix(src) + (("R",),)
                got = sym(st.targets[0].slice, env)
                want = P + (("K",), ".", ("R",))
                what = "nested"
        elif isinstance(st, ast.Expr) and isinstance(st.value, ast.Call) and call_name(st.value) == "update" and is_name(st.value.func.value, res):
            where = st
            a = st.value.args[0] if len(st.value.args) == 1 else None
            if isinstance(a, (ast.GeneratorExp, ast.ListComp, ast.DictComp)) and len(a.generators) == 1 and not a.generators[0].ifs:
                # update((<key expr>, v) for sk, v in <recursive call>.items())   /   {<key expr>: v for sk, v in ....items()}
                g_ = a.generators[0]
                src_ = g_.iter.func.value if isinstance(g_.iter, ast.Call) and call_name(g_.iter) == "items" else None
                kexpr = a.key if isinstance(a, ast.DictComp) else (a.elt.elts[0] if isinstance(a.elt, ast.Tuple) and len(a.elt.elts) == 2 else None)
                vexpr = a.value if isinstance(a, ast.DictComp) else (a.elt.elts[1] if isinstance(a.elt, ast.Tuple) and len(a.elt.elts) == 2 else None)
                cx.need(isinstance(src_, ast.Call) and call_name(src_) == fn.name and isinstance(g_.target, ast.Tuple) and len(g_.target.elts) == 2 and kexpr is not None
                        and norm(vexpr) == norm(g_.target.elts[1]), "R14i", st, "update(<pairs built from the recursive call>) expected")
                env = dict(env0)
                env[g_.target.elts[0].id] = rec_prefix(src_) + (("R",),)
                got = sym(kexpr, env)
            else:
                cx.need(isinstance(a, ast.Call) and call_name(a) == fn.name, "R14i", st, "result.update(<recursive call>) expected")
                got = rec_prefix(a) + (("R",),)
            want = P + (("K",), ".", ("R",))
            what = "nested"
        else:
            continue
        cx.need(got is not None, "R14i", where, "stored key is not a concatenation of prefix / key / constants")
        n += 1
        ok = flat(got) == flat(want)
        cx.ob("R14i", where, ok, f"{what} item is stored under {show(flat(want))}" if ok else
              f"{what} item is stored under {show(flat(got))} instead of {show(flat(want))}: part of the dotted path is lost or doubled for nested dictionaries")
    cx.at_least("R14i", "stores into the flattened result", n, 2)
