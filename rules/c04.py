"""C04 — source positions are exact and cover the text (provenance of positions)."""
import ast

from sa.core import (AnalysisError, FUNC, assignments, call_name, class_attr, const, dotted, enclosing, enclosing_func,
                     enclosing_stmt, is_attr, is_name, is_self_attr, literal, norm, params, parent, walk_local, names_in, ancestors)
from sa.guards import facts

PROP = "C04"
REL = "ak/llparser.py"
EXPLANATION = (
    "Provenance abstract interpretation of _Tokenizer.tokenize plus def-use rules in LLParser.parse and TElement.__init__. "
    "Each SrcPos-valued variable carries a set of tags {INIT, CUR, STALE, OPENER, NONE}: a position built from the line counter "
    "of the current iteration of the line loop is CUR; every CUR becomes STALE when the loop starts a new iteration; a test of "
    ".coords / .line against the current line counter refines STALE to CUR on the matching branch; a CUR value stored in the "
    "branch that opens a span token is OPENER (and survives iterations). Fixpoint over both loops (finite domain). R04a: the "
    "start position given to _Token is CUR for an ordinary token and OPENER for a span token, every end position is CUR, end is "
    "built from match.end()+1 and start from the scan column+1 of the same line, the end-of-input token uses the last end "
    "position. R04b: the position in the 'no pattern matches' LexicalError is CUR. R04c: a childless node gets start = end = the "
    "start of the token at the cursor. R04d: an inner node without explicit span takes first child's start and last child's "
    "end, leaves require an explicit span, leaf nodes copy the token's own start / end. The 0/1-based slice arithmetic of "
    "get_orig_text is value-level and not decided."
)

INIT, CUR, STALE, OPENER, NONE, NOTPOS = "INIT", "CUR", "STALE", "OPENER", "NONE", "NOTPOS"


class Prov:
    def __init__(self, func, line_loop, line_var, span_var):
        self.f, self.line_loop, self.line_var, self.span_var = func, line_loop, line_var, span_var
        self.sites = []      # (call node, kind, start tags, end tags, in_span_branch)
        self.lex = []        # (call node, tags)
        self.in_loop = False

    aliases = {}      # local name -> the (tuple) expression it is bound to once; used to see through `coords = (line_id, col + 1)`
    methods = {}      # sibling methods of the tokenizer class (helpers may compute positions)

    def mentions(self, e, name, depth=0):
        for x in ast.walk(e):
            if isinstance(x, ast.Name):
                if x.id == name:
                    return True
                if depth < 3 and x.id in self.aliases and self.mentions(self.aliases[x.id], name, depth + 1):
                    return True
        return False

    def helper_result(self, e, env):
        """Provenance of `self.<helper>(args)`: the helper is interpreted with the tags of the arguments; a parameter that receives
        the line counter plays the role of the line variable inside it."""
        h = self.methods.get(e.func.attr)
        if h is None or getattr(self, "_depth", 0) > 2:
            return None
        ps = [a.arg for a in h.args.args]
        if ps and ps[0] in ("self", "cls"):
            ps = ps[1:]
        if len(ps) != len(e.args) or e.keywords:
            return None
        line_ps = [p_ for p_, a in zip(ps, e.args) if self.in_loop and self.mentions(a, self.line_var)]
        sub = Prov(h, None, line_ps[0] if line_ps else "\0", None)
        sub.methods = self.methods
        sub._depth = getattr(self, "_depth", 0) + 1
        sub.in_loop = bool(line_ps)
        sub.aliases = {}
        for st in ast.walk(h):
            if isinstance(st, ast.Assign) and len(st.targets) == 1 and isinstance(st.targets[0], ast.Name) and isinstance(st.value, (ast.Tuple, ast.BinOp)):
                if sum(1 for x in ast.walk(h) if isinstance(x, ast.Name) and x.id == st.targets[0].id and isinstance(x.ctx, ast.Store)) == 1:
                    sub.aliases[st.targets[0].id] = st.value
        env_h = {p_: self.ev(a, env) for p_, a in zip(ps, e.args)}
        out = set()

        def walk(stmts, env_):
            for st in stmts:
                if isinstance(st, ast.Return):
                    out.update(sub.ev(st.value, env_) if st.value is not None else {NONE})
                    return None
                if isinstance(st, ast.Assign) and len(st.targets) == 1 and isinstance(st.targets[0], ast.Name):
                    env_ = dict(env_)
                    env_[st.targets[0].id] = sub.ev(st.value, env_)
                elif isinstance(st, ast.If):
                    r1 = walk(st.body, sub.refine(st.test, env_, True))
                    r2 = walk(st.orelse, sub.refine(st.test, env_, False)) if st.orelse else sub.refine(st.test, env_, False)
                    if r1 is None and r2 is None:
                        return None
                    env_ = sub.join(r1, r2) if r1 is not None and r2 is not None else (r1 if r1 is not None else r2)
                elif isinstance(st, (ast.Expr, ast.Pass, ast.Assert)):
                    continue
                else:
                    out.add(NOTPOS)
                    return None
            return env_
        if walk(h.body, env_h) is not None:
            out.add(NONE)
        return frozenset(out)

    def ev(self, e, env):
        if isinstance(e, ast.Call) and call_name(e) == "SrcPos" and len(e.args) >= 2:
            return frozenset({CUR}) if (self.in_loop and any(self.mentions(a.value if isinstance(a, ast.Starred) else a, self.line_var) for a in e.args[1:])) else frozenset({INIT})
        if isinstance(e, ast.Call) and isinstance(e.func, ast.Attribute) and is_name(e.func.value, "self", "cls") and e.func.attr in self.methods:
            r = self.helper_result(e, env)
            if r is not None:
                return r
        if isinstance(e, ast.Name):
            return env.get(e.id, frozenset({NOTPOS}))
        if isinstance(e, ast.Constant) and e.value is None:
            return frozenset({NONE})
        if isinstance(e, ast.IfExp):
            return self.ev(e.body, self.refine(e.test, env, True)) | self.ev(e.orelse, self.refine(e.test, env, False))
        return frozenset({NOTPOS})

    def refine(self, test, env, pol):
        if isinstance(test, ast.Compare) and len(test.ops) == 1 and isinstance(test.ops[0], (ast.Eq, ast.NotEq)):
            l, r = test.left, test.comparators[0]
            for a, b in ((l, r), (r, l)):
                if isinstance(a, ast.Attribute) and a.attr in ("coords", "line") and isinstance(a.value, ast.Name):
                    b_ = self.aliases.get(b.id, b) if isinstance(b, ast.Name) else b
                    cur_line = self.mentions(b_, self.line_var) and (a.attr == "line" or (isinstance(b_, ast.Tuple) and b_.elts and self.mentions(b_.elts[0], self.line_var)))
                    if cur_line and pol == isinstance(test.ops[0], ast.Eq):
                        env = dict(env)
                        env[a.value.id] = frozenset({CUR})
        return env

    @staticmethod
    def join(a, b):
        out = dict(a)
        for k, v in b.items():
            out[k] = out.get(k, frozenset()) | v
        for k in a:
            if k not in b:
                out[k] = a[k] | frozenset({NOTPOS}) if False else a[k]
        return out

    def visit_calls(self, node, env, span_branch):
        for c in ast.walk(node):
            if isinstance(c, ast.Call) and call_name(c) == "_Token" and len(c.args) == 4:
                self.sites.append((c, self.ev(c.args[2], env), self.ev(c.args[3], env), span_branch, self.in_loop))
            if isinstance(c, ast.Call) and call_name(c) == "LexicalError" and c.args:
                self.lex.append((c, self.ev(c.args[0], env), self.in_loop))

    def is_opener_block(self, stmts):
        return any(isinstance(s, ast.Assign) and any(is_name(t, self.span_var) for t in s.targets) and not (isinstance(s.value, ast.Constant) and s.value.value is None) for s in stmts)

    def capture_vars(self):
        """Names whose bindings inside the line loop are all directly in opener blocks, or `= None`."""
        ok = {}
        for st in ast.walk(self.line_loop):
            if isinstance(st, ast.Assign) and all(isinstance(t, ast.Name) for t in st.targets):
                is_none = isinstance(st.value, ast.Constant) and st.value.value is None
                blk = _block_stmts(st)
                for t in st.targets:
                    ok[t.id] = ok.get(t.id, True) and (is_none or self.is_opener_block(blk))
        return {n for n, v in ok.items() if v and n != self.span_var}

    # states: dict  mode -> env   (mode 'N': span variable is None, 'S': a span is open)
    def merge(self, a, b):
        if a is None:
            return b
        if b is None:
            return a
        out = dict(a)
        for m, env in b.items():
            out[m] = self.join(out[m], env) if m in out else env
        return out

    def run(self, stmts, states, opener=False):
        direct_opener = self.is_opener_block(stmts)
        for st in stmts:
            if states is None or not states:
                return states
            if isinstance(st, ast.Assign) and all(isinstance(t, ast.Name) for t in st.targets):
                new = {}
                for m, env in states.items():
                    self.visit_calls(st.value, env, m == "S")
                    v0 = self.ev(st.value, env)
                    env2 = dict(env)
                    m2 = m
                    for t in st.targets:        # a = b = value: every name gets the value
                        nm = t.id
                        v = v0
                        if direct_opener and nm in self.captures and v and v <= frozenset({CUR, OPENER}):
                            v = frozenset({OPENER})
                        env2[nm] = v
                        if nm == self.span_var:
                            m2 = "N" if (isinstance(st.value, ast.Constant) and st.value.value is None) else "S"
                    new[m2] = self.join(new[m2], env2) if m2 in new else env2
                states = new
            elif isinstance(st, ast.If):
                t = norm(st.test)
                if t in (f"{self.span_var} is not None", f"{self.span_var} is None"):
                    pos = "S" if t.endswith("is not None") else "N"
                    neg = "N" if pos == "S" else "S"
                    s1 = {m: e for m, e in states.items() if m == pos}
                    s2 = {m: e for m, e in states.items() if m == neg}
                    r1 = self.run(st.body, s1) if s1 else None
                    r2 = self.run(st.orelse, s2) if s2 else None
                    if not st.orelse and s2:
                        r2 = s2
                else:
                    s1 = {m: self.refine(st.test, e, True) for m, e in states.items()}
                    s2 = {m: self.refine(st.test, e, False) for m, e in states.items()}
                    r1 = self.run(st.body, s1)
                    r2 = self.run(st.orelse, s2) if st.orelse else s2
                states = self.merge(r1, r2)
                if states is None:
                    return None
            elif isinstance(st, (ast.For, ast.While)):
                is_line = st is self.line_loop
                was = self.in_loop
                if is_line:
                    self.in_loop = True
                inner = {m: dict(e) for m, e in states.items()}
                for _ in range(12):
                    start = inner
                    if is_line:
                        start = {m: {k: frozenset(STALE if t == CUR else t for t in v) for k, v in e.items()} for m, e in inner.items()}
                    out = self.run(st.body, start)
                    new = self.merge(inner, out)
                    if new == inner:
                        break
                    inner = new
                self.in_loop = was
                if is_line:
                    inner = {m: {k: frozenset(STALE if t == CUR else t for t in v) for k, v in e.items()} for m, e in inner.items()}
                states = self.merge(states, inner)
            elif isinstance(st, ast.Raise):
                for m, env in states.items():
                    self.visit_calls(st, env, m == "S")
                return None
            elif isinstance(st, ast.Return):
                return None
            else:
                for m, env in states.items():
                    self.visit_calls(st, env, m == "S")
        return states


def run(cx):
    repo = cx.repo
    for r, t in (("R04a", "token start / end positions have current-line (or opener) provenance and are built from the match of that line"),
                 ("R04b", "the lexical error of an unmatched character names the current line"),
                 ("R04c", "an empty node has an empty span at the token under the cursor"),
                 ("R04d", "node spans: first child's start .. last child's end; leaves copy the token's span"),
                 ("R04e", "the tokenizer and get_orig_text cut a str into lines with the same operation"),
                 ("R04f", "the source text handed in (str or list of lines) is never modified")):
        cx.rule(r, t)
    cx.guard(_r04f, cx, repo)
    tok = cx.func(REL, "_Tokenizer.tokenize", "R04a")
    parse = cx.func(REL, "LLParser.parse", "R04c")
    te_init = cx.func(REL, "TElement.__init__", "R04d")

    loops = [n for n in tok.body if isinstance(n, ast.For)]
    cx.need(len(loops) == 1 and isinstance(loops[0].target, ast.Tuple) and len(loops[0].target.elts) == 2, "R04a", tok, "line loop `for line_id, text_line in ...`")
    line_loop = loops[0]
    line_var = loops[0].target.elts[0].id
    text_var = loops[0].target.elts[1].id
    # enumerate(..., start=1)
    it_defs = [v for _, v in assignments(tok, norm(line_loop.iter)) if v is not None] if isinstance(line_loop.iter, ast.Name) else [line_loop.iter]
    ok = bool(it_defs) and all(isinstance(v, ast.Call) and call_name(v) == "enumerate" and any(k.arg == "start" and const(k.value, int) and k.value.value == 1 for k in v.keywords) for v in it_defs)
    cx.ob("R04a", line_loop, ok, "lines are numbered from 1" if ok else "line numbering does not start at 1 for every input form")
    # the span-mode variable
    tsites = [c for c in walk_local(tok) if isinstance(c, ast.Call) and call_name(c) == "_Token" and len(c.args) == 4]
    cx.need(len(tsites) >= 3, "R04a", tok, "expected the span, ordinary and end-of-input _Token sites")
    span_var = None
    for c in tsites:
        for e, pol in facts(c):
            if isinstance(e, ast.Compare) and isinstance(e.ops[0], ast.IsNot) and pol and isinstance(e.left, ast.Name) and const(e.comparators[0]) and e.comparators[0].value is None:
                span_var = e.left.id
    cx.need(span_var is not None, "R04a", tok, "span-mode variable not recognised")
    pv = Prov(tok, line_loop, line_var, span_var)
    pv.methods = {f_.name: f_ for f_ in cx.cls(REL, '_Tokenizer', 'R04a').body if isinstance(f_, FUNC)}
    pv.captures = pv.capture_vars()
    cx.note(f"opener-capture variables: {sorted(pv.captures)}")
    pv.run(tok.body, {"N": {}})
    cx.counts["R04a:token sites (per pass)"] = len(pv.sites)
    seen = {}
    for c, st, en, span_branch, in_loop in pv.sites:
        key = id(c)
        cur = seen.setdefault(key, [c, set(), set(), span_branch, in_loop])
        cur[1] |= st
        cur[2] |= en
    n_sites = 0
    for c, st, en, span_branch, in_loop in seen.values():
        n_sites += 1
        if not in_loop:
            # end-of-input token: both positions are the last end position
            ok = norm(c.args[2]) == norm(c.args[3]) and isinstance(c.args[2], ast.Name) and const(c.args[1]) and c.args[1].value is None
            cx.ob("R04a", c, ok, "end-of-input token is an empty span at the last end position" if ok else "end-of-input token span altered")
            continue
        want = {OPENER} if span_branch else {CUR}
        ok = st <= want and bool(st)
        kind = "span" if span_branch else "ordinary"
        cx.ob("R04a", c, ok, f"{kind} token start has provenance {sorted(st)}" if ok else
              f"start position of a{'n' if kind == 'ordinary' else ''} {kind} token may be {sorted(st - want)}: "
              f"{'carried over from a previous line' if STALE in st or INIT in st else 'not the position of the opener' if span_branch else 'not of the current line'}", stmt=norm(c)[:60] + " [start]")
        ok = en <= {CUR} and bool(en)
        cx.ob("R04a", c, ok, "end position is built on the current line" if ok else f"end position of a token may be {sorted(en - {CUR})}", stmt=norm(c)[:60] + " [end]")
        # end built from match.end()+1 of this line; start from col+1
        if isinstance(c.args[3], ast.Name):
            ds = [v for s0, v in assignments(tok, c.args[3].id) if v is not None and s0 in _block_stmts(c)]
            from sa.guards import alias_env, expand
            col_arg = ds[0].args[2] if len(ds) == 1 and isinstance(ds[0], ast.Call) and len(ds[0].args) == 3 else None
            if isinstance(col_arg, ast.BinOp):
                # see through a local such as `end_col = match.end()` bound in the same block
                env_ = {k: v for k, v in ((st_.targets[0].id, st_.value) for st_ in _block_stmts(c) if isinstance(st_, ast.Assign) and len(st_.targets) == 1 and isinstance(st_.targets[0], ast.Name)
                                           and isinstance(st_.value, ast.Call) and norm(st_.value) == "match.end()")}
                col_arg = expand(col_arg, env_)
            ok = len(ds) == 1 and isinstance(ds[0], ast.Call) and call_name(ds[0]) == "SrcPos" and len(ds[0].args) == 3 and norm(ds[0].args[1]) == line_var and col_arg is not None and norm(col_arg).replace(" ", "") == "match.end()+1"
            cx.ob("R04a", c, ok, "end = (current line, match.end() + 1)" if ok else "end position is not SrcPos(src, line, match.end() + 1) computed for this token", stmt=norm(c)[:60] + " [end expr]")
        cx.ob("R04a", c, norm(c.args[2]) != norm(c.args[3]), "start and end are different values" if norm(c.args[2]) != norm(c.args[3]) else "start and end are the same expression", stmt=norm(c)[:60] + " [distinct]")
    cx.at_least("R04a", "token construction sites", n_sites, 3)
    # every SrcPos built in the loop for a *start* uses col + 1
    n_sp = 0
    from sa.guards import expand as _expand
    m_env = {}
    for st_ in walk_local(tok):
        if isinstance(st_, ast.Assign) and len(st_.targets) == 1 and isinstance(st_.targets[0], ast.Name) and norm(st_.value) in ("match.end()", "match.start()"):
            m_env.setdefault(st_.targets[0].id, []).append(st_.value)
    m_env = {k: v[0] for k, v in m_env.items() if len({norm(x) for x in v}) == 1}
    for c in walk_local(line_loop):
        if isinstance(c, ast.Call) and call_name(c) == "SrcPos" and len(c.args) == 3 and "end()" not in norm(_expand(c.args[2], m_env)):
            st = enclosing_stmt(c)
            if isinstance(st, ast.Raise) or any(isinstance(a, ast.Raise) for a in ancestors(c)):
                continue
            n_sp += 1
            ok = norm(c.args[1]) == line_var and norm(c.args[2]).replace(" ", "") in ("col+1", "match.start()+1")
            cx.ob("R04a", c, ok, "start = (current line, scan column + 1)" if ok else f"start position built as {norm(c)}")
    cx.counts["R04a:start positions built in the line loop"] = n_sp
    # the scan column advances to match.end() and restarts at 0 per line
    cols = [s for s in walk_local(line_loop) if isinstance(s, ast.Assign) and is_name(s.targets[0], "col")]
    ok = any(const(s.value, int) and s.value.value == 0 and parent(s) is line_loop for s in cols) and \
        all(norm(_expand(s.value, m_env)) in ("0", "match.end()", f"len({text_var})") for s in cols)
    cx.ob("R04a", line_loop, ok, "the scan column restarts at 0 on each line and advances to match.end()" if ok else "scan column bookkeeping altered", stmt="scan column")
    # prev end is updated after each emitted token
    for c in [x for x in seen.values() if x[4]]:
        call = c[0]
        blk = _block_stmts(call)
        st = enclosing_stmt(call)
        later = blk[blk.index(st) + 1:] if st in blk else []
        ok = any(isinstance(s, ast.Assign) and norm(s.value) == norm(call.args[3]) for s in later)
        if not ok and isinstance(call.args[3], ast.Name):
            # the end position may be built directly in the carried variable (the one the end-of-input token is made of)
            carried = {norm(x[0].args[2]) for x in seen.values() if not x[4] and norm(x[0].args[2]) == norm(x[0].args[3])}
            ok = call.args[3].id in carried and not any(call.args[3].id in {t.id for t in ast.walk(s_) if isinstance(t, ast.Name) and isinstance(t.ctx, ast.Store)} for s_ in later)
        cx.ob("R04a", call, ok, "the end position is remembered for the next token" if ok else "the emitted token's end is not recorded as the previous end", stmt=norm(call)[:60] + " [carry]")

    # ---------------- R04e
    got = cx.func(REL, "TElement.get_orig_text", "R04e")

    inl_of = {}

    def line_splitters(f, arg):
        # private helpers expanded in place: the cut may have been moved into one (`lines = self._src_lines(text)`)
        from sa.inline import inlined
        from sa.guards import expand_at
        f, _u = inlined(repo.modules[REL], f, nested=True)
        inl_of[getattr(f, 'name', arg)] = f
        out = []
        for c in walk_local(f):
            if isinstance(c, ast.Call) and isinstance(c.func, ast.Attribute) and c.func.attr in ("split", "splitlines", "rsplit", "partition") \
                    and (is_name(c.func.value, arg) or is_name(expand_at(c.func.value, c), arg)):
                out.append((c, c.func.attr + "(" + ", ".join(norm(a) for a in c.args) + (", " + ", ".join(f"{k.arg}={norm(k.value)}" for k in c.keywords) if c.keywords else "") + ")"))
        return out
    w = line_splitters(tok, params(tok)[1])
    r = line_splitters(got, params(got)[1])
    cx.need(len(w) == 1 and len(r) == 1, "R04e", tok, f"one line-splitting call each in tokenize and get_orig_text (found {len(w)}, {len(r)})")
    ok = w[0][1] == r[0][1]
    cx.ob("R04e", w[0][0], ok, f"both cut a str text with .{w[0][1]}: line numbers mean the same in both" if ok else
          f"the tokenizer numbers lines by .{w[0][1]} but get_orig_text by .{r[0][1]}: for texts where the two differ (\\x0c, \\x0b, lone \\r, \\x85, \\u2028 ...) every later span points at the wrong line")
    # the per-line transformation in the tokenizer may only remove characters at the end of a line (columns keep their meaning)
    gens = [g for g in walk_local(inl_of.get(tok.name, tok)) if isinstance(g, (ast.GeneratorExp, ast.ListComp)) and w and w[0][0] in list(ast.walk(g))]
    ok = len(gens) == 1 and isinstance(gens[0].elt, ast.Call) and isinstance(gens[0].elt.func, ast.Attribute) and gens[0].elt.func.attr == "rstrip" and not gens[0].generators[0].ifs \
        and norm(gens[0].elt.func.value) == norm(gens[0].generators[0].target)
    if not gens:
        ok = True
    cx.ob("R04e", gens[0] if gens else tok, ok, "lines are only right-stripped (columns and line count unchanged)" if ok else "lines are transformed / filtered in a way that shifts columns or line numbers", stmt="per-line transformation")
    # ---------------- R04b
    lex_seen = {}
    for c, tags, in_loop in pv.lex:
        lex_seen.setdefault(id(c), [c, set(), in_loop])[1].update(tags)
    n_lex = 0
    for c, tags, in_loop in lex_seen.values():
        if not in_loop:
            continue
        n_lex += 1
        ok = tags <= {CUR} and bool(tags)
        cx.ob("R04b", c, ok, "the error position is built on the current line" if ok else f"lexical error position may be {sorted(tags - {CUR})} (names another line)")
        g = any(norm(e) == "match is None" and pol for e, pol in facts(c))
        cx.ob("R04b", c, g, "raised exactly when no token pattern matches at the scan position" if g else "lexical error is not guarded by `match is None`", stmt=norm(c)[:60] + " [guard]")
    cx.at_least("R04b", "lexical errors inside the line loop", n_lex, 1)

    # ---------------- R04c
    cx.guard(_r04c, cx, repo, parse)
    # ---------------- R04d
    # decided by interpreting the constructor over its finite cases: is_leaf given True / False, span given / absent
    from sa.finite import Interp, C, K, S, TOP
    n_cases = 0
    for leaf in (True, False):
        for given in (True, False):
            n_cases += 1
            it_ = Interp()
            env = {"name": K("str", False, "name"), "value": K("list", None, "val"), "is_leaf": C(leaf), "is_valid_inner_node": C(not leaf),
                   "start_pos": K("other", False, "SP") if given else C(None), "end_pos": K("other", False, "EP") if given else C(None)}
            body = [st for st in te_init.body if not (isinstance(st, ast.Assign) and is_name(st.targets[0], "is_valid_inner_node"))]
            outs = it_.run(body, env)
            got = set()
            for o in outs:
                if o.how == "raise":
                    got.add(("raise", str(o.value)))
                elif o.how in ("fall", "return"):
                    sp, ep = o.env.get("self.start_pos"), o.env.get("self.end_pos")

                    def tag(v):
                        if isinstance(v, K):
                            return v.tag
                        if isinstance(v, S):
                            return "".join(p_[1] if isinstance(p_, tuple) and p_[0] == "ref" else str(p_) for p_ in v.parts)
                        return repr(v)
                    got.add((tag(sp), tag(ep)))
                else:
                    got.add((o.how, ""))
            label = f"{'leaf' if leaf else 'inner node'}, span {'given' if given else 'absent'}"
            if given:
                want = {("SP", "EP")}
                ok = got == want
                cx.ob("R04d", te_init, ok, f"{label}: the explicit span is stored as given" if ok else f"{label}: span becomes {sorted(got)}", stmt=f"span [{label}]")
            elif leaf:
                ok = got == {("raise", "AssertionError")}
                cx.ob("R04d", te_init, ok, f"{label}: rejected (leaves require an explicit span)" if ok else f"{label}: {sorted(got)} - a leaf may be created without span", stmt=f"span [{label}]")
            else:
                ok = got == {("self.value[0].start_pos", "self.value[-1].end_pos")}
                cx.ob("R04d", te_init, ok, f"{label}: first child's start .. last child's end" if ok else f"{label}: span becomes {sorted(got)}", stmt=f"span [{label}]")
    cx.at_least("R04d", "constructor cases", n_cases, 4)
    leafs = [c for c in walk_local(parse) if isinstance(c, ast.Call) and call_name(c) == "TElement" and len(c.args) == 2 and norm(c.args[1]) == "next_token.value"]
    ok = len(leafs) == 1 and {k.arg: norm(k.value) for k in leafs[0].keywords} == {"start_pos": "next_token.start_pos", "end_pos": "next_token.end_pos"}
    cx.ob("R04d", leafs[0] if leafs else parse, ok, "a leaf copies the token's own start and end" if ok else "leaf span is not the token's (start_pos, end_pos)")
    # _Token keeps what it is given
    ti = cx.func(REL, "_Token.__init__", "R04d")
    body = {norm(s) for s in ti.body}
    ok = {"self.start_pos = start_pos", "self.end_pos = end_pos"} <= body and params(ti)[1:] == ["name", "value", "start_pos", "end_pos"]
    cx.ob("R04d", ti, ok, "_Token(name, value, start, end) stores start and end as given" if ok else "_Token constructor altered")
    # ParsingError / errors take positions from tokens
    pe = cx.func(REL, "ParsingError.__init__", "R04b")
    ok = any(norm(s) == "self.src_pos = next_tokens[0].start_pos" for s in pe.body)
    cx.ob("R04b", pe, ok, "a parsing error names the start of the first unparsed token" if ok else "ParsingError position altered")


def _block_stmts(node):
    st = enclosing_stmt(node)
    p = parent(st)
    for field in ("body", "orelse", "finalbody"):
        lst = getattr(p, field, None)
        if isinstance(lst, list) and any(x is st for x in lst):
            return lst
    return []


def _r04f(cx, repo):
    """Spans refer to the text the caller holds: get_orig_text and the tokenizer may receive the caller's own list of lines
    (`lines = text`), so an in-place change of it (item assignment, del, +=, a mutator) makes later look-ups of other
    elements cut the wrong characters."""
    from sa.core import param_mutations
    n = 0
    for qual_, pname in (("TElement.get_orig_text", None), ("_Tokenizer.tokenize", None), ("LLParser.parse", None)):
        f = cx.func(REL, qual_, "R04f")
        p = params(f)[1]
        muts = param_mutations(f, p)
        n += 1
        cx.ob("R04f", muts[0][0] if muts else f, not muts, f"{f.name}: the text argument `{p}` (and names bound to it) is only read" if not muts else
              f"{f.name}: {muts[0][2]}, which may be the caller's own list of source lines `{p}`: the source text is changed, and get_orig_text of other elements on that line no longer returns their lexemes",
              stmt=f"{f.name} text purity")
    cx.at_least("R04f", "functions receiving the source text", n, 3)


# -------------------------------------------------------------------------------------------- R04c
def _emptiness(e, pol):
    """(text of X, X is empty) when the must-fact says so: len(X) == 0 / != 0 / > 0 / >= 1 / < 1, `not X`, `X`"""
    if isinstance(e, ast.Compare) and len(e.ops) == 1 and const(e.left, int) and isinstance(e.comparators[0], ast.Call):
        # k <op> len(X): the mirrored spelling
        mirror = {ast.Lt: ast.Gt, ast.Gt: ast.Lt, ast.LtE: ast.GtE, ast.GtE: ast.LtE, ast.Eq: ast.Eq, ast.NotEq: ast.NotEq}.get(type(e.ops[0]))
        if mirror is None:
            return None
        e = ast.Compare(left=e.comparators[0], ops=[mirror()], comparators=[e.left])
    if isinstance(e, ast.Compare) and len(e.ops) == 1 and isinstance(e.left, ast.Call) and call_name(e.left) == "len" and len(e.left.args) == 1 \
            and const(e.comparators[0], int):
        k, op = e.comparators[0].value, type(e.ops[0])
        x = e.left.args[0]
        import operator as _o
        f = {ast.Eq: _o.eq, ast.NotEq: _o.ne, ast.Gt: _o.gt, ast.GtE: _o.ge, ast.Lt: _o.lt, ast.LtE: _o.le}.get(op)
        if f is None:
            return None
        # which lengths satisfy the fact: 0 / some length >= 1 (the comparison is monotone: 1, k-1, k, k+1 are enough)
        can_empty = f(0, k) == pol
        can_nonempty = any(f(n, k) == pol for n in {1, max(1, k - 1), max(1, k), max(1, k + 1)})
        if can_empty and not can_nonempty:
            return x, True
        if can_nonempty and not can_empty:
            return x, False
        return x, "any"            # says nothing about emptiness (e.g. len(X) >= 0)
    if isinstance(e, ast.Compare) and len(e.ops) == 1 and any(isinstance(z, ast.Call) and call_name(z) == "len" for z in (e.left, e.comparators[0])) \
            and not any(const(z, int) for z in (e.left, e.comparators[0])):
        z = e.left if isinstance(e.left, ast.Call) and call_name(e.left) == "len" else e.comparators[0]
        return z.args[0], "any"    # compared with another quantity: nothing about emptiness
    if isinstance(e, (ast.Name, ast.Attribute, ast.Subscript)):
        return e, not pol
    return None


def _r04c(cx, repo, parse):
    """A node that matched nothing gets an explicit empty span at the token under the cursor.  Decided on `parse` with its
    private helpers expanded: the construction sites of TElement that pass a span are classified by the span expressions
    (local names replaced by their definitions where that is valid at the site)."""
    from sa.inline import inlined
    from sa.guards import xnorm_at
    fn, used = inlined(repo.modules[REL], parse)
    sites = [c for c in walk_local(fn) if isinstance(c, ast.Call) and call_name(c) == "TElement" and any(k.arg == "start_pos" for k in c.keywords)]
    empties = []
    for c in sites:
        kw = {k.arg: k.value for k in c.keywords}
        sp = xnorm_at(kw["start_pos"], c)
        ep = xnorm_at(kw["end_pos"], c) if "end_pos" in kw else None
        if ep is not None and sp.endswith(".start_pos") and ep.endswith(".end_pos") and sp[:-len(".start_pos")] == ep[:-len(".end_pos")]:
            continue        # a leaf: the token's own span (R04d)
        empties.append((c, sp, ep))
    cx.need(len(empties) == 1, "R04c", parse, f"empty-node construction site ({len(empties)} candidate(s) among {len(sites)} TElement(.., start_pos=..) sites)")
    c, sp, ep = empties[0]
    # the stack element whose production just matched: the receiver of `.symbol` in the node's first argument
    cx.need(c.args and isinstance(c.args[0], ast.Attribute), "R04c", c, "the node's symbol is not read from the stack element")
    recv = xnorm_at(c.args[0].value, c)
    want = f"tokens[{recv}.cur_token_pos].start_pos"
    if sp == want and ep == sp:
        cx.ob("R04c", c, True, "empty node: start = end = start of the token under the cursor")
    else:
        import re as _re
        pat = r"(tokens\[.*\]|[A-Za-z_][\w.]*(\[-?\d+\])?(\.\w+)*)\.(start_pos|end_pos)"
        known = _re.fullmatch(pat, sp or "") and (ep is None or _re.fullmatch(pat, ep))
        cx.need(known, "R04c", c, f"span of the empty node is not recognised: start={sp} end={ep}")
        cx.ob("R04c", c, False, f"empty node span is ({sp}, {ep}), not (start of the token under the cursor) x 2 = {want}")
    # emptiness: the site is reached only when the element has no children
    emp = []
    for e, pol in facts(c, expand_tests=True):
        r = _emptiness(e, pol)
        if r is not None:
            emp.append((norm(r[0]), r[1]))
        elif f"{recv}.values" in norm(e):
            emp.append((norm(e), None))         # a test on the children that is not understood: neither guard nor contradiction
    has = any(x in (f"{recv}.values",) and is_empty is True for x, is_empty in emp)
    contradict = any(x == f"{recv}.values" and is_empty is False for x, is_empty in emp)
    if has:
        cx.ob("R04c", c, True, "the explicit empty span is given only to a node without children", stmt=norm(c)[:60] + " [guard]")
    elif contradict or all(is_empty == "any" for _x, is_empty in emp):
        cx.ob("R04c", c, False, "the explicit empty span is given to nodes that have children (their span must come from the children)", stmt=norm(c)[:60] + " [guard]")
    else:
        cx.need(False, "R04c", c, f"the test guarding the empty-node site is not recognised: {emp}")
