"""C19 — command options are inherited exactly along the declared command graph."""
import ast

from sa.core import (AnalysisError, FUNC, assignments, call_name, class_attr, const, dotted, enclosing, enclosing_func,
                     enclosing_stmt, is_attr, is_name, is_self_attr, literal, norm, params, parent, walk_local, names_in)
from sa.guards import facts, enclosing_loops, split
from sa.cfg import CFG

PROP = "C19"
REL = "ak/cli_tools.py"
EXPLANATION = (
    "Effect / guard / loop-structure analysis of ak/cli_tools.py. R19a: the insert primitive register_dependent asserts "
    "freshness of its key; therefore every call whose (receiver, key) pair can repeat within one command declaration (a call "
    "inside a loop) must have `key not in <receiver>.<same container>` among its must-facts, or the primitive must be "
    "idempotent; and the eager transitive closure is wired: inside the loop over the declared parents the new parser is "
    "registered in the parent itself and in every earlier parser that already has that parent as dependent, with "
    "(name, new parser) as arguments, and the new parser enters the registry only after that loop. R19b: "
    "AkArgumentParser.add_argument reaches super().add_argument on every path and, unless _propagate is False, first "
    "forwards to every dependent with _propagate=False; ArgParser.add_argument forwards to every command parser. R19c: both "
    "parser-creation sites pass parents=[self.common_options] and the standard options are installed on it before the loop. "
    "R19d: every parent lookup is dominated by the membership assertion. R19e: the default command is inserted iff the "
    "first argument is neither a help flag nor a command name; colour normalisation folds no_color into color."
)


class _Unknown(Exception):
    pass


CMD, OTHER, DEFAULT = "<a command name>", "<some other word>", "<the default command>"


class _Model:
    """Evaluation of the argument pre-processing of parse_args on a finite partition of its inputs: the argument vector is empty or
    starts with -h / --help / a command name / any other word; the parser is single- or multi-command; help-if-no-args is on or off.
    The outcome depends on the inputs only through membership and identity tests, so one representative per class decides the class.
    Values are model values (lists / strings / None / booleans / a frozenset for the registry); anything else is _Unknown."""

    def __init__(self, argv, multi, help_if_none):
        self.env = {"args": list(argv), "namespace": None, "self.command_parsers": frozenset([CMD]) if multi else None,
                    "self._help_if_no_args": help_if_none, "self.default_command": DEFAULT}
        self.result = None

    def ev(self, e):
        if isinstance(e, ast.Constant):
            return e.value
        if isinstance(e, (ast.Name, ast.Attribute)):
            t = norm(e)
            if t in self.env:
                return self.env[t]
            raise _Unknown(f"value of {t}")
        if isinstance(e, (ast.List, ast.Tuple)):
            return [self.ev(x) for x in e.elts]
        if isinstance(e, ast.Set):
            return frozenset(self.ev(x) for x in e.elts)
        if isinstance(e, ast.IfExp):
            return self.ev(e.body) if self.truth(self.ev(e.test)) else self.ev(e.orelse)
        if isinstance(e, ast.UnaryOp) and isinstance(e.op, ast.Not):
            return not self.truth(self.ev(e.operand))
        if isinstance(e, ast.BoolOp):
            v = None
            for x in e.values:
                v = self.ev(x)
                if self.truth(v) != isinstance(e.op, ast.And):
                    return v
            return v
        if isinstance(e, ast.Subscript):
            base = self.ev(e.value)
            if not isinstance(base, list):
                raise _Unknown(f"subscript of {norm(e.value)}")
            if isinstance(e.slice, ast.Slice):
                lo = self.ev(e.slice.lower) if e.slice.lower is not None else None
                hi = self.ev(e.slice.upper) if e.slice.upper is not None else None
                if e.slice.step is not None or not all(x is None or isinstance(x, int) for x in (lo, hi)):
                    raise _Unknown("slice")
                return base[lo:hi]
            i = self.ev(e.slice)
            if not isinstance(i, int) or isinstance(i, bool):
                raise _Unknown("index")
            if not -len(base) <= i < len(base):
                raise _Raises(f"IndexError at `{norm(e)}`")
            return base[i]
        if isinstance(e, ast.Compare):
            left = self.ev(e.left)
            for op, c in zip(e.ops, e.comparators):
                right = self.ev(c)
                if isinstance(op, (ast.In, ast.NotIn)):
                    if right is None:
                        raise _Raises(f"TypeError at `{norm(e)}` (membership test in None)")
                    if not isinstance(right, (list, frozenset)):
                        raise _Unknown(f"membership in {norm(c)}")
                    if isinstance(left, list):
                        raise _Unknown("list as member")
                    # a literal collection that mentions words other than the help flags could also contain the representative
                    if any(isinstance(x, str) and x not in ("-h", "--help", CMD, OTHER, DEFAULT) for x in right) and left in (CMD, OTHER):
                        raise _Unknown(f"membership of an arbitrary word in {sorted(map(str, right))}")
                    r = left in right
                    r = r if isinstance(op, ast.In) else not r
                elif isinstance(op, (ast.Is, ast.IsNot)):
                    if not (left is None or right is None or isinstance(left, bool) and isinstance(right, bool)):
                        raise _Unknown("identity test")
                    r = (left is right) if isinstance(op, ast.Is) else (left is not right)
                elif isinstance(op, (ast.Eq, ast.NotEq)):
                    if isinstance(left, str) and isinstance(right, str) and {left, right} & {CMD, OTHER} and left != right:
                        raise _Unknown("equality with an arbitrary word")
                    r = (left == right) if isinstance(op, ast.Eq) else (left != right)
                elif isinstance(op, (ast.Lt, ast.LtE, ast.Gt, ast.GtE)) and isinstance(left, int) and isinstance(right, int):
                    r = {ast.Lt: left < right, ast.LtE: left <= right, ast.Gt: left > right, ast.GtE: left >= right}[type(op)]
                else:
                    raise _Unknown(f"comparison {norm(e)}")
                if not r:
                    return False
                left = right
            return True
        if isinstance(e, ast.Call):
            n = call_name(e)
            if n in ("all", "any") and isinstance(e.func, ast.Name) and len(e.args) == 1 and isinstance(e.args[0], (ast.GeneratorExp, ast.ListComp)) \
                    and len(e.args[0].generators) == 1 and isinstance(e.args[0].generators[0].target, ast.Name):
                g = e.args[0].generators[0]
                it = self.ev(g.iter)
                if not isinstance(it, list):
                    raise _Unknown("generator source")
                saved = self.env.get(g.target.id, _Model)
                res = n == "all"
                try:
                    for x in it:
                        self.env[g.target.id] = x
                        if not all(self.truth(self.ev(c)) for c in g.ifs):
                            continue
                        v = self.truth(self.ev(e.args[0].elt))
                        if v != (n == "all"):
                            res = v
                            break
                finally:
                    if saved is _Model:
                        self.env.pop(g.target.id, None)
                    else:
                        self.env[g.target.id] = saved
                return res
            if n == "len" and isinstance(e.func, ast.Name) and len(e.args) == 1:
                v = self.ev(e.args[0])
                if isinstance(v, (list, frozenset)):
                    return len(v)
            if n in ("list", "bool") and isinstance(e.func, ast.Name) and len(e.args) == 1:
                v = self.ev(e.args[0])
                if n == "bool":
                    return self.truth(v)
                if isinstance(v, list):
                    return list(v)
            raise _Unknown(f"call {norm(e)[:60]}")
        raise _Unknown(f"expression {norm(e)[:60]}")

    def truth(self, v):
        if v is None or isinstance(v, (bool, int, list, frozenset)):
            return bool(v)
        if isinstance(v, str):
            return True
        raise _Unknown("truth value")

    def run(self, stmts):
        """-> True when the hand-over to argparse was reached"""
        for st in stmts:
            if isinstance(st, ast.If):
                if self.run(st.body if self.truth(self.ev(st.test)) else st.orelse):
                    return True
                continue
            hand = [c for c in ast.walk(st) if isinstance(c, ast.Call) and call_name(c) == "parse_args" and norm(c.func.value) == "self.parser"]
            if hand:
                if not hand[0].args:
                    raise _Unknown("parse_args without an explicit argument list")
                self.result = self.ev(hand[0].args[0])
                return True
            if isinstance(st, ast.Assign) and len(st.targets) == 1 and isinstance(st.targets[0], ast.Name):
                v = self.ev(st.value)
                self.env[st.targets[0].id] = list(v) if isinstance(v, list) and not isinstance(st.value, ast.Name) else v
                continue
            if isinstance(st, ast.Expr) and isinstance(st.value, ast.Call):
                c = st.value
                n = call_name(c)
                if n == "print" and isinstance(c.func, ast.Name):
                    continue
                if isinstance(c.func, ast.Attribute) and isinstance(c.func.value, ast.Name) and isinstance(self.env.get(c.func.value.id), list):
                    tgt = self.env[c.func.value.id]
                    vals = [self.ev(a) for a in c.args]
                    if n == "append" and len(vals) == 1:
                        tgt.append(vals[0])
                        continue
                    if n == "insert" and len(vals) == 2 and isinstance(vals[0], int):
                        tgt.insert(vals[0], vals[1])
                        continue
                    if n == "extend" and len(vals) == 1 and isinstance(vals[0], list):
                        tgt.extend(vals[0])
                        continue
                raise _Unknown(f"statement {norm(st)[:60]}")
            if isinstance(st, ast.Expr) and isinstance(st.value, ast.Constant):
                continue
            if isinstance(st, ast.AugAssign) and isinstance(st.target, ast.Name) and isinstance(st.op, ast.Add):
                a, b = self.ev(st.target), self.ev(st.value)
                if isinstance(a, list) and isinstance(b, list):
                    self.env[st.target.id] = a + b
                    continue
            if isinstance(st, ast.Pass):
                continue
            raise _Unknown(f"statement {norm(st)[:60]}")
        return False


class _Raises(Exception):
    pass


def _set_level_registration(cx, f, loop, ins, container, name_var, new_var):
    """The registration written on sets: one pass over the registry,
           for k, e in registry.items():  if k in P or <P meets e.<container>>:  e.register(name, new)
    P being the set of declared parent names.  Receivers = the parents themselves + every parser that has one of them as
    dependent - the same set the nested loops produce; each parser is visited once."""
    from sa.guards import reaching_def
    items = norm(loop.iter).endswith(".items()") or norm(loop.iter).endswith(".items())")
    if items:
        cx.need(isinstance(loop.target, ast.Tuple) and len(loop.target.elts) == 2 and all(isinstance(x, ast.Name) for x in loop.target.elts), "R19a", loop, "registry loop target")
        kvar, evar = loop.target.elts[0].id, loop.target.elts[1].id
    else:
        cx.need(isinstance(loop.target, ast.Name), "R19a", loop, "registry loop target")
        kvar, evar = None, loop.target.id
    calls = [c for c in ast.walk(loop) if isinstance(c, ast.Call) and call_name(c) == ins.name]
    cx.need(len(calls) == 1 and isinstance(calls[0].func, ast.Attribute) and is_name(calls[0].func.value, evar), "R19a", loop, "one registration call on the visited parser")
    c = calls[0]
    ok_args = [norm(a) for a in c.args] == [name_var, new_var]
    cx.ob("R19a", c, ok_args, f"registers ({name_var}, {new_var})" if ok_args else f"registration is {norm(c.func.value)}.register_dependent({', '.join(norm(a) for a in c.args)})", stmt=norm(c) + " [arguments]")
    # the condition: the must-facts at the call inside the loop (if chain, early `continue` guards, however spelled)
    exits = [n for n in ast.walk(loop) if isinstance(n, (ast.Break, ast.Return))] + \
            [n for n in ast.walk(loop) if isinstance(n, ast.Continue) and not (isinstance(parent(n), ast.If) and parent(parent(n)) is loop and parent(n).body == [n] and not parent(n).orelse)]
    cx.need(not exits, "R19a", loop, "registry pass with early exits other than guard `continue`s: form not analysed")
    from sa.guards import canon_test, split as _split
    disj, extra = [], []

    def _named(e):
        """a test kept in a local (`is_ascendant = a or b`) is read as its definition"""
        if isinstance(e, ast.Name):
            ds_ = [v_ for _s, v_ in assignments(f, e.id)]
            if len(ds_) == 1 and ds_[0] is not None and isinstance(ds_[0], (ast.BoolOp, ast.Compare, ast.Call, ast.UnaryOp)):
                return ds_[0]
        return e

    def _neg(e):
        if isinstance(e, ast.UnaryOp) and isinstance(e.op, ast.Not):
            return e.operand
        if isinstance(e, ast.Compare) and len(e.ops) == 1 and isinstance(e.ops[0], (ast.NotIn, ast.In)):
            return ast.Compare(left=e.left, ops=[ast.In() if isinstance(e.ops[0], ast.NotIn) else ast.NotIn()], comparators=e.comparators)
        return ast.UnaryOp(op=ast.Not(), operand=e)
    todo = [(e_, p_) for e_, p_ in facts(c, stop=loop)]
    cx.need(todo, "R19a", loop, "registry pass without a condition: form not analysed")
    while todo:
        e_, pol_ = todo.pop(0)
        e2_ = _named(e_)
        if e2_ is not e_:
            todo = list(_split(e2_, pol_)) + todo
            continue
        if pol_ and isinstance(e_, ast.BoolOp) and isinstance(e_.op, ast.Or):
            disj.append([_named(v_) for v_ in e_.values])
        elif not pol_ and isinstance(e_, ast.BoolOp) and isinstance(e_.op, ast.And):
            disj.append([_named(_neg(v_)) for v_ in e_.values])       # not (not a and not b)  ==  a or b
        else:
            extra.append(e_ if pol_ else _neg(e_))
    cx.need(len(disj) == 1, "R19a", loop, "the receivers' condition is not one disjunction `parent itself or ancestor of a parent`")
    fresh = ("in", name_var, f"{evar}.{container}", False)

    def parents_set(e):
        """'set' when e is the set of declared parent names, 'text' when it is the raw declaration text, None otherwise"""
        if not isinstance(e, ast.Name):
            return None
        r = reaching_def(e.id, c, calls=True, containers=True)
        v = r[0] if r is not None else None
        if v is None:
            ds_ = [v_ for _s, v_ in assignments(f, e.id)]
            v = ds_[0] if len(ds_) == 1 else None          # bound once in the function
        if isinstance(v, (ast.SetComp, ast.ListComp)) and any(isinstance(g.iter, ast.Call) and call_name(g.iter) == "split" for g in v.generators):
            return "set"
        if isinstance(v, ast.Call) and call_name(v) in ("set", "frozenset", "sorted", "list") and v.args and isinstance(v.args[0], (ast.GeneratorExp, ast.ListComp, ast.SetComp)) \
                and any(isinstance(g.iter, ast.Call) and call_name(g.iter) == "split" for g in v.args[0].generators):
            return "set"
        # bound by unpacking / as an element of str.partition / str.split: a piece of text
        for st_, v_ in assignments(f, e.id):
            src = v_ if v_ is not None else getattr(st_, "value", None)
            if isinstance(src, ast.Call) and call_name(src) in ("partition", "rpartition", "split", "rsplit"):
                return "text"
            if isinstance(src, ast.Subscript) and isinstance(src.value, ast.Call) and call_name(src.value) in ("partition", "rpartition", "split", "rsplit"):
                return "text"
            if isinstance(src, ast.Constant) and isinstance(src.value, str):
                return "text"
            if isinstance(src, ast.Name):       # unpacked from a local that holds the pieces of a split
                for _s2, v2 in assignments(f, src.id):
                    if isinstance(v2, ast.Call) and call_name(v2) in ("partition", "rpartition", "split", "rsplit"):
                        return "text"
        return None
    for t in extra:
        ok_extra = canon_test(t) == {fresh} or (isinstance(t, ast.Name) and parents_set(t) == "set")
        cx.need(ok_extra, "R19a", t, f"additional condition on the receivers `{norm(t)[:60]}` not recognised")
    kinds = {}
    for d in disj[0]:
        k = None
        if isinstance(d, ast.Compare) and len(d.ops) == 1 and isinstance(d.ops[0], ast.In) and kvar is not None and is_name(d.left, kvar):
            ps = parents_set(d.comparators[0])
            if ps == "set":
                k = "direct"
            elif ps == "text":
                cx.ob("R19a", d if getattr(d, "lineno", None) else loop, False, f"`{norm(d)}` tests the registered name against the raw declaration text `{norm(d.comparators[0])}`: a substring test - a parser whose name is "
                      "part of a parent's name receives the new command although it is not its ancestor (options leak to commands that did not ask for them)", stmt="direct registration", semantic=True)
                k = "direct-text"
        elif isinstance(d, ast.UnaryOp) and isinstance(d.op, ast.Not) and isinstance(d.operand, ast.Call) and call_name(d.operand) == "isdisjoint" and len(d.operand.args) == 1:
            a_, b_ = d.operand.func.value, d.operand.args[0]
            for x_, y_ in ((a_, b_), (b_, a_)):
                if parents_set(x_) == "set" and norm(y_) == f"{evar}.{container}":
                    k = "transitive"
        elif isinstance(d, ast.BinOp) and isinstance(d.op, ast.BitAnd):
            for x_, y_ in ((d.left, d.right), (d.right, d.left)):
                if parents_set(x_) == "set" and norm(y_) in (f"{evar}.{container}", f"{evar}.{container}.keys()", f"set({evar}.{container})"):
                    k = "transitive"
        elif isinstance(d, ast.Call) and call_name(d) == "any" and len(d.args) == 1 and isinstance(d.args[0], ast.GeneratorExp) and len(d.args[0].generators) == 1:
            g = d.args[0].generators[0]
            if parents_set(g.iter) == "set" and isinstance(g.target, ast.Name) and not g.ifs and canon_test(d.args[0].elt) == {("in", g.target.id, f"{evar}.{container}", True)}:
                k = "transitive"
        if k is None and isinstance(d, ast.Compare) and len(d.ops) == 1 and isinstance(d.ops[0], (ast.LtE, ast.Lt)) and parents_set(d.left) == "set" \
                and norm(d.comparators[0]) in (f"{evar}.{container}", f"{evar}.{container}.keys()", f"set({evar}.{container})"):
            cx.ob("R19a", d if getattr(d, "lineno", None) else loop, False, f"`{norm(d)}`: a registered parser counts as an ancestor only if ALL declared parents are among its dependents (subset test); with two parents "
                  "from different lines of the graph the grand-parents of either line are skipped - their options are not inherited", stmt="transitive registration", semantic=True)
            k = "transitive-all"
        if k is None and isinstance(d, ast.Call) and call_name(d) == "issubset" and isinstance(d.func, ast.Attribute) and parents_set(d.func.value) == "set":
            cx.ob("R19a", d if getattr(d, "lineno", None) else loop, False, f"`{norm(d)}`: ancestors are required to have ALL declared parents as dependents", stmt="transitive registration", semantic=True)
            k = "transitive-all"
        if k is None:
            raise AnalysisError("R19a", f"{REL}::_init_multicmd_parser", f"receiver condition `{norm(d)[:70]}` not recognised")
        kinds[k] = d
    if "direct-text" not in kinds:
        cx.ob("R19a", loop, "direct" in kinds, "the new parser is registered in each declared parent" if "direct" in kinds else "the new parser is not registered in its declared parents", stmt="direct registration")
    if "transitive-all" not in kinds:
      cx.ob("R19a", loop, "transitive" in kinds, "the new parser is also registered in all ancestors (parsers that already have a parent as dependent)" if "transitive" in kinds else
          "no registration in the ancestors of a parent: options of a grand-parent are not inherited", stmt="transitive registration")


def _default_command_rule(cx, repo, parse_args):
    """R19e: what ArgParser.parse_args hands to argparse, decided on the finite partition of its inputs (see _Model)."""
    from sa.inline import inlined
    fn, used = inlined(repo.modules[REL], parse_args, tests=True)
    cx.note(f"R19e: parse_args analysed with {used or 'no'} helper(s) inlined")
    n = 0
    for multi in (False, True):
        for hn in (False, True):
            for argv in ([], ["-h"], ["--help"], [CMD], [OTHER], ["-h", OTHER], [OTHER, CMD], [CMD, "-h"]):
                exp = list(argv)
                if not exp and hn:
                    exp.append("--help")
                if multi and (not exp or exp[0] not in ("-h", "--help", CMD)):
                    exp.insert(0, DEFAULT)
                m = _Model(argv, multi, hn)
                case = f"argv={argv}, {'multi' if multi else 'single'}-command parser, help_if_no_args={hn}"
                try:
                    reached = m.run(fn.body)
                    got = m.result if reached else None
                    cx.need(reached, "R19e", parse_args, f"the call self.parser.parse_args(...) is not reached in the model ({case})")
                    why = None if got == exp else f"argparse receives {got}, expected {exp}"
                except _Raises as e:
                    why = str(e)
                except _Unknown as e:
                    cx.need(False, "R19e", parse_args, f"argument pre-processing is outside the evaluated fragment: {e} ({case})")
                n += 1
                cx.ob("R19e", parse_args, why is None, "the default command is put in front exactly when the arguments do not start with a command name or a help flag"
                      if why is None else f"{case}: {why}", stmt=f"default command [{case}]")
    cx.count("R19e:input classes evaluated", n)


def run(cx):
    repo = cx.repo
    for r, t in (("R19a", "transitive registration is wired and every repeatable insert is guarded by a membership test (or the insert is idempotent)"),
                 ("R19b", "options propagate to all dependents exactly once and always reach argparse"),
                 ("R19c", "every command parser inherits the common (colour / verbosity) options"),
                 ("R19d", "parents must be declared earlier: lookup dominated by the assertion"),
                 ("R19e", "default command insertion and colour option normalisation")):
        cx.rule(r, t)
    akp = cx.cls(REL, "AkArgumentParser", "R19a")
    ins = cx.func(REL, "AkArgumentParser.register_dependent", "R19a")
    init_multi_o = cx.func(REL, "ArgParser._init_multicmd_parser", "R19a")
    from sa.inline import inlined as _inl
    init_multi, _used_im = _inl(repo.modules[REL], init_multi_o, depth=3, exclude=("_mk_std_args",))
    if _used_im:
        cx.note(f"R19a: _init_multicmd_parser analysed with {_used_im} expanded in place")
    ak_add = cx.func(REL, "AkArgumentParser.add_argument", "R19b")
    ap_add = cx.func(REL, "ArgParser.add_argument", "R19b")
    parse_args = cx.func(REL, "ArgParser.parse_args", "R19e")

    # ---------------------------------------------------------------- the insert primitive
    pk, pv = params(ins)[1], params(ins)[2]
    stores = [n for n in walk_local(ins) if isinstance(n, ast.Subscript) and isinstance(n.ctx, ast.Store) and is_self_attr(n.value)]
    cx.need(len(stores) == 1, "R19a", ins, "register_dependent: one store into a container attribute expected")
    container = stores[0].value.attr
    st = enclosing_stmt(stores[0])
    ok = is_name(stores[0].slice, pk) and isinstance(st, ast.Assign) and is_name(st.value, pv)
    cx.ob("R19a", st, ok, f"register_dependent stores parser under its name in self.{container}" if ok else "register_dependent does not store dependents[name] = parser")
    asserts = [a for a in walk_local(ins) if isinstance(a, ast.Assert) and isinstance(a.test, ast.Compare) and isinstance(a.test.ops[0], ast.NotIn)
               and is_name(a.test.left, pk) and is_self_attr(a.test.comparators[0], container)]
    raises_on_dup = bool(asserts) or any(isinstance(r, ast.Raise) for r in walk_local(ins))
    early_return = any(isinstance(i, ast.If) and isinstance(i.test, ast.Compare) and isinstance(i.test.ops[0], ast.In) and is_name(i.test.left, pk)
                       and any(isinstance(x, ast.Return) for x in i.body) for i in walk_local(ins))
    idempotent = not raises_on_dup or early_return
    cx.note(f"insert primitive: container self.{container}; asserts freshness: {raises_on_dup}; idempotent: {idempotent}")
    # the container is per parser instance
    pinit = repo.method(akp, "__init__")
    cx.need(pinit is not None, "R19a", f"{REL}::AkArgumentParser.__init__", "vanished")
    ci = [s for s in walk_local(pinit) if isinstance(s, ast.Assign) and any(is_self_attr(t, container) for t in s.targets)]
    ok = len(ci) == 1 and isinstance(ci[0].value, ast.Dict) and not ci[0].value.keys
    cx.ob("R19a", ci[0] if ci else pinit, ok, "each parser has its own empty dependents map" if ok else "dependents map is not a fresh per-parser dict")
    cl = class_attr(akp, container)
    cx.ob("R19a", akp, cl is None, "no class-level dependents map" if cl is None else "class-level dependents map is shared by all parsers", stmt=f"class-level {container}")

    # ---------------------------------------------------------------- call sites of the primitive
    sites = [c for m in repo.modules.values() for c in ast.walk(m.tree) if isinstance(c, ast.Call) and call_name(c) == ins.name]
    cx.at_least("R19a", "register_dependent call sites", len(sites), 1)
    def _set_typed(e, f):
        if isinstance(e, (ast.Set, ast.SetComp)):
            return True
        if isinstance(e, ast.Call) and call_name(e) in ("set", "frozenset"):
            return True
        if isinstance(e, ast.Call) and isinstance(e.func, ast.Attribute) and e.func.attr in ("values", "keys") and not e.args:
            return True
        if isinstance(e, ast.BinOp) and isinstance(e.op, (ast.BitOr, ast.BitAnd, ast.Sub)):
            return _set_typed(e.left, f) or _set_typed(e.right, f)
        if isinstance(e, ast.Name):
            d = [v for _, v in assignments(f, e.id)]
            return bool(d) and all(v is not None and _set_typed(v, f) for v in d)
        return False

    for c in sites:
        recv = norm(c.func.value) if isinstance(c.func, ast.Attribute) else "?"
        key = norm(c.args[0]) if c.args else "?"
        f = enclosing_func(c)
        loops = enclosing_loops(c)
        # the outermost loop over the command declarations cannot repeat a key: a double declaration is rejected
        inner = [l for l in loops if not any(isinstance(a, ast.Assert) and isinstance(a.test, ast.Compare) and isinstance(a.test.ops[0], ast.NotIn)
                                             and norm(a.test.left) == key for a in l.body)]
        guarded = any(isinstance(e, ast.Compare) and len(e.ops) == 1 and ((isinstance(e.ops[0], ast.NotIn) and pol) or (isinstance(e.ops[0], ast.In) and not pol))
                      and norm(e.left) == key and norm(e.comparators[0]) == f"{recv}.{container}" for e, pol in facts(c))
        distinct = False
        if len(inner) == 1 and len([x for x in sites if enclosing_func(x) is f]) == 1:
            l = inner[0]
            distinct = isinstance(c.func, ast.Attribute) and norm(c.func.value) == norm(l.target) and _set_typed(l.iter, f) and key not in {n for n in names_in(l.target)}
            # ... or the values of the registry itself, each visited once
            if not distinct and isinstance(c.func, ast.Attribute) and key not in {n for n in names_in(l.target)}:
                it_ = norm(l.iter)
                if it_ in ("self.command_parsers.values()", "list(self.command_parsers.values())") and norm(c.func.value) == norm(l.target):
                    distinct = True
                elif it_ in ("self.command_parsers.items()", "list(self.command_parsers.items())") and isinstance(l.target, ast.Tuple) and len(l.target.elts) == 2 \
                        and norm(c.func.value) == norm(l.target.elts[1]):
                    distinct = True
        ok = idempotent or guarded or not inner or distinct
        why = ("insert primitive is idempotent" if idempotent else f"guarded by `{key} not in {recv}.{container}`" if guarded else
               "receivers are the distinct elements of a set and this is the only insert site" if distinct else "not inside a loop that can repeat the key") if ok else \
            (f"register_dependent asserts freshness, this call runs inside {len(inner)} loop(s) and can repeat the pair ({recv}, {key}) "
             f"(diamond / ancestor-and-descendant parents) without a `{key} not in {recv}.{container}` guard")
        cx.ob("R19a", c, ok, why)
    # ---------------------------------------------------------------- wiring of the transitive closure
    # the loop over the declared parents
    cmd_loop = next((n for n in init_multi.body if isinstance(n, ast.For) and any(call_name(c) == ins.name for c in ast.walk(n) if isinstance(c, ast.Call))), None)
    cx.need(cmd_loop is not None, "R19a", init_multi, "loop over the command declarations not found")
    reg_store = [n for n in ast.walk(cmd_loop) if isinstance(n, ast.Subscript) and isinstance(n.ctx, ast.Store) and is_self_attr(n.value, "command_parsers")]
    cx.need(len(reg_store) == 1, "R19a", init_multi, "registration self.command_parsers[name] = parser")
    name_var = norm(reg_store[0].slice)
    new_var = norm(enclosing_stmt(reg_store[0]).value)
    ploops = [n for n in ast.walk(cmd_loop) if isinstance(n, ast.For) and n is not cmd_loop and any(call_name(c) == ins.name for c in ast.walk(n) if isinstance(c, ast.Call))
              and not any(isinstance(a, ast.For) and a is not cmd_loop and a is not n and n in list(ast.walk(a)) for a in ast.walk(cmd_loop))]
    cx.need(len(ploops) == 1, "R19a", init_multi, "one loop over the parents that registers the new parser")
    ploop = ploops[0]
    pvar = norm(ploop.target)
    parents_var = norm(ploop.iter)
    set_level = norm(ploop.iter) in ("self.command_parsers.items()", "self.command_parsers.values()", "list(self.command_parsers.items())", "list(self.command_parsers.values())")
    if set_level:
        cx.guard(_set_level_registration, cx, init_multi, ploop, ins, container, name_var, new_var)
    # Which parsers receive the new one?  Every call site's receiver is resolved to a union of terms
    #     ("parent",)                      the parser of the declared parent  self.command_parsers[<pvar>]
    #     ("all", frozenset(conditions))   every registered parser e for which the conditions hold  (e written <e>)
    # whatever the spelling: nested loops, a list `[parent, *ancestors]`, a filtered comprehension, items() ...
    from sa.guards import reaching_def, canon_fact

    class _Und(Exception):
        pass

    def _elements(coll, at, depth=0):
        """terms for the elements of collection expression `coll` evaluated at `at`"""
        if depth > 6:
            raise _Und("collection nesting")
        t = norm(coll)
        if t in ("self.command_parsers.values()", "list(self.command_parsers.values())"):
            return [("all", frozenset())]
        if isinstance(coll, ast.Name):
            r = reaching_def(coll.id, at, calls=True, containers=True)
            if r is None:
                raise _Und(f"collection {coll.id}")
            return _elements(r[0], r[1], depth + 1)
        if isinstance(coll, (ast.List, ast.Tuple, ast.Set)):
            out = []
            for x in coll.elts:
                if isinstance(x, ast.Starred):
                    out += _elements(x.value, at, depth + 1)
                else:
                    out += _single(x, at, depth + 1)
            return out
        if isinstance(coll, (ast.ListComp, ast.SetComp, ast.GeneratorExp)) and len(coll.generators) == 1 and isinstance(coll.generators[0].target, ast.Name) \
                and is_name(coll.elt, coll.generators[0].target.id):
            g = coll.generators[0]
            base = _elements(g.iter, at, depth + 1)
            conds = set()
            for i_ in g.ifs:
                from sa.guards import split as _split
                for e, pol in _split(i_, True):
                    conds.add(_cond(e, pol, g.target.id))
            return [(k[0], (k[1] | frozenset(conds))) if k[0] == "all" else k for k in base] if not conds or all(k[0] == "all" for k in base) else _raise(_Und("filter over a mixed collection"))
        if isinstance(coll, ast.BinOp) and isinstance(coll.op, ast.Add):
            return _elements(coll.left, at, depth + 1) + _elements(coll.right, at, depth + 1)
        if isinstance(coll, ast.Call) and isinstance(coll.func, ast.Attribute) and is_name(coll.func.value, "self") and not coll.keywords:
            # a private method whose body is one `return <collection>`: read the collection with the arguments put in
            cls_ = enclosing(init_multi_o, (ast.ClassDef,))
            h = next((m_ for m_ in cls_.body if isinstance(m_, FUNC) and m_.name == coll.func.attr), None) if cls_ is not None else None
            body = [b_ for b_ in (h.body if h is not None else []) if not (isinstance(b_, ast.Expr) and isinstance(b_.value, ast.Constant))]
            if h is not None and len(body) == 1 and isinstance(body[0], ast.Return) and body[0].value is not None:
                ps_ = [a_.arg for a_ in h.args.args][1:]
                if len(ps_) == len(coll.args) and all(isinstance(a_, ast.Name) for a_ in coll.args):
                    from sa.core import clone as _cl
                    expr = _cl(body[0].value)
                    ren = dict(zip(ps_, [a_.id for a_ in coll.args]))
                    inner_targets = {x_.id for c_ in ast.walk(expr) if isinstance(c_, ast.comprehension) for x_ in ast.walk(c_.target) if isinstance(x_, ast.Name)}
                    if not (set(ren.values()) & inner_targets):
                        for x_ in ast.walk(expr):
                            if isinstance(x_, ast.Name) and x_.id in ren:
                                x_.id = ren[x_.id]
                        return _elements(expr, at, depth + 1)
        raise _Und(f"collection `{t[:50]}`")

    def _raise(e):
        raise e

    def _cond(e, pol, var):
        import re as _re
        cf = canon_fact(e, pol)
        return tuple(_re.sub(rf"\b{_re.escape(var)}\b", "<e>", x) if isinstance(x, str) else x for x in cf)

    def _single(x, at, depth=0):
        """terms for one parser-valued expression"""
        if depth > 6:
            raise _Und("alias nesting")
        if norm(x) == f"self.command_parsers[{pvar}]":
            return [("parent",)]
        if isinstance(x, ast.Name):
            # a loop variable?
            for l in enclosing_loops(at):
                tg = l.target
                if isinstance(tg, ast.Tuple) and len(tg.elts) == 2 and is_name(tg.elts[1], x.id) and norm(l.iter) == "self.command_parsers.items()":
                    base = [("all", frozenset())]
                elif is_name(tg, x.id):
                    base = _elements(l.iter, l)
                else:
                    continue
                own_exits = [n_ for n_ in ast.walk(l) if isinstance(n_, (ast.Break, ast.Return)) and enclosing_loops(n_) and enclosing_loops(n_)[0] is l] + \
                            [n_ for n_ in ast.walk(l) if isinstance(n_, ast.Return)]
                if own_exits:
                    skipped.append((l, own_exits[0]))
                conds = {_cond(e, pol, x.id) for e, pol in facts(at, stop=l) if x.id in {n_.id for n_ in ast.walk(e) if isinstance(n_, ast.Name)}}
                if conds and not all(k[0] == "all" for k in base):
                    # conditions on a mixed collection: keep them only if they are the freshness guard (harmless for "parent")
                    if conds - {("in", name_var, f"<e>.{container}", False)}:
                        raise _Und("conditions on a mixed receiver collection")
                    return base
                return [(k[0], k[1] | frozenset(conds)) if k[0] == "all" else k for k in base]
            r = reaching_def(x.id, at, calls=True)
            if r is None:
                raise _Und(f"receiver {x.id}")
            return _single(r[0], r[1], depth + 1)
        raise _Und(f"receiver `{norm(x)[:50]}`")
    reg_calls = [c for c in ast.walk(ploop) if isinstance(c, ast.Call) and call_name(c) == ins.name] if not set_level else []
    terms = []
    skipped = []
    try:
        for c in reg_calls:
            cx.need(isinstance(c.func, ast.Attribute), "R19a", c, "register_dependent must be called on a parser")
            ts = _single(c.func.value, c)
            # conditions of the call site itself that do not mention the receiver variable (e.g. on the parent) are not modelled
            terms.append((c, ts))
    except _Und as e:
        raise AnalysisError("R19a", f"{REL}::_init_multicmd_parser", f"receivers of register_dependent not resolved ({e})")
    for l_, ex_ in skipped:
        cx.ob("R19a", ex_, False, f"the scan over the registered parsers is left early (`{norm(ex_)}`): ancestors behind that point never receive the new parser "
              "(a command reaching an ancestor through several parents, or parents declared in another order)", stmt="receiver scan exit")
    dep_cond = ("in", pvar, f"<e>.{container}", True)
    fresh = ("in", name_var, f"<e>.{container}", False)
    all_terms = [t for _, ts in terms for t in ts]
    has_parent = ("parent",) in all_terms
    if not set_level:
      cx.ob("R19a", ploop, has_parent, "the new parser is registered in each declared parent" if has_parent else "the new parser is not registered in its declared parents", stmt="direct registration")
    anc = [t for t in all_terms if t[0] == "all" and dep_cond in t[1]]
    if not set_level:
      cx.ob("R19a", ploop, bool(anc), "the new parser is also registered in all ancestors (parsers that already have the parent as dependent)" if anc else
          "no registration in the ancestors of a parent: options of a grand-parent are not inherited", stmt="transitive registration")
    for c, ts in terms:
        ok_args = [norm(a) for a in c.args] == [name_var, new_var]
        cx.ob("R19a", c, ok_args, f"registers ({name_var}, {new_var})" if ok_args else f"registration is {norm(c.func.value)}.register_dependent({', '.join(norm(a) for a in c.args)})", stmt=norm(c) + " [arguments]")
        for t in ts:
            if t[0] != "all":
                continue
            extra = t[1] - {dep_cond, fresh}
            if dep_cond not in t[1]:
                cx.ob("R19a", c, False, f"registers the new parser in every earlier parser with {sorted(map(str, t[1])) or 'no condition'}: not `{pvar} in parser.{container}` "
                      f"(commands that do not name the parent's ancestors inherit / ancestors are missed)", stmt=norm(c) + " [receivers]")
            elif extra:
                raise AnalysisError("R19a", f"{REL}::_init_multicmd_parser", f"additional conditions on the ancestors: {sorted(map(str, extra))}")
            else:
                cx.ob("R19a", c, True, f"every earlier parser that has {pvar} as dependent gets ({name_var}, {new_var})", stmt=norm(c) + " [receivers]")
    # the new parser enters the registry after the parents loop (so it is never its own ancestor) and unconditionally
    rs = enclosing_stmt(reg_store[0])
    ok = parent(rs) is cmd_loop and cmd_loop.body.index(rs) > max(i for i, s in enumerate(cmd_loop.body) if ploop in list(ast.walk(s)))
    cx.ob("R19a", rs, ok, "the new parser is entered into the registry after its registration in all ancestors, for every command" if ok else
          "registry update is conditional or precedes the ancestor registration")
    # parents: all declared parents are iterated (set/list built from the split, no filtering besides empties)
    # Found by its source: the one iteration over `<text>.split(',')` in the (expanded) function - a comprehension or a loop
    # that adds to a set.  The only filter allowed is "the stripped piece is not empty".
    def _is_split(e):
        return isinstance(e, ast.Call) and call_name(e) == "split" and len(e.args) >= 1 and const(e.args[0], str) and e.args[0].value == ","
    gens = [(g, c_) for c_ in walk_local(init_multi) if isinstance(c_, (ast.SetComp, ast.ListComp, ast.GeneratorExp)) for g in c_.generators if _is_split(g.iter)]
    loops_ = [l for l in walk_local(init_multi) if isinstance(l, ast.For) and _is_split(l.iter)]
    cx.need(len(gens) + len(loops_) == 1, "R19a", init_multi, f"one iteration over the comma-separated parents expected ({len(gens)} comprehension(s), {len(loops_)} loop(s))")

    def _piece_truth(e, piece):
        """is `e` a truthiness test of the (stripped) piece?"""
        if isinstance(e, ast.NamedExpr):
            e = e.value
        t = norm(e)
        return t in (piece, f"{piece}.strip()") or t in strip_names
    strip_names = set()
    if gens:
        g, comp_ = gens[0]
        piece = norm(g.target)
        for n_ in ast.walk(comp_):
            if isinstance(n_, ast.NamedExpr) and norm(n_.value) == f"{piece}.strip()":
                strip_names.add(n_.target.id)
        filt = list(g.ifs)
        elt_ok = norm(comp_.elt) in strip_names | {piece, f"{piece}.strip()"}
        other = [f for f in filt if not _piece_truth(f, piece)]
        site = comp_
    else:
        l = loops_[0]
        piece = norm(l.target)
        for st_ in ast.walk(l):
            if isinstance(st_, ast.Assign) and len(st_.targets) == 1 and isinstance(st_.targets[0], ast.Name) and norm(st_.value) == f"{piece}.strip()":
                strip_names.add(st_.targets[0].id)
        adds = [c_ for c_ in ast.walk(l) if isinstance(c_, ast.Call) and call_name(c_) in ("add", "append") and len(c_.args) == 1]
        cx.need(len(adds) == 1, "R19a", l, "one add of the parent name per piece expected")
        elt_ok = norm(adds[0].args[0]) in strip_names | {piece, f"{piece}.strip()"}
        other = [e for e, pol in facts(adds[0], stop=l) if not (_piece_truth(e, piece) and pol)]
        # an early `continue` on an empty piece is the same filter spelled as a guard (its condition is among the facts at the add)
        def _empty_guard(x):
            g_ = parent(x)
            if not (isinstance(x, ast.Continue) and isinstance(g_, ast.If) and parent(g_) is l and g_.body == [x] and not g_.orelse):
                return False
            sp = split(g_.test, False)
            return bool(sp) and all(_piece_truth(e, piece) and pol for e, pol in sp)
        if any(isinstance(x, (ast.Break, ast.Continue, ast.Return)) and not _empty_guard(x) for x in ast.walk(l)):
            other.append(ast.Constant(value="loop exit"))
        site = l
    ok = elt_ok and not other
    if not ok and other and all(isinstance(o, ast.AST) and not isinstance(o, ast.Constant) for o in other) and elt_ok and len(other) == 1 and not any(
            isinstance(x, (ast.Compare,)) for x in ast.walk(other[0])):
        raise AnalysisError("R19a", f"{REL}::_init_multicmd_parser", f"filter on the parents `{norm(other[0])}` not recognised")
    cx.ob("R19a", site, ok, "every comma-separated parent name is used" if ok else "the set of parents is not the full comma-separated list", stmt="parents set")

    # ---------------------------------------------------------------- R19d
    lookups = [n for n in ast.walk(cmd_loop) if isinstance(n, ast.Subscript) and isinstance(n.ctx, ast.Load) and is_self_attr(n.value, "command_parsers")]
    if not lookups:
        # no look-up by name at all (the registration works on the registry's own entries): what is left of the rule is that
        # every declared parent is asserted to be registered, before the registration pass
        from sa.guards import canon_test as _ct
        al_any = [n for n in cmd_loop.body if isinstance(n, ast.For) and isinstance(n.target, ast.Name)
                  and any(isinstance(a, ast.Assert) and _ct(a.test) == {("in", n.target.id, "self.command_parsers", True)} for a in n.body)
                  and cmd_loop.body.index(n) < cmd_loop.body.index(next(s_ for s_ in cmd_loop.body if ploop in list(ast.walk(s_))))]
        cx.ob("R19d", al_any[0] if al_any else cmd_loop, bool(al_any), "every declared parent is asserted to be a registered command before the registration pass" if al_any else
              "an unknown parent name is not diagnosed (it is silently ignored by the registration pass)", stmt="unknown parent")
    aloops = [n for n in cmd_loop.body if isinstance(n, ast.For) and norm(n.iter) == parents_var and any(isinstance(a, ast.Assert) for a in n.body)]
    asserted = False
    for al in aloops:
        for a in al.body:
            if isinstance(a, ast.Assert) and isinstance(a.test, ast.Compare) and isinstance(a.test.ops[0], ast.In) and norm(a.test.left) == norm(al.target) \
                    and norm(a.test.comparators[0]) == "self.command_parsers":
                asserted = cmd_loop.body.index(al) < cmd_loop.body.index(next(s for s in cmd_loop.body if ploop in list(ast.walk(s))))
    for lk in lookups:
        local = any(isinstance(e, ast.Compare) and isinstance(e.ops[0], ast.In) and pol and norm(e.left) == norm(lk.slice) and norm(e.comparators[0]) == "self.command_parsers" for e, pol in facts(lk))
        cx.ob("R19d", lk, asserted or local, "parent lookup is dominated by the 'declared earlier' assertion over all parents" if asserted or local else
              "parent lookup is not preceded by the membership assertion (KeyError instead of the diagnostic)")
    dup = [a for a in cmd_loop.body if isinstance(a, ast.Assert) and isinstance(a.test, ast.Compare) and isinstance(a.test.ops[0], ast.NotIn) and norm(a.test.left) == name_var
           and norm(a.test.comparators[0]) == "self.command_parsers"]
    cx.ob("R19d", dup[0] if dup else cmd_loop, bool(dup), "double declaration of a command is rejected" if dup else "double declaration of a command is not rejected", stmt="duplicate command")

    # ---------------------------------------------------------------- R19c
    creates = [c for c in ast.walk(cmd_loop) if isinstance(c, ast.Call) and (call_name(c) in ("AkArgumentParser", "add_parser"))]
    cx.at_least("R19c", "parser creation sites", len(creates), 2)
    for c in creates:
        kw = {k.arg: k.value for k in c.keywords if k.arg is not None}
        # **opts with opts a dict literal bound once in the function (shared keyword arguments of the two creation sites)
        for k in c.keywords:
            if k.arg is None and isinstance(k.value, ast.Name):
                ds_ = [v for _s, v in assignments(init_multi, k.value.id)]
                stored_ = [n_ for n_ in ast.walk(init_multi) if isinstance(n_, ast.Subscript) and isinstance(n_.ctx, (ast.Store, ast.Del)) and is_name(n_.value, k.value.id)]
                mutated_ = [n_ for n_ in ast.walk(init_multi) if isinstance(n_, ast.Call) and isinstance(n_.func, ast.Attribute) and is_name(n_.func.value, k.value.id)
                            and n_.func.attr in ("pop", "update", "clear", "setdefault", "popitem")]
                if len(ds_) == 1 and isinstance(ds_[0], ast.Dict) and not stored_ and not mutated_ and all(isinstance(x, ast.Constant) for x in ds_[0].keys):
                    for kk, vv in zip(ds_[0].keys, ds_[0].values):
                        kw.setdefault(kk.value, vv)
                else:
                    raise AnalysisError("R19c", f"{REL}::_init_multicmd_parser", f"keyword arguments `**{k.value.id}` of a parser creation site not resolved")
        p = kw.get("parents")
        ok = isinstance(p, ast.List) and any(norm(e) == "self.common_options" for e in p.elts)
        cx.ob("R19c", c, ok, "created with parents=[self.common_options]" if ok else "command parser is created without the common options parent")
    is_ak = [c for c in creates if call_name(c) == "add_parser"]
    sub = [c for c in walk_local(init_multi) if isinstance(c, ast.Call) and call_name(c) == "add_subparsers"]
    ok = len(sub) == 1 and any(k.arg == "parser_class" and is_name(k.value, "AkArgumentParser") for k in sub[0].keywords)
    cx.ob("R19c", sub[0] if sub else init_multi, ok, "sub-command parsers are AkArgumentParser (propagating) objects" if ok else "sub-command parsers are not created as AkArgumentParser")
    std = [c for c in init_multi.body if isinstance(c, ast.Expr) and isinstance(c.value, ast.Call) and call_name(c.value) == "_mk_std_args"]
    ok = len(std) == 1 and norm(std[0].value.args[0]) == "self.common_options" and init_multi.body.index(std[0]) < init_multi.body.index(cmd_loop)
    cx.ob("R19c", std[0] if std else init_multi, ok, "standard options are installed on the common parent before any command parser is created" if ok else
          "standard options are not installed on self.common_options before the command loop")
    mk = cx.func(REL, "ArgParser._mk_std_args", "R19c")
    opts = {a.value for c in walk_local(mk) if isinstance(c, ast.Call) and call_name(c) == "add_argument" for a in c.args if const(a, str)}
    ok = {"--color", "--no-color", "-v", "--verbose"} <= opts
    cx.ob("R19c", mk, ok, "standard options: -v/--verbose, --color, --no-color" if ok else f"standard options found: {sorted(opts)}")
    vb = [c for c in walk_local(mk) if isinstance(c, ast.Call) and call_name(c) == "add_argument" and any(const(a, str) and a.value == "-v" for a in c.args)]
    if vb:
        g = any(norm(e) == "self._no_log" and not pol for e, pol in facts(vb[0]))
        cx.ob("R19c", vb[0], g, "verbosity option is present unless _no_log" if g else "verbosity option guard altered", stmt="-v guard")

    # ---------------------------------------------------------------- R19b
    g = CFG(ak_add)
    supers = [n for n in g.stmts() if n.kind == "stmt" and isinstance(n.ast, (ast.Expr, ast.Return)) and any(
        isinstance(c, ast.Call) and isinstance(c.func, ast.Attribute) and c.func.attr == "add_argument" and norm(c.func.value) == "super()" for c in ast.walk(n.ast))]
    cx.need(supers, "R19b", ak_add, "super().add_argument call not found")
    path = g.reach_avoiding(g.entry, {g.exit.id}, {n.id for n in supers}, follow_raise=False)
    cx.ob("R19b", ak_add, path is None, "every path through add_argument reaches argparse's add_argument" if path is None else
          f"a path returns without registering the option in argparse (lines {[getattr(p.ast, 'lineno', p.kind) for p in path]})", stmt="must reach super().add_argument")
    sc = [c for n in supers for c in ast.walk(n.ast) if isinstance(c, ast.Call) and call_name(c) == "add_argument"][0]
    ok = any(isinstance(a, ast.Starred) and is_name(a.value, "args") for a in sc.args) and any(k.arg is None and is_name(k.value, "kwargs") for k in sc.keywords)
    cx.ob("R19b", sc, ok, "argparse receives the caller's *args/**kwargs" if ok else "argparse does not receive the caller's arguments unchanged")
    pops = [c for c in walk_local(ak_add) if isinstance(c, ast.Call) and call_name(c) == "pop" and is_name(c.func.value, "kwargs") and c.args and const(c.args[0], str) and c.args[0].value == "_propagate"]
    ok = len(pops) == 1 and len(pops[0].args) == 2 and const(pops[0].args[1], bool) and pops[0].args[1].value is True
    cx.ob("R19b", pops[0] if pops else ak_add, ok, "_propagate defaults to True and is removed from kwargs" if ok else "_propagate is not popped with default True")
    floops = [l for l in walk_local(ak_add) if isinstance(l, ast.For)]
    ok = False
    if len(floops) == 1:
        l = floops[0]
        over = norm(l.iter) in (f"self.{container}.values()",)
        calls = [c for c in ast.walk(l) if isinstance(c, ast.Call) and call_name(c) == "add_argument"]
        fwd = len(calls) == 1 and norm(calls[0].func.value) == norm(l.target) and any(isinstance(a, ast.Starred) and is_name(a.value, "args") for a in calls[0].args) and \
            any(k.arg == "_propagate" and const(k.value, bool) and k.value.value is False for k in calls[0].keywords) and any(k.arg is None and is_name(k.value, "kwargs") for k in calls[0].keywords)
        # the guard of the loop: every must-fact has to be a test of the popped value that is true for True and false for False
        def pop_value(e):
            if pops and e is pops[0]:
                return True
            if isinstance(e, ast.Name):
                d = assignments(ak_add, e.id)
                return len(d) == 1 and pops and d[0][1] is pops[0]
            return False

        def polarity(e, pol):
            """+1: holds exactly when _propagate is true; -1: exactly when false; None: not a recognised test of the popped value"""
            if pop_value(e):
                return 1 if pol else -1
            if isinstance(e, ast.Compare) and len(e.ops) == 1 and pop_value(e.left) and const(e.comparators[0], bool):
                v, op = e.comparators[0].value, e.ops[0]
                if isinstance(op, (ast.Is, ast.Eq)):
                    r = 1 if v else -1
                elif isinstance(op, (ast.IsNot, ast.NotEq)):
                    r = -1 if v else 1
                else:
                    return None
                return r if pol else -r
            return None
        pols = [polarity(e, pol) for e, pol in facts(l)]
        cx.need(over and fwd and pols and all(p is not None for p in pols) or not (over and fwd) or not pols, "R19b", l,
                f"the guard of the forwarding loop is not a recognised test of the popped _propagate value: {[norm(e) for e, _ in facts(l)]}")
        guarded = bool(pols) and all(p == 1 for p in pols)
        ok = over and fwd and guarded
    cx.ob("R19b", floops[0] if floops else ak_add, ok, "unless _propagate is False the option is forwarded to every dependent, once, with _propagate=False" if ok else
          "forwarding to the dependents is not `for d in dependents.values(): d.add_argument(*args, _propagate=False, **kwargs)` under a test of the popped _propagate value")
    # ArgParser.add_argument
    loops = [l for l in walk_local(ap_add) if isinstance(l, ast.For)]
    ok = False
    if len(loops) == 1:
        l = loops[0]
        calls = [c for c in ast.walk(l) if isinstance(c, ast.Call) and call_name(c) == "add_argument"]
        ok = norm(l.iter) == "self.command_parsers.values()" and len(calls) == 1 and norm(calls[0].func.value) == norm(l.target) and \
            any(k.arg == "_propagate" and const(k.value, bool) and k.value.value is False for k in calls[0].keywords) and \
            any(isinstance(a, ast.Starred) for a in calls[0].args) and any(k.arg is None for k in calls[0].keywords) and \
            any(norm(e) == "self.command_parsers" and isinstance(e, ast.Attribute) for e, pol in [(x.left, p) for x, p in facts(l) if isinstance(x, ast.Compare)])
    cx.ob("R19b", loops[0] if loops else ap_add, ok, "an option of the ArgParser itself goes to every command parser exactly once" if ok else
          "ArgParser.add_argument does not forward to every command parser with _propagate=False")
    single = [c for c in walk_local(ap_add) if isinstance(c, ast.Call) and call_name(c) == "add_argument" and norm(c.func.value) == "self.parser"]
    ok = len(single) == 1 and any(isinstance(e, ast.Compare) and isinstance(e.ops[0], ast.Is) and pol and norm(e.left) == "self.command_parsers" for e, pol in facts(single[0]))
    cx.ob("R19b", single[0] if single else ap_add, ok, "single-command parser: straight to argparse" if ok else "single-command branch altered")

    # ---------------------------------------------------------------- R19e
    cx.guard(_default_command_rule, cx, repo, parse_args)
    dd = [s for s in walk_local(init_multi) if isinstance(s, ast.Assign) and is_name(s.targets[0], "default_command")]
    ok = len(dd) == 1 and norm(dd[0].value).endswith("[0]") and any(isinstance(e, ast.Compare) and isinstance(e.ops[0], ast.Is) and pol and norm(e.left) == "default_command" for e, pol in facts(dd[0]))
    cx.ob("R19e", dd[0] if dd else init_multi, ok, "unless given, the default command is the first public command" if ok else "default command selection altered")
    app = [c for c in ast.walk(cmd_loop) if isinstance(c, ast.Call) and call_name(c) == "append" and norm(c.func.value) == (norm(dd[0].value)[:-3] if dd else "")]
    ok = len(app) == 1 and any(norm(e) == "is_internal" and not pol for e, pol in facts(app[0]))
    cx.ob("R19e", app[0] if app else cmd_loop, ok, "only public (non-'!') commands can become the default" if ok else "internal option sets may become the default command")
    nc = [s for s in walk_local(parse_args) if isinstance(s, ast.Assign) and norm(s.targets[0]).endswith(".color")]
    ok = len(nc) == 1 and const(nc[0].value, bool) and nc[0].value.value is False and any(norm(e).endswith(".no_color") and pol for e, pol in facts(nc[0]))
    cx.ob("R19e", nc[0] if nc else parse_args, ok, "--no-color folds into color = False" if ok else "--no-color is not folded into color=False")
    dl = [s for s in walk_local(parse_args) if isinstance(s, ast.Delete) and any(norm(t).endswith(".no_color") for t in s.targets)]
    ok = len(dl) == 1 and parent(dl[0]) is parse_args
    cx.ob("R19e", dl[0] if dl else parse_args, ok, "no_color is removed from the namespace on every path" if ok else "no_color is not removed unconditionally")
