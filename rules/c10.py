"""C10 — rendering is pure: colours never change layout and output has no memory."""
import ast

from sa.core import (caching_decorators, AnalysisError, FUNC, Module, assignments, call_name, class_attr, const, dotted, enclosing, enclosing_func,
                     enclosing_stmt, is_attr, is_name, is_self_attr, literal, norm, params, parent, walk_local, names_in, ancestors)
from sa.guards import facts, enclosing_loops
from rules.c14 import cache_rules

PROP = "C10"
REL = "ak/color.py"
RENDER_MODULES = ("ak/ppobj.py", "ak/ghist.py", "ak/hdoc.py", "ak/mcaller.py", "ak/mcaller_http.py", "ak/mcaller_sql.py")
EXPLANATION = (
    "Ownership / invalidation rules for every cache between configuration and output, plus a non-interference (taint) rule "
    "for colours on layout, over ak/color.py, ak/ppobj.py, ak/ghist.py, ak/hdoc.py. R10a: no container that outlives a call "
    "is keyed by id(x) unless the entry keeps x alive (package-wide; positive control on a synthetic module every run). R10b: "
    "the configuration's palette cache is reset whenever a new id is stored, items are resolved only during registration. "
    "R10c: palette lookup / store / colour preparation split identically on no_color, use the same key, the no_color slot is "
    "created per class by the metaclass. R10d: replacing or modifying the global configuration re-syncs every synced palette. "
    "R10e: outside the Palette hierarchy and ColorsConfig no palette snapshot is stored on an instance, class or module "
    "(palettes are obtained per rendering call). R10f: every accessor of the lazy result that needs the text is dominated by "
    "the `_ch_text is None` guard computing ppobj.make_ch_text(cp); iteration delegates to gen_ch_lines(cp); nothing else writes "
    "its fields. R10g: every make_ch_text is newline.join(gen_ch_lines(cp)). R10h: every line generator (gen_ch_lines and what "
    "it delegates to) yields values that are CHText by local type facts; a yield of a definite list / chunk / str is refuted. "
    "R10i: palette objects, formatters and no_color are used in rendering modules only as receivers, callees, arguments or "
    "aliases - never in branch conditions, len(), comparisons, arithmetic or slicing; colour parts are not read outside color.py."
)

PAL_NAMES = {"cp", "_c", "field_palette", "record_palette", "table_palette", "title_palette", "palette", "_local_palette", "colors_conf", "no_color"}

POSITIVE_CONTROL = '''
class Renderer:
    def __init__(self):
        self._cache = {}
    def render(self, palette, v):
        key = id(palette)
        if key not in self._cache:
            self._cache[key] = palette.text(v)
        return self._cache[key]
class Other:
    CACHE = {}
    def f(self, p):
        return Other.CACHE.setdefault(id(p), 1)
'''


# -------------------------------------------------------------------------------------------- R10a
def id_keyed_sites(tree):
    """Sites where id(x) (directly or through a local) keys a container that outlives the call."""
    out = []
    for f in [n for n in ast.walk(tree) if isinstance(n, FUNC)]:
        id_locals = {}
        for n in walk_local(f):
            if isinstance(n, ast.Assign):
                idc = None
                if isinstance(n.value, ast.Call) and is_name(n.value.func, "id") and len(n.value.args) == 1:
                    idc = n.value
                elif isinstance(n.value, ast.Tuple):
                    idc = next((x for x in n.value.elts if isinstance(x, ast.Call) and is_name(x.func, "id") and len(x.args) == 1), None)
                if idc is not None:
                    for t in n.targets:
                        if isinstance(t, ast.Name):
                            id_locals[t.id] = idc

        def is_id_expr(e):
            if isinstance(e, ast.Call) and is_name(e.func, "id") and len(e.args) == 1:
                return e
            if isinstance(e, ast.Name) and e.id in id_locals:
                return id_locals[e.id]
            if isinstance(e, ast.Tuple):
                for x in e.elts:
                    r = is_id_expr(x)
                    if r is not None:
                        return r
            return None

        def long_lived(e):
            # container expression rooted at self./cls./ClassName./module global, or a local aliasing one
            root = e
            while isinstance(root, (ast.Attribute, ast.Subscript)):
                root = root.value
            if isinstance(root, ast.Name):
                if root.id in ("self", "cls"):
                    return isinstance(e, (ast.Attribute, ast.Subscript))
                if root.id[:1].isupper() and isinstance(e, ast.Attribute):
                    return True
                defs = [v for _, v in assignments(f, root.id) if v is not None]
                if defs and all(long_lived(d) for d in defs if isinstance(d, (ast.Attribute, ast.Subscript))) and any(isinstance(d, (ast.Attribute, ast.Subscript)) for d in defs):
                    return True
                if not defs and root.id not in params(f) and root.id.isupper():
                    return True
            return False
        for n in walk_local(f):
            key = cont = None
            if isinstance(n, ast.Subscript):
                key, cont = is_id_expr(n.slice), n.value
            elif isinstance(n, ast.Call) and isinstance(n.func, ast.Attribute) and n.func.attr in ("get", "setdefault", "pop", "__contains__") and n.args:
                key, cont = is_id_expr(n.args[0]), n.func.value
            elif isinstance(n, ast.Compare) and len(n.ops) == 1 and isinstance(n.ops[0], (ast.In, ast.NotIn)):
                key, cont = is_id_expr(n.left), n.comparators[0]
            if key is not None and cont is not None and long_lived(cont):
                out.append((n, key, cont, f))
    return out


def _keeps_alive(site, key_call, func):
    """The stored entry holds a strong reference to the object whose id is the key."""
    obj = norm(key_call.args[0])
    for n in walk_local(func):
        if isinstance(n, ast.Assign) and any(isinstance(t, ast.Subscript) for t in n.targets):
            if any(isinstance(x, ast.Name) and norm(x) == obj for x in ast.walk(n.value)) and not (isinstance(n.value, ast.Call) and is_name(n.value.func, "id")):
                # value mentions the object itself (e.g. (obj, data))
                if isinstance(n.value, (ast.Tuple, ast.List)) and any(norm(e) == obj for e in n.value.elts):
                    return True
    return False


def run(cx):
    repo = cx.repo
    for r, t in (("R10a", "no identity-keyed long-lived cache without ownership of the keyed object"),
                 ("R10b", "configuration cache is reset whenever the id set grows"),
                 ("R10c", "palette lookup and store agree (no_color split, key, per-class slot)"),
                 ("R10d", "synced palettes follow the global configuration"),
                 ("R10e", "a palette snapshot is not kept by a rendering object"),
                 ("R10f", "lazy result: guarded computation, iteration delegates, fields written only by the constructor"),
                 ("R10g", "whole text = newline-join of the generated lines"),
                 ("R10h", "line generators yield CHText objects"),
                 ("R10i", "colours do not influence layout (non-interference)"),
                 ("R10j", "cached cell texts are never mutated in place by their consumers"),
                 ("R10k", "a yielded line does not share its chunk list with a buffer the generator keeps changing"),
                 ("R10l", "entries of a keyed cache (per palette / per configuration) do not share mutable parts")):
        cx.rule(r, t)

    # ---------------- R10a
    pc = ast.parse(POSITIVE_CONTROL)
    for n in ast.walk(pc):
        for c in ast.iter_child_nodes(n):
            c._parent = n
    ctl = id_keyed_sites(pc)
    cx.need(len(ctl) >= 3, "R10a", "positive-control", f"the id()-key matcher found {len(ctl)} sites in the synthetic control (>= 3 expected)")
    cx.count("R10a:positive control sites", len(ctl))
    n_funcs = 0
    found = []
    for m in repo.modules.values():
        found.extend(id_keyed_sites(m.tree))
        n_funcs += sum(1 for n in ast.walk(m.tree) if isinstance(n, FUNC))
    cx.count("R10a:functions scanned", n_funcs)
    by_func = {}
    for site, key, cont, f in found:
        by_func.setdefault(id(f), (f, []))[1].append((site, key, cont))
    for f, sites in by_func.values():
        site, key, cont = sites[0]
        ok = _keeps_alive(site, key, f)
        cx.ob("R10a", key, ok, f"id({norm(key.args[0])}) keys {norm(cont)} and the entry keeps the object alive" if ok else
              f"id({norm(key.args[0])}) keys the long-lived container {norm(cont)} without keeping the object alive: after the object is discarded a new one at the same address reads the stale entry")
    n_memo = 0
    for m in repo.modules.values():
        for f in [n for n in ast.walk(m.tree) if isinstance(n, FUNC)]:
            for d in caching_decorators(f):
                n_memo += 1
                takes_pal = bool(set(params(f)) & PAL_NAMES) or m.rel in RENDER_MODULES or m.rel == REL
                cx.ob("R10a", f, not takes_pal, f"`@{norm(d)}` on a function outside the rendering / colour modules" if not takes_pal else
                      f"`@{norm(d)}` memoises a rendering / colour function: its output now depends on earlier calls (stale palettes, equal-comparing arguments)", stmt=f"def {f.name}(...) [decorators]")
    cx.count("R10a:memoising decorators", n_memo)
    cx.ob("R10a", "ak/*, bin/*", True, f"{n_funcs} functions scanned, {len(found)} id()-keyed long-lived container accesses", construct="package", stmt="scan")

    # ---------------- R10b / R10d (shared with C14)
    add = cx.func(REL, "ColorsConfig.add_new_items", "R10b")
    cache_rules(cx, repo, add, "R10b", "R10d")

    # ---------------- R10c
    cx.guard(_r10c, cx, repo)
    # ---------------- R10e
    cx.guard(_r10e, cx, repo)
    # ---------------- R10f
    cx.guard(_r10f, cx, repo)
    # ---------------- R10g
    cx.guard(_r10g, cx, repo)
    # ---------------- R10h
    cx.guard(_r10h, cx, repo)
    # ---------------- R10i
    cx.guard(_r10i, cx, repo)
    # ---------------- R10j
    cx.guard(_r10j, cx, repo)
    cx.guard(_r10j_purity, cx, repo)
    cx.guard(cache_fill_purity, cx, "R10j", repo)
    # ---------------- R10k
    from rules.c08 import make_ownership
    cx.guard(make_ownership, cx, repo, "R10k")
    # ---------------- R10l
    cx.guard(_r10l, cx, repo)
    cx.rule("R10m", "a generator of output keeps no per-rendering scratch on an object that outlives the call")
    cx.guard(_r10m, cx, repo)
    cx.rule("R10n", "nothing made with a palette received as a parameter is kept in state that outlives the call")
    cx.guard(_r10n, cx, repo)


# -------------------------------------------------------------------------------------------- R10c
def _r10c(cx, repo):
    get_ex = cx.func(REL, "Palette._get_existing_palette", "R10c")
    prep = cx.func(REL, "Palette._prepare_local_colors", "R10c")
    store = cx.func(REL, "Palette._store_palette_in_cache", "R10c")
    meta_call = cx.func(REL, "_PaletteMeta.__call__", "R10c")
    meta_new = cx.func(REL, "_PaletteMeta.__new__", "R10c")
    for f in (get_ex, prep, store):
        top = [s for s in f.body if isinstance(s, ast.If)]
        ok = len(top) == 1 and is_name(top[0].test, "no_color") and top[0].orelse
        cx.ob("R10c", f, ok, f"{f.name} splits on no_color" if ok else f"{f.name} does not split on `if no_color: ... else: ...`", stmt=f"{f.name} split")
    # lookup
    rets = sorted([r for r in walk_local(get_ex) if isinstance(r, ast.Return)], key=lambda r: r.lineno)
    ok = len(rets) == 2 and norm(rets[0].value) == "cls._PALETTE_NO_COLOR" and norm(rets[1].value) == "colors_conf.get_cached_obj(cls)"
    cx.ob("R10c", get_ex, ok, "lookup: per-class slot under no_color, configuration cache keyed by the class otherwise" if ok else "lookup locations altered", stmt="lookup")
    # store
    st = sorted([s for s in walk_local(store) if isinstance(s, (ast.Assign, ast.Expr))], key=lambda r: r.lineno)
    ok = len(st) == 2 and isinstance(st[0], ast.Assign) and norm(st[0].targets[0]) == "cls._PALETTE_NO_COLOR" and norm(st[0].value) == "palette" and \
        isinstance(st[1], ast.Expr) and norm(st[1].value) == "colors_conf.put_into_cache(cls, palette)"
    cx.ob("R10c", store, ok, "store: the same two locations, same key (the class)" if ok else "store locations / key do not mirror the lookup", stmt="store")
    # no_color colours never read the configuration
    nb = prep.body[0].body if prep.body and isinstance(prep.body[0], ast.If) else []
    reads_conf = any(isinstance(n, ast.Name) and n.id == "colors_conf" for s in nb for n in ast.walk(s))
    uses_plain = any("_NO_EFFECTS_FMT" in norm(s) for s in nb)
    cx.ob("R10c", prep, (not reads_conf) and uses_plain, "no_color palettes take the effect-free formatter and never read the configuration's colours" if (not reads_conf) and uses_plain else
          "no_color branch of _prepare_local_colors reads the configuration / does not use the effect-free formatter", stmt="no_color colours")
    eb = prep.body[0].orelse if prep.body and isinstance(prep.body[0], ast.If) else []
    ok = any("colors_conf.get_color(synt_id)" in norm(s) for s in eb) and any("register_in_colors_conf(colors_conf)" in norm(s) for s in eb)
    if ok:
        reg = next(s for s in eb if "register_in_colors_conf" in norm(s))
        use = next(s for s in eb if "get_color" in norm(s))
        ok = reg.lineno < use.lineno
    cx.ob("R10c", prep, ok, "coloured palettes register their defaults first and then read the configuration's colours" if ok else "registration does not precede reading the colours", stmt="coloured colours")
    # per-class slot
    ok = any(isinstance(s, ast.Assign) and isinstance(s.targets[0], ast.Subscript) and const(s.targets[0].slice, str) and s.targets[0].slice.value == "_PALETTE_NO_COLOR"
             and const(s.value) and s.value.value is None and parent(s) is meta_new for s in walk_local(meta_new))
    cx.ob("R10c", meta_new, ok, "every palette class gets its own empty no_color slot from the metaclass" if ok else "the no_color slot is not created per class (would be inherited/shared)", stmt="per-class slot")
    # __call__: lookup before construction, store after; synced registry
    body = meta_call.body
    def idx(pred):
        return next((i for i, s in enumerate(body) if pred(s)), None)
    i_lookup = idx(lambda s: "_get_existing_palette" in norm(s))
    i_prep = idx(lambda s: "_prepare_local_colors" in norm(s))
    i_store = idx(lambda s: "_store_palette_in_cache" in norm(s))
    ok = None not in (i_lookup, i_prep, i_store) and i_lookup < i_prep < i_store
    if not ok:
        # the same on the flow graph (helpers expanded), for any arrangement: a palette is stored only after its colours were
        # prepared, and colours are prepared only after the cache was consulted - unless the request is for a synced palette
        from sa.inline import inlined as _inl
        from sa.cfg import CFG
        from sa.guards import canon_facts as _cfs
        mc, _u = _inl(repo.modules[REL], meta_call, nested=True)
        g_ = CFG(mc)

        def _nodes(name):
            return [g_.node_of(enclosing_stmt(c)) for c in walk_local(mc) if isinstance(c, ast.Call) and call_name(c) == name and g_.node_of(enclosing_stmt(c)) is not None]
        Ls, Ps, Ss = _nodes("_get_existing_palette"), _nodes("_prepare_local_colors"), _nodes("_store_palette_in_cache")
        cx.need(Ls and Ps and Ss, "R10c", meta_call, "lookup / prepare / store calls of the palette construction")
        ok = all(g_.reach_avoiding(g_.entry, {s_.id}, {p_.id for p_ in Ps}, follow_raise=False) is None for s_ in Ss)
        for p_ in Ps:
            unlooked = g_.reach_avoiding(g_.entry, {p_.id}, {l_.id for l_ in Ls}, follow_raise=False) is not None
            if unlooked and ("expr", "synced", "", True) not in _cfs(p_.ast):
                ok = False
        cx.ob("R10c", meta_call, ok, "construction: the cache is consulted (non-synced requests), colours are prepared, then the palette is stored - on every path" if ok else
              "palette construction interception order altered: a palette can be stored before its colours are prepared, or built without consulting the cache", stmt="interception order", semantic=True)
        i_lookup = i_store = None       # the positional sub-rules below describe the reference layout only
    else:
      cx.ob("R10c", meta_call, ok, "construction: lookup, prepare colours, construct, store" if ok else "palette construction interception order altered", stmt="interception order")
    if i_lookup is not None:
        s = body[i_lookup]
        ok = isinstance(s, ast.If) and norm(s.test) == "not synced"
        cx.ob("R10c", s, ok, "cached palettes are reused only for non-synced requests" if ok else "cache lookup guard altered")
        c = [x for x in ast.walk(s) if isinstance(x, ast.Call) and call_name(x) == "_get_existing_palette"]
        ok = bool(c) and [norm(a) for a in c[0].args] == ["colors_conf", "no_color"]
        cx.ob("R10c", c[0] if c else s, ok, "lookup uses the same (configuration, no_color) as the store" if ok else "lookup arguments differ from the store's")
    if i_store is not None:
        c = [x for x in ast.walk(body[i_store]) if isinstance(x, ast.Call) and call_name(x) == "_store_palette_in_cache"]
        ok = bool(c) and [norm(a) for a in c[0].args] == ["palette", "colors_conf", "no_color"]
        cx.ob("R10c", c[0] if c else body[i_store], ok, "store uses (palette, configuration, no_color)" if ok else "store arguments altered")
    # default configuration = the global one at call time
    g = [s for s in body if isinstance(s, ast.If) and norm(s.test) == "colors_conf is None"]
    ok = len(g) == 1 and any("get_global_colors_config()" in norm(x) for x in g[0].body) and (i_lookup is None or body.index(g[0]) < i_lookup)
    cx.ob("R10c", g[0] if g else meta_call, ok, "a missing configuration means the global one in force at the call" if ok else "default configuration is not fetched per call before the lookup")
    # ColorsConfig cache accessors
    put = cx.func(REL, "ColorsConfig.put_into_cache", "R10c")
    getc = cx.func(REL, "ColorsConfig.get_cached_obj", "R10c")
    ok = any(norm(s) == "self._cache[cache_key] = the_obj" for s in put.body) and any(norm(s) == "return self._cache.get(cache_key)" for s in getc.body)
    cx.ob("R10c", put, ok, "cache accessors read and write the same dict under the given key" if ok else "configuration cache accessors altered", stmt="cache accessors")


# -------------------------------------------------------------------------------------------- R10e
def _palette_classes(repo):
    base = repo.classes.get("Palette", [(None, None)])[0][1]
    out = set()
    if base is None:
        return out
    out.add(base.name)
    changed = True
    # nested classes with bases like FieldType.PALETTE_CLASS are resolved through the PALETTE_CLASS alias
    alias = {}
    for lst in repo.classes.values():
        for m, c in lst:
            v = class_attr(c, "PALETTE_CLASS")
            if v is not None and isinstance(v, ast.Name):
                alias[c.name] = v.id
    while changed:
        changed = False
        for lst in repo.classes.values():
            for m, c in lst:
                if c.name in out:
                    continue
                for b in c.bases:
                    bn = b.id if isinstance(b, ast.Name) else (b.attr if isinstance(b, ast.Attribute) else None)
                    if bn == "PALETTE_CLASS" and isinstance(b, ast.Attribute):
                        bn = alias.get(norm(b.value).split(".")[-1])
                    if bn in out:
                        out.add(c.name)
                        changed = True
    return out


def _r10e(cx, repo):
    pal = _palette_classes(repo)
    cx.need(len(pal) >= 8, "R10e", "Palette hierarchy", f"only {len(pal)} palette classes resolved")
    cx.count("R10e:palette classes", len(pal))

    def produces_palette(e):
        if not isinstance(e, ast.Call):
            return False
        nm = call_name(e)
        if nm in ("_mk_palette", "get_sub_palette", "get_palette"):
            return True
        if nm in pal or nm == "PALETTE_CLASS":
            return True
        return False
    n_calls = 0
    for m in repo.modules.values():
        for c in ast.walk(m.tree):
            if not produces_palette(c):
                continue
            owner = enclosing(c, (ast.ClassDef,))
            # classes of the Palette hierarchy and ColorsConfig manage their own caches (R10b-d)
            skip = False
            for a in ancestors(c):
                if isinstance(a, ast.ClassDef) and (a.name in pal or a.name in ("ColorsConfig", "_PaletteMeta")):
                    skip = True
            if skip or m.rel == "bin/colors_demo.py":
                continue
            n_calls += 1
            synced = any(k.arg == "synced" and const(k.value, bool) and k.value.value is True for k in c.keywords)
            st = enclosing_stmt(c)
            stored = None
            if isinstance(st, ast.Assign) and st.value is c:
                for t in st.targets:
                    if isinstance(t, ast.Attribute):
                        stored = norm(t)
                    elif isinstance(t, ast.Name) and enclosing_func(c) is None:
                        stored = t.id + " (module/class level)"
                    elif isinstance(t, ast.Subscript) and isinstance(t.value, ast.Attribute):
                        stored = norm(t.value) + "[...]"
            if stored and not synced:
                cx.ob("R10e", st, False, f"a palette snapshot is stored in {stored}: later renderings ignore changes of the colours configuration")
            else:
                cx.ob("R10e", c, True, "palette obtained per call" + (" (synced with the global configuration)" if synced else ""))
    cx.at_least("R10e", "palette-producing call sites outside the Palette hierarchy", n_calls, 5)


# -------------------------------------------------------------------------------------------- R10f
def _r10f(cx, repo):
    cls = cx.cls("ak/ppobj.py", "CHTextResult", "R10f")
    guard_txt = "self._ch_text is None"
    compute = "self._ch_text = self.ppobj.make_ch_text(self.cp)"
    n = 0
    methods = [s for s in cls.body if isinstance(s, FUNC)]

    def guards_of(f):
        return [s for s in f.body if isinstance(s, ast.If) and norm(s.test) == guard_txt and [norm(b) for b in s.body] == [compute] and not s.orelse]
    # methods that leave the text computed on every path: the guard is a top-level statement of their body
    ensurers = {f.name for f in methods if f.name != "__init__" and guards_of(f)}

    def top_of(node, f):
        top = enclosing_stmt(node)
        while parent(top) is not f:
            top = parent(top)
        return top

    for f in methods:
        if f.name == "__init__":
            continue
        loads = [x for x in walk_local(f) if is_self_attr(x, "_ch_text") and isinstance(x.ctx, ast.Load)]
        guards = guards_of(f)
        ens_calls = [c for c in walk_local(f) if isinstance(c, ast.Call) and isinstance(c.func, ast.Attribute) and is_name(c.func.value, "self") and c.func.attr in ensurers and c.func.attr != f.name]
        n += len(ens_calls)
        for ld in loads:
            if any(ld in list(ast.walk(g.test)) for g in guards):
                continue
            n += 1
            top = top_of(ld, f)
            ok = any(f.body.index(g) < f.body.index(top) for g in guards) or any(f.body.index(top_of(c, f)) < f.body.index(top) for c in ens_calls)
            cx.ob("R10f", ld, ok, f"{f.name}: use of the text is dominated by the lazy computation" if ok else f"{f.name}: the text is used without the `_ch_text is None` guard (None / stale)")
        for x in walk_local(f):
            if is_self_attr(x, ("_ch_text", "cp", "ppobj")) and isinstance(x.ctx, ast.Store):
                ok = x.attr == "_ch_text" and any(x in list(ast.walk(g)) for g in guards)
                cx.ob("R10f", x, ok, "written by the guarded computation only" if ok else f"{f.name} rewrites {x.attr} of the result object")
    cx.at_least("R10f", "guarded uses of the text", n, 10)
    it = cx.func("ak/ppobj.py", "CHTextResult.__iter__", "R10f")
    ok = len(it.body) == 1 and isinstance(it.body[0], ast.Return) and norm(it.body[0].value) == "self.ppobj.gen_ch_lines(self.cp)"
    cx.ob("R10f", it, ok, "iteration delegates to ppobj.gen_ch_lines(cp)" if ok else "__iter__ does not return self.ppobj.gen_ch_lines(self.cp)")
    # outside writers
    for m in repo.modules.values():
        for x in ast.walk(m.tree):
            if isinstance(x, ast.Attribute) and x.attr == "_ch_text" and isinstance(x.ctx, ast.Store) and enclosing(x, (ast.ClassDef,)) is not cls:
                cx.ob("R10f", x, False, "the memoised text is written from outside the result class")
    # constructors of the result: (ppobj, palette obtained per call)
    for m in repo.modules.values():
        for c in ast.walk(m.tree):
            if isinstance(c, ast.Call) and call_name(c) == "CHTextResult" and len(c.args) == 2:
                a1 = c.args[1]
                per_call = (isinstance(a1, ast.Call) and call_name(a1) == "_mk_palette") or (isinstance(a1, ast.Name) and any(
                    isinstance(v, ast.Call) and call_name(v) == "_mk_palette" for _, v in assignments(enclosing_func(c), a1.id) if v is not None))
                cx.ob("R10f", c, per_call, "result gets the palette made for this call" if per_call else "result is built with a palette not obtained by _mk_palette in this call")


# -------------------------------------------------------------------------------------------- R10g
def _r10g(cx, repo):
    impls = [(m, q, f) for m, q, f in repo.functions() if f.name == "make_ch_text"]
    cx.at_least("R10g", "make_ch_text implementations", len(impls), 2)
    for m, q, f in impls:
        cp = params(f)[1]
        rets = [r for r in walk_local(f) if isinstance(r, ast.Return)]
        ok = False
        for r in rets:
            v = r.value
            if isinstance(v, ast.Call) and isinstance(v.func, ast.Attribute) and v.func.attr == "join" and norm(v.func.value) in ("CHText('\\n')", 'CHText("\\n")') and len(v.args) == 1:
                a = v.args[0]
                if isinstance(a, ast.Name):
                    d = [x for _, x in assignments(f, a.id) if x is not None]
                    a = d[0] if len(d) == 1 else a
                ok = norm(a) == f"self.gen_ch_lines({cp})"
        one = len(rets) == 1
        cx.ob("R10g", f, ok and one, "whole text = CHText('\\n').join(self.gen_ch_lines(cp))" if ok and one else
              "make_ch_text is not the newline-join of exactly the lines gen_ch_lines(cp) produces")


# -------------------------------------------------------------------------------------------- R10h
CH, NOT, UNK = "CHText", "not-CHText", "undecided"


class _Typer:
    def __init__(self, repo):
        self.repo = repo
        self.ch_attr_ok = None

    def attr_ch_text_ok(self):
        """All stores to an attribute named ch_text (other than a constructor pass-through) are CHText valued."""
        if self.ch_attr_ok is None:
            ok = True
            for m in self.repo.modules.values():
                for n in ast.walk(m.tree):
                    if isinstance(n, ast.Assign):
                        for t in n.targets:
                            if isinstance(t, ast.Attribute) and t.attr == "ch_text":
                                f = enclosing_func(n)
                                if f is not None and f.name == "__init__" and isinstance(n.value, ast.Name) and n.value.id in params(f):
                                    continue
                                if self.ty(n.value, f) != CH:
                                    ok = False
            self.ch_attr_ok = ok
        return self.ch_attr_ok

    def ty(self, e, f, depth=0):
        if depth > 6 or e is None:
            return UNK
        if isinstance(e, ast.Call):
            fn = e.func
            d = dotted(fn)
            if d in ("CHText", "CHText.make"):
                return CH
            if isinstance(fn, ast.Attribute) and fn.attr in ("join", "fixed_len", "get_ch_text") and self.ty(fn.value, f, depth + 1) == CH:
                return CH
            if isinstance(fn, ast.Call) and norm(fn) == "type(self)" :
                return UNK
            callee = self._resolve(e)
            if callee is not None:
                rets = [r.value for r in walk_local(callee) if isinstance(r, ast.Return) and r.value is not None]
                if rets and not any(isinstance(x, (ast.Yield, ast.YieldFrom)) for x in walk_local(callee)):
                    ts = {self.ty(r, callee, depth + 1) for r in rets}
                    if ts == {CH}:
                        return CH
                    if ts <= {NOT}:
                        return NOT
            if isinstance(fn, ast.Attribute) and isinstance(fn.value, ast.Name) and fn.value.id in PAL_NAMES:
                return NOT    # cp.text(...): a chunk
            if d in ("list", "str", "tuple", "dict", "sorted"):
                return NOT
            return UNK
        if isinstance(e, (ast.List, ast.ListComp, ast.Tuple, ast.Dict, ast.JoinedStr)):
            return NOT
        if isinstance(e, ast.Constant):
            return NOT
        if isinstance(e, ast.BinOp) and isinstance(e.op, ast.Add):
            l, r = self.ty(e.left, f, depth + 1), self.ty(e.right, f, depth + 1)
            if l == CH or r == CH:
                return CH
            if l == NOT and r == NOT:
                return NOT
            return UNK
        if isinstance(e, ast.Subscript):
            return CH if self.ty(e.value, f, depth + 1) == CH else UNK
        if isinstance(e, ast.Attribute) and e.attr == "ch_text":
            return CH if self.attr_ch_text_ok() else UNK
        if isinstance(e, ast.Name) and f is not None:
            defs = assignments(f, e.id)
            if not defs:
                return UNK
            ts = set()
            for st, v in defs:
                if v is None:
                    if isinstance(st, ast.AugAssign):
                        continue    # += keeps a CHText a CHText
                    if isinstance(st, (ast.For, ast.comprehension)):
                        ts.add(self._elem_ty(st.iter, f, depth + 1))
                        continue
                    ts.add(UNK)
                else:
                    ts.add(self.ty(v, f, depth + 1))
            if ts == {CH}:
                return CH
            if ts and ts <= {NOT}:
                return NOT
            return UNK
        if isinstance(e, ast.IfExp):
            ts = {self.ty(e.body, f, depth + 1), self.ty(e.orelse, f, depth + 1)}
            return CH if ts == {CH} else (NOT if ts == {NOT} else UNK)
        return UNK

    def _elem_ty(self, it, f, depth):
        if isinstance(it, ast.Name):
            ts = set()
            for st, v in assignments(f, it.id):
                if isinstance(v, (ast.List, ast.Tuple)):
                    ts |= {self.ty(x, f, depth + 1) for x in v.elts} or {UNK}
                elif isinstance(v, ast.ListComp):
                    ts.add(self.ty(v.elt, f, depth + 1))
                else:
                    ts.add(UNK)
            return CH if ts == {CH} else UNK
        return UNK

    def _resolve(self, c):
        fn = c.func
        if isinstance(fn, ast.Attribute):
            owner = enclosing(c, (ast.ClassDef,))
            if isinstance(fn.value, ast.Name) and fn.value.id in ("self", "cls") and owner is not None:
                m = self.repo.method(owner, fn.attr)
                if m is not None:
                    return m
            cands = [f for mod, q, f in self.repo.functions() if f.name == fn.attr]
            mod = getattr(c, "_mod", None)
            same = [f for f in cands if getattr(f, "_mod", None) is mod]
            if len(same) == 1:
                return same[0]
            if len(cands) == 1:
                return cands[0]
        elif isinstance(fn, ast.Name):
            mod = getattr(c, "_mod", None)
            if mod is not None and fn.id in mod.defs and isinstance(mod.defs[fn.id], FUNC):
                return mod.defs[fn.id]
        return None


def _r10h(cx, repo):
    ty = _Typer(repo)
    roots = [(m, q, f) for m, q, f in repo.functions() if f.name == "gen_ch_lines" or
             (f.returns is not None and norm(f.returns).replace("'", "").replace(" ", "") in ("Iterator[CHText]", "Iterable[CHText]"))]
    cx.at_least("R10h", "line generators (gen_ch_lines / -> Iterator[CHText])", len(roots), 12)
    todo = [f for _, _, f in roots]
    seen = set()
    n_y = n_unk = 0
    while todo:
        f = todo.pop()
        if id(f) in seen:
            continue
        seen.add(id(f))
        for n in walk_local(f):
            if isinstance(n, ast.Yield):
                n_y += 1
                t = ty.ty(n.value, f) if n.value is not None else NOT
                if t == UNK:
                    n_unk += 1
                    cx.note(f"R10h undecided yield at {getattr(f, '_qual', f.name)}:{n.lineno}: {norm(n.value)[:60]}")
                    continue
                cx.ob("R10h", n, t == CH, "yields a CHText" if t == CH else f"a line generator yields `{norm(n.value)[:60]}`, which is not a CHText (line-by-line consumption differs from the whole text)")
            elif isinstance(n, ast.YieldFrom) or (isinstance(n, ast.Return) and isinstance(n.value, ast.Call) and f.name in ("gen_ch_lines",)):
                v = n.value
                if isinstance(v, (ast.List, ast.Tuple)) and not v.elts:
                    continue
                if isinstance(v, ast.Call):
                    callee = ty._resolve(v)
                    if callee is not None and any(isinstance(x, (ast.Yield, ast.YieldFrom)) for x in walk_local(callee)) or (callee is not None and callee.name.endswith("gen_ch_lines")):
                        todo.append(callee)
                        cx.ob("R10h", n, True, f"delegates to the line generator {getattr(callee, '_qual', callee.name)}")
                        continue
                    if callee is None and isinstance(v.func, ast.Attribute):
                        # dynamic receiver (obj._h_doc.gen_help_text): every generator of that name in the package
                        cands = [g for _, _, g in repo.functions() if g.name == v.func.attr]
                        if cands:
                            todo.extend(cands)
                            cx.ob("R10h", n, True, f"delegates to {len(cands)} generator(s) named {v.func.attr}")
                            continue
                if isinstance(v, ast.GeneratorExp):
                    t = ty.ty(v.elt, f)
                    if t != UNK:
                        cx.ob("R10h", n, t == CH, "yields CHText items" if t == CH else "yields non-CHText items")
                        continue
                n_unk += 1
                cx.note(f"R10h undecided delegation at {getattr(f, '_qual', f.name)}:{n.lineno}: {norm(v)[:60]}")
    cx.count("R10h:generators analysed", len(seen))
    cx.count("R10h:yield sites", n_y)
    cx.count("R10h:undecided", n_unk)
    cx.at_least("R10h", "yield sites typed", n_y - n_unk, 20)


# -------------------------------------------------------------------------------------------- R10i
def _r10i(cx, repo):
    n_funcs = n_uses = 0
    for rel in RENDER_MODULES:
        if rel not in repo.modules:
            continue
        m = repo.modules[rel]
        for f in [n for n in ast.walk(m.tree) if isinstance(n, FUNC)]:
            ps = set(params(f)) & PAL_NAMES
            tainted = set(ps)
            # locals that hold a palette / formatter
            for n in walk_local(f):
                if isinstance(n, ast.Assign) and len(n.targets) == 1 and isinstance(n.targets[0], ast.Name):
                    v = n.value
                    if isinstance(v, ast.Call) and call_name(v) in ("_mk_palette", "get_sub_palette", "get_color", "get_palette"):
                        tainted.add(n.targets[0].id)
                    elif isinstance(v, ast.Attribute) and isinstance(v.value, ast.Name) and v.value.id in tainted:
                        tainted.add(n.targets[0].id)     # color_fmt = cp.keyword
                    elif isinstance(v, ast.Name) and v.id in tainted:
                        tainted.add(n.targets[0].id)
                    elif isinstance(v, ast.IfExp) and all(isinstance(x, ast.Attribute) and isinstance(x.value, ast.Name) and x.value.id in tainted for x in (v.body, v.orelse)):
                        tainted.add(n.targets[0].id)
            if not tainted:
                continue
            n_funcs += 1
            for n in walk_local(f):
                if not (isinstance(n, ast.Name) and isinstance(n.ctx, ast.Load) and n.id in tainted):
                    continue
                n_uses += 1
                p = parent(n)
                ok = False
                why = type(p).__name__
                if isinstance(p, ast.Attribute) and p.value is n:
                    ok = True
                    # cp.<attr> used as a value in a test / len etc. is checked one level up
                    pp = parent(p)
                    if isinstance(pp, (ast.Compare, ast.BoolOp, ast.UnaryOp)) or (isinstance(pp, (ast.If, ast.While, ast.IfExp)) and pp.test is p):
                        ok = False
                        why = "attribute of a palette used in a condition"
                elif isinstance(p, ast.Call) and (n in p.args or p.func is n):
                    ok = call_name(p) not in ("len", "bool", "str", "repr", "hash", "int") or p.func is n
                    why = f"argument of {call_name(p)}()"
                elif isinstance(p, ast.keyword):
                    ok = True
                elif isinstance(p, ast.Assign) and p.value is n:
                    ok = True
                elif isinstance(p, (ast.Tuple, ast.List)) and isinstance(parent(p), (ast.Return, ast.Assign, ast.Call)):
                    ok = True
                elif isinstance(p, ast.Subscript) and p.slice is n:
                    ok = True      # key of a cache of chunks (R10a governs it)
                elif isinstance(p, ast.Compare) and len(p.ops) == 1 and isinstance(p.ops[0], (ast.Is, ast.IsNot)) and const(p.comparators[0]) and p.comparators[0].value is None:
                    ok = True      # presence test of an optional argument
                elif isinstance(p, ast.Starred):
                    ok = True
                elif isinstance(p, ast.Expr):
                    ok = True      # `_ = cp`
                elif isinstance(p, ast.Assign) and n in p.targets:
                    ok = True
                if not ok:
                    cx.ob("R10i", n, False, f"'{n.id}' (palette / formatter / no_color) is used as {why} in layout code: colours can change the layout")
    cx.count("R10i:functions with palette values", n_funcs)
    cx.count("R10i:palette value uses checked", n_uses)
    cx.at_least("R10i", "palette value uses", n_uses, 100)
    cx.ob("R10i", "rendering modules", True, f"{n_uses} uses of palette values in {n_funcs} functions are receiver / callee / argument / alias uses", construct="rendering modules", stmt="taint scan")
    # colour parts are private to color.py
    for m in repo.modules.values():
        if m.rel == REL:
            continue
        for n in ast.walk(m.tree):
            if isinstance(n, ast.Attribute) and n.attr in ("c_prefix", "c_suffix", "_color_prefix", "_color_suffix"):
                cx.ob("R10i", n, False, "escape-sequence parts of a chunk are read outside ak/color.py (layout could depend on them)")
    # str() / f-string of a coloured value feeding a width: len(str(<chunk or CHText>))
    ty = _Typer(repo)
    for rel in RENDER_MODULES:
        if rel not in repo.modules:
            continue
        for c in ast.walk(repo.modules[rel].tree):
            if isinstance(c, ast.Call) and call_name(c) == "len" and c.args and isinstance(c.args[0], ast.Call) and call_name(c.args[0]) == "str" and c.args[0].args:
                inner = c.args[0].args[0]
                f = enclosing_func(c)
                t = ty.ty(inner, f)
                is_chunk = isinstance(inner, ast.Call) and isinstance(inner.func, ast.Attribute) and isinstance(inner.func.value, ast.Name) and inner.func.value.id in PAL_NAMES
                if t == CH or is_chunk:
                    cx.ob("R10i", c, False, "a width is computed from str() of a coloured value (escape sequences are counted)")


# -------------------------------------------------------------------------------------------- R10j
def _r10j(cx, repo):
    """PPEnumFieldType keeps pre-rendered chunk lists per palette; they reach FieldType.fit_to_width as its first argument.
    Any in-place mutation of that argument (or of a value that may be the argument) makes later renderings depend on earlier ones."""
    from sa.affine import WidthInterp, Path, CL, Lin
    from rules.c12 import c_resize
    fit = cx.func("ak/ppobj.py", "FieldType.fit_to_width", "R10j")
    ps = params(fit)
    it = WidthInterp(contracts={"resize_chunks_list": c_resize}, palette_names=(ps[3],), nonneg_syms=("L",))
    it.run(fit.body, Path({ps[0]: CL(Lin.sym("L"), fresh=False), ps[1]: Lin.sym("width")}, it.base_facts()))
    n = 0
    for ob in it.side:
        if ob.kind == "alias":
            n += 1
            cx.ob("R10j", ob.node, ob.ok, "mutates a list built in this call" if ob.ok else
                  ob.detail + ": cached enum cell texts are passed in here, so the next rendering of the same value sees the modified list")
    cx.at_least("R10j", "in-place list mutations in fit_to_width", n, 3)
    # the cache itself is written only where it is filled
    enum = cx.cls("ak/ppobj.py", "PPEnumFieldType", "R10j")
    for f in [x for x in enum.body if isinstance(x, FUNC)]:
        for c in walk_local(f):
            if isinstance(c, ast.Call) and isinstance(c.func, ast.Attribute) and c.func.attr in ("append", "extend", "insert", "pop", "clear", "remove"):
                base = norm(c.func.value)
                if base.startswith("by_value_cache[") or base.startswith("self._cache"):
                    cx.ob("R10j", c, False, f"a cached cell text is modified in place ({base}.{c.func.attr})")


def _r10j_purity(cx, repo):
    """The chunk-list helpers never change their list parameter in place (shared with C12 R12h)."""
    from rules.c12 import param_purity
    resize = cx.func("ak/color.py", "CHText.resize_chunks_list", "R10j")
    fit = cx.func("ak/ppobj.py", "FieldType.fit_to_width", "R10j")
    param_purity(cx, "R10j", [(resize, params(resize)[1]), (fit, params(fit)[0])])


# -------------------------------------------------------------------------------------------- R10l
_SHALLOW = ("dict", "list", "set", "copy")


def _selfish(e):
    return isinstance(e, ast.Name) and e.id in ("self", "cls")


def _r10l(cx, repo):
    """A cache attribute filled under a variable key (`self.<..cache..>[key] = V`) holds one entry per palette / configuration /
    value.  If V is a persistent container of the object (`self.tpl`), or a one-level copy of it (`dict(self.tpl)`,
    `self.tpl.copy()`, `{**self.tpl}`, `copy.copy(..)`) while the persistent container's own values are mutable containers, all
    entries share those inner containers: what is rendered under one palette is then served under another.  Refuted only when
    (a) the template demonstrably nests mutable containers and (b) the class writes two levels deep into a cache entry."""
    n_sites = 0
    for rel in sorted(set(RENDER_MODULES) | {REL}):
        m = repo.modules.get(rel)
        if m is None:
            continue
        for cls_ in [c for c in ast.walk(m.tree) if isinstance(c, ast.ClassDef)]:
            meths = [f for f in cls_.body if isinstance(f, FUNC)]
            init = {}
            for f in meths:
                for st in walk_local(f):
                    if isinstance(st, ast.Assign):
                        for t in st.targets:
                            if is_self_attr(t):
                                init.setdefault(t.attr, []).append(st.value)
            for st in cls_.body:
                if isinstance(st, ast.Assign):
                    for t in st.targets:
                        if isinstance(t, ast.Name):
                            init.setdefault(t.id, []).append(st.value)

            def nests_mutable(v):
                """a container display / comprehension whose values are themselves mutable containers"""
                def mut(x):
                    return isinstance(x, (ast.Dict, ast.List, ast.Set, ast.DictComp, ast.ListComp, ast.SetComp)) or \
                        (isinstance(x, ast.Call) and isinstance(x.func, ast.Name) and x.func.id in ("dict", "list", "set", "defaultdict", "OrderedDict"))
                if isinstance(v, ast.Dict):
                    return any(mut(x) for x in v.values)
                if isinstance(v, (ast.List, ast.Set, ast.Tuple)):
                    return any(mut(x) for x in v.elts)
                if isinstance(v, ast.DictComp):
                    return mut(v.value)
                if isinstance(v, (ast.ListComp, ast.SetComp)):
                    return mut(v.elt)
                return False
            deep_writes = []
            for f in meths:
                for x in walk_local(f):
                    if isinstance(x, ast.Subscript) and isinstance(x.ctx, ast.Store) and isinstance(x.value, ast.Subscript):
                        deep_writes.append(x)
                    if isinstance(x, ast.Call) and isinstance(x.func, ast.Attribute) and x.func.attr in ("append", "extend", "update", "add", "setdefault", "insert") \
                            and isinstance(x.func.value, ast.Subscript):
                        deep_writes.append(x)
            for f in meths:
                for st in walk_local(f):
                    if not isinstance(st, ast.Assign):
                        continue
                    for t in st.targets:
                        if not (isinstance(t, ast.Subscript) and is_self_attr(t.value) and "cache" in t.value.attr.lower() and not isinstance(t.slice, ast.Constant)):
                            continue
                        n_sites += 1
                        v = st.value
                        if isinstance(v, ast.Name):
                            ds = [d for _, d in assignments(f, v.id) if d is not None and d is not v]
                            v = ds[0] if len(ds) == 1 else v
                        src = None
                        how = None
                        if is_self_attr(v) or (isinstance(v, ast.Attribute) and is_name(v.value, "cls")):
                            src, how = v.attr, "is the persistent object itself"
                        elif isinstance(v, ast.Call) and isinstance(v.func, ast.Name) and v.func.id in _SHALLOW and len(v.args) == 1 and isinstance(v.args[0], ast.Attribute) \
                                and _selfish(v.args[0].value):
                            src, how = v.args[0].attr, f"is a one-level copy `{norm(v)}`"
                        elif isinstance(v, ast.Call) and isinstance(v.func, ast.Attribute) and v.func.attr == "copy" and not v.args:
                            b = v.func.value
                            if isinstance(b, ast.Attribute) and _selfish(b.value):
                                src, how = b.attr, f"is a one-level copy `{norm(v)}`"
                            elif is_name(b, "copy") and False:
                                pass
                        elif isinstance(v, ast.Call) and dotted(v.func) == "copy.copy" and len(v.args) == 1 and isinstance(v.args[0], ast.Attribute) and _selfish(v.args[0].value):
                            src, how = v.args[0].attr, f"is a one-level copy `{norm(v)}`"
                        elif isinstance(v, ast.Dict) and any(k is None for k in v.keys):
                            for k, x in zip(v.keys, v.values):
                                if k is None and isinstance(x, ast.Attribute) and _selfish(x.value):
                                    src, how = x.attr, f"is a one-level copy `{norm(v)}`"
                        if src is None:
                            cx.ob("R10l", st, True, f"entry of self.{t.value.attr} is built for this key (not taken from a persistent template)")
                            continue
                        tpl = init.get(src, [])
                        shared = [x for x in tpl if nests_mutable(x)] if how.startswith("is a one-level") else \
                            [x for x in tpl if isinstance(x, (ast.Dict, ast.List, ast.Set, ast.DictComp, ast.ListComp, ast.SetComp))]
                        bad = bool(shared) and bool(deep_writes)
                        cx.ob("R10l", st, not bad, f"entry of self.{t.value.attr} comes from self.{src}, which holds no mutable parts that are written through the cache" if not bad else
                              f"the entry stored in self.{t.value.attr} under a per-palette key {how} of self.{src}, whose values are mutable containers "
                              f"(`{norm(shared[0])[:70]}`); the class fills them in place (`{norm(enclosing_stmt(deep_writes[0]))[:60]}`), so all keys share one set of inner containers "
                              "and a rendering under one palette is served under another")
    cx.at_least("R10l", "keyed cache stores examined", n_sites, 2)


def _r10m(cx, repo):
    """Two results of the same object may be consumed alternately (line by line).  A generator that parks a value of the current
    rendering in an attribute of an object that outlives the call (self, a parameter, something reached from them) and reads
    that attribute again after a suspension point lets the other consumer overwrite it in between.  Structural rule: in every
    generator function of the rendering modules, an attribute that is stored and - after a `yield` on some path - read must
    belong to an object allocated in the same call."""
    from sa.guards import enclosing_loops
    n_sites = 0
    for rel in ("ak/ppobj.py", "ak/color.py", "ak/ghist.py", "ak/hdoc.py"):
        if rel not in repo.modules:
            continue
        for _m, _q, f in repo.functions({rel}):
            own = list(walk_local(f))
            yields = [n for n in own if isinstance(n, (ast.Yield, ast.YieldFrom))]
            if not yields:
                continue
            stores = [n for n in own if isinstance(n, ast.Attribute) and isinstance(n.ctx, ast.Store)]
            for st in stores:
                n_sites += 1
                root = st.value
                while isinstance(root, (ast.Attribute, ast.Subscript)):
                    root = root.value
                fresh = False
                if isinstance(root, ast.Name) and root.id not in params(f):
                    defs = assignments(f, root.id)
                    fresh = bool(defs) and all(isinstance(v, ast.Call) for _s, v in defs)
                if fresh:
                    cx.ob("R10m", st, True, f"`{norm(st)}` is set on an object allocated in this call")
                    continue

                def after(a, b):
                    """b can execute after a: later in the text, or both inside one loop"""
                    if getattr(b, "lineno", 0) > getattr(a, "lineno", 0):
                        return True
                    la, lb = enclosing_loops(a, stop=f), enclosing_loops(b, stop=f)
                    return any(x is y for x in la for y in lb)
                reads = [n for n in own if isinstance(n, ast.Attribute) and isinstance(n.ctx, ast.Load) and n.attr == st.attr]
                bad = [(y, r) for y in yields for r in reads if after(st, y) and after(y, r)]
                ok = not bad
                cx.ob("R10m", st, ok, f"`{norm(st)}` is not read again after a suspension point of this generator" if ok else
                      f"`{norm(st)}` parks a value of this rendering on an object that outlives the call, and `.{st.attr}` is read after a `yield` "
                      f"(line {getattr(bad[0][1], 'lineno', '?')}): a second result of the same object, consumed in between, overwrites it - "
                      "line-by-line output differs from the whole, colours of one rendering leak into another")
    cx.at_least("R10m", "attribute stores inside generator functions", n_sites, 3)


def cache_fill_purity(cx, rule, repo):
    """PPEnumFieldType fills its per-palette cache with lists of chunks.  A list that is stored in the cache (or returned to
    be stored) must not be changed afterwards - not directly and not through another local name that may denote the same
    object (`full = val_items; full += [...]` extends the cached 'val' text).  May-alias by plain `a = b` assignments; a
    mutation counts when an aliasing assignment can reach it on the CFG without the name being re-bound in between."""
    from sa.cfg import CFG
    enum = cx.cls("ak/ppobj.py", "PPEnumFieldType", rule)
    n_funcs = 0
    for f in [x for x in enum.body if isinstance(x, FUNC)]:
        stored = {}
        for st in walk_local(f):
            if isinstance(st, ast.Assign):
                for t in st.targets:
                    if isinstance(t, ast.Subscript) and "cache" in norm(t).lower():
                        for x in ast.walk(st.value):
                            if isinstance(x, ast.Name) and isinstance(x.ctx, ast.Load):
                                stored.setdefault(x.id, st)
        if not stored:
            continue
        n_funcs += 1
        g = CFG(f)
        MUT = ("append", "extend", "insert", "pop", "remove", "clear", "sort", "reverse")
        muts = []
        for st in walk_local(f):
            if isinstance(st, ast.AugAssign) and isinstance(st.target, ast.Name) and isinstance(st.op, (ast.Add, ast.Mult, ast.BitOr)):
                muts.append((st.target.id, st))
            elif isinstance(st, ast.Expr) and isinstance(st.value, ast.Call) and isinstance(st.value.func, ast.Attribute) and st.value.func.attr in MUT \
                    and isinstance(st.value.func.value, ast.Name):
                muts.append((st.value.func.value.id, st))
        binds = {}
        for st in walk_local(f):
            if isinstance(st, (ast.Assign, ast.AugAssign, ast.AnnAssign, ast.For)):
                tg = st.targets if isinstance(st, ast.Assign) else [st.target]
                for t in tg:
                    for x in ast.walk(t):
                        if isinstance(x, ast.Name) and isinstance(x.ctx, ast.Store):
                            binds.setdefault(x.id, []).append(st)
        for name, m in muts:
            mn = g.node_of(m)
            if mn is None:
                continue
            # (a) the name itself is stored in the cache before / after: mutating it after the store changes the cached text
            culprit = None
            if name in stored:
                sn = g.node_of(stored[name])
                others = {g.node_of(b).id for b in binds.get(name, []) if b is not m and g.node_of(b) is not None and isinstance(b, ast.Assign)}
                if sn is not None and g.reach_avoiding(sn, {mn.id}, others, follow_raise=False) is not None:
                    culprit = (name, stored[name])
            # (b) an alias `name = other` with `other` stored in the cache
            if culprit is None:
                for b in binds.get(name, []):
                    if isinstance(b, ast.Assign) and isinstance(b.value, ast.Name) and b.value.id in stored and b.value.id != name:
                        bn = g.node_of(b)
                        others = {g.node_of(b2).id for b2 in binds.get(name, []) if b2 is not b and b2 is not m and g.node_of(b2) is not None and isinstance(b2, ast.Assign)}
                        if bn is not None and g.reach_avoiding(bn, {mn.id}, others, follow_raise=False) is not None:
                            culprit = (b.value.id, stored[b.value.id])
            ok = culprit is None
            cx.ob(rule, m, ok, f"`{name}` is not (an alias of) a list kept in the cache when it is changed in place" if ok else
                  f"`{norm(m)[:50]}` changes in place a list that is kept in the cache (`{culprit[0]}`, stored by `{norm(culprit[1])[:60]}`"
                  f"{'' if culprit[0] == name else ', reached through the alias `' + name + '`'}): the cached text of another format of the same value now shows these chunks too",
                  stmt=f"{f.name}: {norm(m)[:60]}")
    cx.counts[f"{rule}:cache-filling functions examined"] = n_funcs


# -------------------------------------------------------------------------------------------- R10n
R10N_CONTROL = """
class Printer:
    def _mk_indent(self, cp: PPPalette, width):
        chunk = self._indents.get(width)
        if chunk is None:
            chunk = self._indents[width] = cp.text(" " * width)
        return chunk

    def _count(self, cp: PPPalette, width):
        self._n_calls += 1
        self._widths[width] = width + 2
        return cp.text(" " * width)
"""


def _r10n_scan(f, pal):
    """[(node, target text, bad)] for the stores into state reaching self / cls / a module global inside `f`, a function that
    receives a palette as a parameter; None when `f` receives no palette (or is a constructor)."""
    pparams = set()
    for a in f.args.posonlyargs + f.args.args + f.args.kwonlyargs:
        ann = a.annotation
        an = None
        if isinstance(ann, ast.Name):
            an = ann.id
        elif isinstance(ann, ast.Attribute):
            an = ann.attr
        elif isinstance(ann, ast.Constant) and isinstance(ann.value, str):
            an = ann.value.split(".")[-1]
        if (an in pal or an == "PALETTE_CLASS" or a.arg in ("cp", "palette")) and a.arg not in ("self", "cls"):
            pparams.add(a.arg)
    if not pparams or f.name in ("__init__", "__new__", "__post_init__"):
        # a constructor's `self` is the object allocated by this very call (a result object, R10f governs it)
        return None
    own = list(walk_local(f))
    tainted = set(pparams)

    def derived(e):
        """value built with the palette"""
        if isinstance(e, ast.Name):
            return e.id in tainted and e.id not in pparams
        if isinstance(e, ast.Call):
            r = e.func
            while isinstance(r, (ast.Attribute, ast.Call, ast.Subscript)):
                r = r.func if isinstance(r, ast.Call) else r.value
            if isinstance(r, ast.Name) and r.id in tainted and isinstance(e.func, (ast.Attribute, ast.Call)):
                return True
            return any(derived(a) for a in e.args) or any(derived(k.value) for k in e.keywords)
        if isinstance(e, (ast.List, ast.Tuple, ast.Set)):
            return any(derived(x) for x in e.elts)
        if isinstance(e, ast.Dict):
            return any(derived(x) for x in e.values if x is not None)
        if isinstance(e, ast.BinOp):
            return derived(e.left) or derived(e.right)
        if isinstance(e, ast.IfExp):
            return derived(e.body) or derived(e.orelse)
        if isinstance(e, (ast.NamedExpr, ast.Starred, ast.Await)):
            return derived(e.value)
        if isinstance(e, (ast.ListComp, ast.SetComp, ast.GeneratorExp)):
            return derived(e.elt)
        if isinstance(e, ast.DictComp):
            return derived(e.value)
        return False
    changed = True
    while changed:
        changed = False
        for n in own:
            tg = []
            if isinstance(n, ast.Assign) and derived(n.value):
                tg = n.targets
            elif isinstance(n, (ast.NamedExpr, ast.AugAssign)) and derived(n.value):
                tg = [n.target]
            for t in tg:
                if isinstance(t, ast.Name) and t.id not in tainted:
                    tainted.add(t.id)
                    changed = True
    local_names = {n.id for n in own if isinstance(n, ast.Name) and isinstance(n.ctx, ast.Store)} | set(params(f))

    def long_lived(t):
        root, depth = t, 0
        while isinstance(root, (ast.Attribute, ast.Subscript)):
            root = root.value
            depth += 1
        if not isinstance(root, ast.Name) or depth == 0:
            return False
        return root.id in ("self", "cls") or root.id not in local_names
    out = []
    for n in own:
        if isinstance(n, (ast.Assign, ast.AugAssign)):
            for t in (n.targets if isinstance(n, ast.Assign) else [n.target]):
                if isinstance(t, (ast.Attribute, ast.Subscript)) and long_lived(t):
                    out.append((n, norm(t), derived(n.value) or (isinstance(n.value, ast.Name) and n.value.id in pparams)))
        elif isinstance(n, ast.Call) and isinstance(n.func, ast.Attribute) and n.func.attr in ("append", "add", "extend", "insert", "setdefault", "update") \
                and isinstance(n.func.value, (ast.Attribute, ast.Subscript)) and long_lived(n.func.value):
            out.append((n, f"{norm(n.func.value)}.{n.func.attr}(..)", any(derived(a) or (isinstance(a, ast.Name) and a.id in pparams) for a in n.args)))
    return out, pparams


def _r10n(cx, repo):
    """A function that RECEIVES its palette as a parameter is a per-call helper of a renderer: the palette (and with it the
    colours configuration, or no_color) changes from call to call.  Anything such a helper makes with the palette - a chunk, a
    formatter product - carries that palette's escape prefix.  If it is stored in state reachable from `self` / `cls` / a module
    global (an attribute, or an element of a container held in an attribute), a later call with another palette gets the old
    product back: no_color output with escapes, colours of configuration A under configuration B (s158: indentation chunks
    memoised per palette *class*).  Rule: in the rendering modules, outside the Palette hierarchy, no value derived from a
    palette parameter flows into a store on self / cls / a global.  Derivation: calls on the parameter (`cp.text(..)`,
    `cp.get_color(..)(..)`), locals assigned from derived values, containers / calls with a derived argument."""
    pal = _palette_classes(repo)
    from sa.core import Module
    ctl = Module.from_source("control/r10n.py", R10N_CONTROL) if hasattr(Module, "from_source") else None
    ctl_tree = ctl.tree if ctl is not None else _with_parents(ast.parse(R10N_CONTROL))
    got = []
    for fn in [n for n in ast.walk(ctl_tree) if isinstance(n, ast.FunctionDef)]:
        r = _r10n_scan(fn, pal | {"PPPalette"})
        got.append(sorted(bad for _n, _t, bad in r[0]) if r else None)
    cx.need(got == [[True], [False, False]], "R10n", "positive-control", f"the control snippet is not classified as expected: {got}")
    n_funcs = n_sites = 0
    for rel in ("ak/ppobj.py", "ak/color.py", "ak/ghist.py", "ak/hdoc.py"):
        if rel not in repo.modules:
            continue
        for _m, q, f in repo.functions({rel}):
            owner = enclosing(f, (ast.ClassDef,))
            if owner is not None and (owner.name in pal or owner.name in ("ColorsConfig", "_PaletteMeta", "PaletteUser")):
                continue
            r = _r10n_scan(f, pal)
            if r is None:
                continue
            n_funcs += 1
            sites, pparams = r
            for n, tgt, bad in sites:
                n_sites += 1
                cx.ob("R10n", n, not bad, semantic=True, detail=f"`{tgt}` receives nothing made with the per-call palette" if not bad else
                      f"`{tgt}` keeps a value made with the palette parameter ({', '.join(sorted(pparams))}) of this call in state that outlives the call: "
                      "a later rendering with another palette (no_color, another configuration) gets this palette's colours")
    cx.count("R10n:functions receiving a palette", n_funcs)
    cx.count("R10n:stores into long-lived state inside them", n_sites)
    cx.at_least("R10n", "functions receiving a palette parameter", n_funcs, 5)
    cx.ob("R10n", "ak/ppobj.py, ak/color.py, ak/ghist.py, ak/hdoc.py", True, f"{n_funcs} functions receiving a palette scanned, {n_sites} stores into long-lived state, control snippet classified", construct="rendering modules", stmt="scan")


def _with_parents(tree):
    for n in ast.walk(tree):
        for c in ast.iter_child_nodes(n):
            c._parent = n
    return tree
