"""C15 — SQL filters: values are always bound; operator normalisation table."""
import ast

from sa.core import (AnalysisError, FUNC, assignments, call_name, class_attr, const, dotted, enclosing, enclosing_func,
                     enclosing_stmt, is_attr, is_name, is_self_attr, literal, norm, params, parent, walk_local, names_in)
from sa.guards import facts, canon_facts
from sa.finite import Interp, C, K, S, TOP

PROP = "C15"
REL = "ak/mtd_sql.py"
EXPLANATION = (
    "Taint (non-interference), per-branch pairing, constant folding and finite abstract interpretation of ak/mtd_sql.py. "
    "R15a: no data flow from a condition value (self.value; the value slots handed to the condition factory; positional / "
    "keyword filter arguments) to the SQL text returned by any make_text_update_values or given to cursor.execute — a value "
    "may only be bound (values_list.append/extend), tested, or iterated for its count. R15b: in every dispatch branch the "
    "number of placeholders in the clause equals the number of values bound (clause tables folded from their literals; IN "
    "pairs extend(X) with one placeholder per element of the same X). R15c: fragments are joined in the order in which the "
    "same calls bound their values; execute receives the text and the list built together. R15d: both placeholder styles "
    "have the same keys = supported operators + PLACEHOLDER, differ only by the token, and each entry is its own operator. "
    "R15e: abstract interpretation of SqlFieldValCondition.__init__ and make_text_update_values over 13 operators x 7 value "
    "kinds x emptiness against the oracle table (=/!= with None -> IS [NOT] NULL; with list/tuple/set -> [NOT] IN; empty IN "
    "-> constant false / true; unsupported -> ValueError). R15f: None arguments dropped, kwargs become equality filters, "
    "cursor.execute only in _execute, public entry points reach it. Row sets under three-valued logic need a database: not decided."
)

OPS = ['=', '!=', 'IN', 'NOT IN', 'IS NULL', 'IS NOT NULL', 'LIKE', 'NOT LIKE', '>', '<', '>=', '<=']
COLLECTIONS = ("list", "tuple", "set")


def data_leaves(expr, func, seen=None):
    """Leaves (ast nodes) whose *data* can reach the value of expr; returns list of
    (leaf, role) with role in {'data', 'count'}."""
    seen = set() if seen is None else seen
    out = []

    def go(e, role="data"):
        if e is None:
            return
        if isinstance(e, ast.Constant):
            return
        if isinstance(e, ast.Name):
            if (e.id, role) in seen:
                return
            seen.add((e.id, role))
            defs = assignments(func, e.id)
            if not defs:
                out.append((e, role))
                return
            if e.id in params(func):
                out.append((e, role))
            for st, v in defs:
                if v is not None:
                    go(v, role)
                elif isinstance(st, ast.AugAssign):
                    go(st.value, role)
                elif isinstance(st, (ast.For, ast.comprehension)):
                    go(st.iter, role)
                elif isinstance(st, ast.Assign):
                    go(st.value, role)
            return
        if isinstance(e, ast.Attribute):
            out.append((e, role))
            return
        if isinstance(e, ast.BinOp):
            go(e.left, role), go(e.right, role)
            return
        if isinstance(e, ast.JoinedStr):
            for v in e.values:
                if isinstance(v, ast.FormattedValue):
                    go(v.value, role)
            return
        if isinstance(e, ast.IfExp):
            go(e.body, role), go(e.orelse, role)
            return
        if isinstance(e, (ast.Tuple, ast.List, ast.Set)):
            for x in e.elts:
                go(x, role)
            return
        if isinstance(e, ast.Subscript):
            go(e.value, role), go(e.slice, role)
            return
        if isinstance(e, ast.Slice):
            go(e.lower, role), go(e.upper, role), go(e.step, role)
            return
        if isinstance(e, (ast.GeneratorExp, ast.ListComp, ast.SetComp)):
            bound = set()
            for g in e.generators:
                bound |= {n.id for n in ast.walk(g.target) if isinstance(n, ast.Name)}
            used = {n.id for n in ast.walk(e.elt) if isinstance(n, ast.Name)} & bound
            # the element's own leaves, with comprehension variables resolved to the iterables
            for g in e.generators:
                tnames = {n.id for n in ast.walk(g.target) if isinstance(n, ast.Name)}
                go(g.iter, role if (tnames & used) else "count")
            for n in ast.walk(e.elt):
                pass
            go_elt(e.elt, bound, role)
            return
        if isinstance(e, ast.Call) and isinstance(e.func, ast.Name) and e.func.id == "len" and len(e.args) == 1 and not e.keywords:
            # only the number of elements can show in the text (`[placeholder] * len(values)`): a count, not a value
            out.append((e, "count"))
            return
        if isinstance(e, ast.Call):
            out.append((e, role))
            return
        if isinstance(e, ast.Starred):
            go(e.value, role)
            return
        if isinstance(e, (ast.Compare, ast.BoolOp, ast.UnaryOp)):
            # boolean / numeric results of tests: the *text* cannot carry the value
            # (str(True/False) at most); treat as control, not data
            return
        out.append((e, role))

    def go_elt(e, bound, role):
        # like go, but names bound by the comprehension are skipped (their iterables were handled)
        if isinstance(e, ast.Name) and e.id in bound:
            return
        if isinstance(e, ast.Call):
            out.append((e, role))
            return
        if isinstance(e, (ast.BinOp,)):
            go_elt(e.left, bound, role), go_elt(e.right, bound, role)
            return
        if isinstance(e, ast.Subscript):
            go_elt(e.value, bound, role), go_elt(e.slice, bound, role)
            return
        if isinstance(e, ast.JoinedStr):
            for v in e.values:
                if isinstance(v, ast.FormattedValue):
                    go_elt(v.value, bound, role)
            return
        go(e, role)

    go(expr)
    return out


def run(cx):
    repo = cx.repo
    mod = repo.mod(REL, "R15")
    base = cx.cls(REL, "SqlFilterCondition", "R15d")
    fv = cx.cls(REL, "SqlFieldValCondition", "R15e")
    orc = cx.cls(REL, "SqlOrCondition", "R15a")
    meth = cx.cls(REL, "SqlMethod", "R15f")
    fv_init = cx.func(REL, "SqlFieldValCondition.__init__", "R15e")
    fv_make = cx.func(REL, "SqlFieldValCondition.make_text_update_values", "R15a")
    or_make = cx.func(REL, "SqlOrCondition.make_text_update_values", "R15a")
    or_init = cx.func(REL, "SqlOrCondition.__init__", "R15f")
    execute = cx.func(REL, "SqlMethod._execute", "R15a")
    factory = cx.func(REL, "SqlFilterCondition.make", "R15f")
    cx.rule("R15a", "no data flow from condition values to SQL text (values may only be bound, tested or counted)")
    cx.rule("R15b", "per dispatch branch: #placeholders in the clause == #values bound")
    cx.rule("R15c", "text fragments are joined in the order their values were bound; execute gets the text and list built together")
    cx.rule("R15d", "clause tables: same keys in both styles = SUPPORTED_OPS + PLACEHOLDER; entries differ only by the token")
    cx.rule("R15e", "operator normalisation agrees with the oracle table for every (operator, value kind, emptiness)")
    cx.rule("R15f", "None dropped, kwargs -> equality filters, execute only in _execute, entry points reach _execute")
    cx.assume("field names, static condition strings, the SELECT text, group_by and _order_by are SQL text supplied by the programmer by design; only condition *values* are data")

    # private helpers extracted from these functions are analysed in place
    from sa.inline import inlined
    fv_make, _i1 = inlined(repo.mod(REL), fv_make)
    or_make, _i2 = inlined(repo.mod(REL), or_make)
    execute, _i3 = inlined(repo.mod(REL), execute)
    if _i1 or _i2 or _i3:
        cx.note(f"private helpers inlined for the analysis: {sorted(set(_i1 + _i2 + _i3))}")
    # every implementation of make_text_update_values in the package
    impls = [(m, q, {"SqlFieldValCondition": fv_make, "SqlOrCondition": or_make}.get(getattr(enclosing(f, (ast.ClassDef,)), "name", ""), f)) for m, q, f in repo.functions() if f.name == "make_text_update_values"]
    cx.at_least("R15a", "make_text_update_values implementations", len(impls), 3)

    # ------------------------------------------------------------------ R15d tables
    tbl_node = class_attr(base, "_SQL_CLAUSES")
    cx.need(tbl_node is not None, "R15d", f"{REL}::SqlFilterCondition._SQL_CLAUSES", "clause table vanished")
    consts = {}
    for st in base.body:
        if isinstance(st, ast.Assign) and isinstance(st.targets[0], ast.Tuple) and isinstance(st.value, ast.Tuple):
            for t, v in zip(st.targets[0].elts, st.value.elts):
                if isinstance(t, ast.Name) and const(v):
                    consts[t.id] = v.value
        elif isinstance(st, ast.Assign) and isinstance(st.targets[0], ast.Name) and const(st.value):
            consts[st.targets[0].id] = st.value.value
    try:
        tables = {}
        for k, v in zip(tbl_node.keys, tbl_node.values):
            kk = consts[k.id] if isinstance(k, ast.Name) else literal(k)
            tables[kk] = literal(v)
    except Exception as e:
        raise AnalysisError("R15d", f"{REL}::SqlFilterCondition._SQL_CLAUSES", f"table is not a literal: {e}")
    sup_node = class_attr(fv, "SUPPORTED_OPS")
    try:
        supported = list(literal(sup_node))
    except Exception as e:
        raise AnalysisError("R15d", f"{REL}::SqlFieldValCondition.SUPPORTED_OPS", str(e))
    cx.ob("R15d", sup_node, sorted(supported) == sorted(OPS), "supported operators are the 12 of the property" if sorted(supported) == sorted(OPS) else
          f"supported operators differ: {sorted(set(supported) ^ set(OPS))}")
    cx.ob("R15d", tbl_node, len(tables) == 2, f"{len(tables)} placeholder styles", stmt="styles")
    tokens = {}
    for style, t in tables.items():
        keys_ok = set(t) == set(OPS) | {"PLACEHOLDER"}
        cx.ob("R15d", tbl_node, keys_ok, f"style {style}: keys = supported operators + PLACEHOLDER" if keys_ok else
              f"style {style}: keys differ by {sorted(set(t) ^ (set(OPS) | {'PLACEHOLDER'}))}", stmt=f"style {style} keys")
        tok = t.get("PLACEHOLDER")
        tokens[style] = tok
        for op in OPS:
            if op not in t:
                continue
            entry = t[op]
            want_ph = 0 if op in ("IN", "NOT IN", "IS NULL", "IS NOT NULL") else 1
            n_ph = entry.count(tok) if tok else -1
            bare = " ".join(entry.replace(tok, " ").split()) if tok else entry
            ok = n_ph == want_ph and bare == op and entry.startswith(" ") and (want_ph == 1 or op in ("IS NULL", "IS NOT NULL") or entry.endswith(" "))
            cx.ob("R15d", tbl_node, ok, f"style {style} {op!r}: operator text and {want_ph} placeholder" if ok else
                  f"style {style} {op!r}: entry {entry!r} has {n_ph} placeholder(s) / reads as {bare!r}", stmt=f"style {style} entry {op}")
    cx.ob("R15d", tbl_node, sorted(tokens.values(), key=str) == ["%s", "?"], "placeholder tokens are '?' and '%s'" if sorted(tokens.values(), key=str) == ["%s", "?"] else f"tokens {tokens}", stmt="tokens")
    if len(tables) == 2:
        (s1, t1), (s2, t2) = tables.items()
        diff = [k for k in t1 if k in t2 and k != "PLACEHOLDER" and t1[k].replace(tokens[s1], "@") != t2[k].replace(tokens[s2], "@")]
        cx.ob("R15d", tbl_node, not diff, "the two styles differ only by the placeholder token" if not diff else f"styles disagree on {diff}", stmt="styles agree")

    # ------------------------------------------------------------------ R15a taint
    # (1) SqlFieldValCondition.make_text_update_values
    def tainted_leaf_fv(n):
        return (isinstance(n, ast.Attribute) and is_self_attr(n, "value"))
    for m, q, f in impls:
        rets = [r for r in walk_local(f) if isinstance(r, ast.Return) and r.value is not None]
        owner = enclosing(f, (ast.ClassDef,))
        if not rets:
            # abstract base: must not return text at all
            ok = any(isinstance(s, ast.Assert) and const(s.test) and not s.test.value for s in f.body) or any(isinstance(s, ast.Raise) for s in f.body)
            cx.ob("R15a", f, ok, "abstract: never returns SQL text" if ok else "returns None / no text")
            continue
        for r in rets:
            leaves = data_leaves(r.value, f)
            bad = []
            for leaf, role in leaves:
                if role == "count":
                    continue
                if isinstance(leaf, ast.Attribute):
                    if is_self_attr(leaf, "value") or (is_self_attr(leaf) and leaf.attr not in ("field_name", "op", "operands", "_SQL_CLAUSES")):
                        bad.append(leaf)
                elif isinstance(leaf, ast.Call):
                    nm = call_name(leaf)
                    if nm == "make_text_update_values":
                        continue   # SQL text by the contract checked on every implementation
                    if nm == "join":
                        continue   # handled structurally through its argument (already expanded? no: treat below)
                    bad.append(leaf)
                elif isinstance(leaf, ast.Name):
                    if leaf.id in ("values_list",):
                        bad.append(leaf)
                    elif leaf.id in params(f) and leaf.id not in ("self", "placeholders_type"):
                        bad.append(leaf)
                else:
                    bad.append(leaf)
            # joins: expand their argument
            for leaf, role in leaves:
                if isinstance(leaf, ast.Call) and call_name(leaf) == "join":
                    inner = data_leaves(leaf.args[0], f) if leaf.args else []
                    for l2, role2 in inner:
                        if role2 == "count":
                            continue
                        if isinstance(l2, ast.Call) and call_name(l2) == "make_text_update_values":
                            continue
                        if isinstance(l2, ast.Attribute) and is_self_attr(l2) and l2.attr in ("field_name", "op", "_SQL_CLAUSES"):
                            continue
                        if isinstance(l2, ast.Name) and not assignments(f, l2.id) and (l2.id not in params(f) or l2.id == "placeholders_type"):
                            continue
                        if isinstance(l2, ast.Attribute) and is_self_attr(l2, "operands"):
                            continue
                        bad.append(l2)
            cx.ob("R15a", r, not bad, f"returned SQL text is built from field name, clause table, constants and sub-condition text only ({len(leaves)} leaves)"
                  if not bad else f"condition value reaches the SQL text through {[norm(b)[:50] for b in bad[:3]]}")
    # values_list may receive only self.value
    for m, q, f in impls:
        for c in walk_local(f):
            if isinstance(c, ast.Call) and isinstance(c.func, ast.Attribute) and c.func.attr in ("append", "extend", "insert") and is_name(c.func.value, "values_list"):
                ok = len(c.args) == 1 and is_self_attr(c.args[0], "value")
                cx.ob("R15a", c, ok, "binds the condition value itself" if ok else f"binds {norm(c.args[0]) if c.args else '?'} instead of the condition value")
    # (2) __init__: op / field_name never derive from the value
    for st in walk_local(fv_init):
        if isinstance(st, ast.Assign) and any(is_self_attr(t, ("op", "field_name")) for t in st.targets):
            leaves = data_leaves(st.value, fv_init)
            bad = [l for l, role in leaves if role == "data" and ((isinstance(l, ast.Name) and l.id == "value") or is_self_attr(l, "value"))]
            cx.ob("R15a", st, not bad, "operator / field text does not depend on the value" if not bad else "operator or field text is computed from the condition value")
    vstores = [st for st in walk_local(fv_init) if isinstance(st, ast.Assign) and any(is_self_attr(t, "value") for t in st.targets)]
    for st in vstores:
        ok = is_name(st.value, "value")
        cx.ob("R15a", st, ok, "the value is stored unchanged" if ok else f"the stored value is transformed: {norm(st.value)}")
    # (3) _execute: text handed to execute
    ex_calls = [c for c in walk_local(execute) if isinstance(c, ast.Call) and call_name(c) == "execute"]
    cx.need(len(ex_calls) == 1, "R15a", execute, "one cursor.execute call expected in _execute")
    exc = ex_calls[0]
    cx.need(len(exc.args) == 2 and isinstance(exc.args[0], ast.Name) and isinstance(exc.args[1], ast.Name), "R15c", exc, "execute(sql_name, params_name) expected")
    sql_name, par_name = exc.args[0].id, exc.args[1].id
    leaves = data_leaves(exc.args[0], execute)
    bad = []
    joins = []
    for leaf, role in leaves:
        if role == "count":
            continue
        if isinstance(leaf, ast.Attribute):
            if is_self_attr(leaf) and leaf.attr in ("sql_select_from", "group_by", "default_order_by"):
                continue
            bad.append(leaf)
        elif isinstance(leaf, ast.Call):
            nm = call_name(leaf)
            if nm == "join":
                joins.append(leaf)
                continue
            if nm == "pop" and is_name(leaf.func.value, "kwargs") and leaf.args and const(leaf.args[0], str) and leaf.args[0].value == "_order_by":
                continue
            bad.append(leaf)
        elif isinstance(leaf, ast.Name):
            bad.append(leaf)
        else:
            bad.append(leaf)
    cx.ob("R15a", exc, not bad, "statement text = SELECT text + clause fragments + group/order options only" if not bad else
          f"filter arguments reach the statement text through {[norm(b)[:50] for b in bad[:3]]}")
    def _is_fragment_join(j):
        a = j.args[0] if j.args else None
        return isinstance(a, (ast.GeneratorExp, ast.ListComp)) and call_name(a.elt) == "make_text_update_values"
    for j in [j for j in joins if not _is_fragment_join(j)]:
        inner = [l for l, role in data_leaves(j.args[0], execute) if role == "data"] if j.args else []
        cx.ob("R15a", j, False, f"text joined from {[norm(x)[:40] for x in inner[:3]]} reaches the statement: not produced by the condition objects")
    joins = [j for j in joins if _is_fragment_join(j)]
    cx.need(len(joins) == 1, "R15c", execute, "one join of WHERE fragments expected")
    # ------------------------------------------------------------------ R15c ordering
    def check_join(j, f, src_attr, list_name, rule_anchor):
        a = j.args[0]
        if isinstance(a, ast.Name):
            # the fragments collected in a local first (a comprehension, or an accumulation loop read as one by sa/alpha)
            from sa.guards import reaching_def as _rd
            r_ = _rd(a.id, j, calls=True, containers=True)
            if r_ is None:
                ds_ = [v_ for _s, v_ in assignments(f, a.id)]
                r_ = (ds_[0], None) if len(ds_) == 1 and ds_[0] is not None else None
            if r_ is not None:
                a = r_[0]
        ok = isinstance(a, (ast.GeneratorExp, ast.ListComp)) and len(a.generators) == 1 and not a.generators[0].ifs
        if ok:
            g = a.generators[0]
            elt = a.elt
            from sa.guards import alias_env, xnorm
            env_ = alias_env(f)
            same_list = len(elt.args) == 2 and xnorm(elt.args[0], env_) == xnorm(ast.Name(id=list_name, ctx=ast.Load()), env_) if isinstance(elt, ast.Call) else False
            ok = isinstance(elt, ast.Call) and call_name(elt) == "make_text_update_values" and isinstance(elt.func, ast.Attribute) and \
                is_name(elt.func.value, g.target.id if isinstance(g.target, ast.Name) else "") and same_list
            it = g.iter
            direct = (is_name(it, src_attr) or is_self_attr(it, src_attr) or xnorm(it, env_) in (src_attr, f"self.{src_attr}"))
            cx.ob("R15c", j, ok and direct, f"fragments are produced and joined in the iteration order of {norm(it)}; each call binds into {list_name}" if ok and direct else
                  f"join argument is not `x.make_text_update_values({list_name}, ...) for x in <conditions>` over the condition list itself ({norm(a)[:70]})")
            pt = elt.args[1] if ok else None
            return pt
        cx.ob("R15c", j, False, "join argument is not a filter-free comprehension of make_text_update_values calls")
        return None
    check_join(joins[0], execute, "filters", par_name, "execute")
    sep = joins[0].func.value
    cx.ob("R15c", joins[0], const(sep, str) and sep.value == " AND ", "top-level filters are joined with AND" if const(sep, str) and sep.value == " AND " else f"separator {norm(sep)}", stmt=norm(enclosing_stmt(joins[0]))[:60] + " [sep]")
    orj = [c for c in walk_local(or_make) if isinstance(c, ast.Call) and call_name(c) == "join"]
    cx.need(len(orj) == 1, "R15c", or_make, "one join expected in SqlOrCondition")
    check_join(orj[0], or_make, "operands", "values_list", "or")
    sep = orj[0].func.value
    cx.ob("R15c", orj[0], const(sep, str) and sep.value == " OR ", "OR-group operands are joined with OR" if const(sep, str) and sep.value == " OR " else f"separator {norm(sep)}", stmt=norm(enclosing_stmt(orj[0]))[:60] + " [sep]")
    # parentheses around OR group
    it0 = Interp()
    for empty in (True, False):
        for o in it0.run(or_make.body, {"self.operands": K("list", empty), "values_list": K("list"), "placeholders_type": C(0)}):
            if empty:
                ok = o.how == "return" and o.value == C("FALSE")
                cx.ob("R15c", or_make, ok, "an empty OR group is the constant FALSE" if ok else f"empty OR group gives {o.value!r}", stmt="empty OR group")
            else:
                v = o.value
                ok = o.how == "return" and isinstance(v, S) and len(v.parts) == 3 and v.parts[0] == "(" and v.parts[2] == ")" and isinstance(v.parts[1], tuple) and v.parts[1][0] == "join"
                cx.ob("R15c", or_make, ok, "an OR group is parenthesised" if ok else f"OR group text is {v!r}: not '(' + fragments + ')', AND/OR precedence changes the row set", stmt="parentheses")
    # the params list: created empty once, only passed on; no sorting / mutation
    from sa.guards import alias_env as _alias_env
    env_x = _alias_env(execute)

    def root(nm):
        seen = set()
        while nm in env_x and isinstance(env_x[nm], ast.Name) and nm not in seen:
            seen.add(nm)
            nm = env_x[nm].id
        return nm
    par_root, sql_root = root(par_name), root(sql_name)
    par_names = {nm for nm in {par_name, par_root} | {k for k in env_x if root(k) == par_root}}
    pdefs = assignments(execute, par_root)
    ok = len(pdefs) == 1 and isinstance(pdefs[0][1], ast.List) and not pdefs[0][1].elts
    cx.ob("R15c", pdefs[0][0] if pdefs else execute, ok, "parameter list starts empty" if ok else "parameter list is not created empty exactly once")
    for n in walk_local(execute):
        if isinstance(n, ast.Name) and n.id in par_names and isinstance(n.ctx, ast.Load):
            p = parent(n)
            renaming = isinstance(p, ast.Assign) and isinstance(p.targets[0], ast.Name) or \
                isinstance(p, ast.Tuple) and isinstance(parent(p), ast.Assign) and parent(p).value is p and all(isinstance(t, ast.Name) for t in ast.walk(parent(p).targets[0]) if isinstance(t, ast.Name))
            ok = renaming or (isinstance(p, ast.Call) and n in p.args and call_name(p) in ("make_text_update_values", "execute", "debug", "info")) or isinstance(p, ast.keyword) and False
            cx.ob("R15c", n, ok, "parameter list is only handed to the fragment builders, the logger and execute" if ok else
                  f"parameter list is used in {norm(enclosing_stmt(n))[:60]} (re-ordered / mutated?)")
    # sql text var: after the WHERE join nothing may bind more values; order of clauses WHERE < GROUP BY < ORDER BY
    augs = [n for n in execute.body if isinstance(n, (ast.If, ast.AugAssign, ast.Assign))]
    order = []
    for n in walk_local(execute):
        if isinstance(n, ast.AugAssign) and (is_name(n.target, sql_name) or is_name(n.target, sql_root)):
            txt = [x.value for x in ast.walk(n.value) if const(x, str)]
            for kw in ("WHERE", "GROUP BY", "ORDER BY"):
                if any(kw in t for t in txt):
                    order.append((n.lineno, kw))
    kws = [k for _, k in sorted(order)]
    cx.ob("R15c", execute, kws == ["WHERE", "GROUP BY", "ORDER BY"], "clauses are appended as WHERE, GROUP BY, ORDER BY" if kws == ["WHERE", "GROUP BY", "ORDER BY"] else f"clause order {kws}", stmt="clause order")

    # ------------------------------------------------------------------ R15b / R15e
    cx.guard(_normalisation, cx, fv_init, fv_make, tables)

    # ------------------------------------------------------------------ R15f plumbing
    # which values become conditions: the positional arguments followed (in some order) by the (name, value) items of kwargs;
    # None dropped in _execute only.  Decided by following the sequence through the function for kwargs empty / non-empty.
    for f, who, none_filter in ((execute, "_execute", True), (or_init, "SqlOrCondition.__init__", False)):
        cx.guard(_condition_sources, cx, repo, f, who, none_filter)
    # factory: 2-tuple -> '=' ; 3-tuple unpack order
    res = _factory(cx, factory)
    # execute only in _execute
    for m in repo.modules.values():
        for c in ast.walk(m.tree):
            if isinstance(c, ast.Call) and call_name(c) in ("execute", "executemany", "executescript") and isinstance(c.func, ast.Attribute):
                ok = getattr(enclosing_func(c), "name", None) == execute.name and enclosing(enclosing_func(c), (ast.ClassDef,)) is meth
                cx.ob("R15f", c, ok, "cursor.execute is called from SqlMethod._execute only" if ok else "a second place executes SQL")
    for nm in ("all", "list", "one_or_none"):
        f = repo.method(meth, nm)
        cx.need(f is not None, "R15f", f"{REL}::SqlMethod.{nm}", "entry point vanished")
        calls = [c for c in walk_local(f) if isinstance(c, ast.Call) and call_name(c) == "_execute"]
        ok = len(calls) == 1 and [norm(a) for a in calls[0].args] == ["conn", "args", "kwargs"]
        cx.ob("R15f", f, ok, f"{nm}() hands (conn, args, kwargs) to _execute unchanged" if ok else f"{nm}() does not pass its filters to _execute unchanged")
    f = repo.method(meth, "one")
    calls = [c for c in walk_local(f) if isinstance(c, ast.Call) and call_name(c) in ("one_or_none", "_execute")]
    ok = len(calls) == 1 and any(isinstance(a, ast.Starred) and is_name(a.value, "args") for a in calls[0].args)
    cx.ob("R15f", f, ok, "one() delegates with its filters" if ok else "one() does not forward its filters")
    # order_by / as_scalars popped before kwargs are converted
    from sa.inline import inlined as _inl_e
    ex_i, _ = _inl_e(repo.modules[REL], execute, nested=True)

    def _top(n):
        return next((i for i, st in enumerate(ex_i.body) if any(x is n for x in ast.walk(st))), None)
    pops = [c for c in walk_local(ex_i) if isinstance(c, ast.Call) and call_name(c) == "pop" and is_name(c.func.value, "kwargs") and c.args and const(c.args[0], str)]
    reads = [c for c in walk_local(ex_i) if isinstance(c, ast.Call) and call_name(c) in ("items", "keys", "values") and is_name(c.func.value, "kwargs")] + \
            [n for n in walk_local(ex_i) if isinstance(n, ast.Starred) and is_name(n.value, "kwargs")]
    cx.need(reads, "R15f", execute, "where kwargs become filters")
    first_read = min(_top(r) for r in reads)
    popped = {c.args[0].value for c in pops if _top(c) is not None and _top(c) < first_read}
    ok = {"_order_by", "_as_scalars"} <= popped
    cx.ob("R15f", execute, ok, "_order_by / _as_scalars are removed before kwargs become filters" if ok else
          f"special kwargs may be turned into filters (removed before the conversion: {sorted(popped)})", stmt="special kwargs")
    if cx.repo.has("ak/mcaller_sql.py", "SqlMethodT"):
        for nm in ("list", "one", "one_or_none"):
            q = f"SqlMethodT.{nm}"
            if cx.repo.has("ak/mcaller_sql.py", q):
                f = cx.repo.func("ak/mcaller_sql.py", q)
                calls = [c for c in walk_local(f) if isinstance(c, ast.Call) and isinstance(c.func, ast.Attribute) and norm(c.func.value) == "self.sql_mtd"]
                ok = len(calls) == 1 and any(isinstance(a, ast.Starred) and is_name(a.value, "args") for a in calls[0].args) and \
                    any(k.arg is None and is_name(k.value, "kwargs") for k in calls[0].keywords)
                cx.ob("R15f", f, ok, f"{q} forwards its filters to the SqlMethod" if ok else f"{q} does not forward *args/**kwargs to the SqlMethod")


def _factory(cx, factory):
    rets = sorted([r for r in walk_local(factory) if isinstance(r, ast.Return)], key=lambda r: r.lineno)
    n3 = n2 = False
    for st in walk_local(factory):
        if isinstance(st, ast.Assign) and isinstance(st.targets[0], ast.Tuple) and is_name(st.value, params(factory)[1]):
            names = [e.id for e in st.targets[0].elts]
            # the length established on the way to the unpacking, however the comparison is spelled (== / not != / mirrored)
            n = next((int(x) for k, a, b, pol in sorted(canon_facts(st)) if k == "==" and pol for x in (a, b) if x.isdigit()), None)
            if len(names) == 3:
                n3 = True
                ok = n == 3
                cx.ob("R15f", st, ok, "3-tuple is (field, operator, value)" if ok else "3-element unpacking not guarded by len == 3")
                slots3 = names
            elif len(names) == 2:
                n2 = True
                ok = n == 2
                cx.ob("R15f", st, ok, "2-tuple is (field, value)" if ok else "2-element unpacking not guarded by len == 2")
                # op must be '=' in that branch
                blk = parent(st)
                eqs = [s for s in walk_local(factory) if isinstance(s, ast.Assign) and const(s.value, str) and any(is_name(t) for t in s.targets)]
                ok2 = any(s.value.value == "=" for s in eqs)
                cx.ob("R15f", st, ok2, "(field, value) means equality" if ok2 else "(field, value) is not turned into '='", stmt=norm(st) + " [op]")
    cx.need(n3 and n2, "R15f", factory, "tuple unpacking idiom of the factory not recognised")
    # the three slots are bound by the unpacking only (plus the constant operator of the 2-tuple form): nothing may turn a
    # value into an operator / field text or replace the value on the way to the constructor
    for st in walk_local(factory):
        tgts = []
        if isinstance(st, ast.Assign):
            for t in st.targets:
                tgts += [x.id for x in ast.walk(t) if isinstance(x, ast.Name)]
        elif isinstance(st, (ast.AugAssign, ast.AnnAssign)) and isinstance(st.target, ast.Name):
            tgts = [st.target.id]
        hit = [t for t in tgts if t in slots3]
        if not hit:
            continue
        if isinstance(st, ast.Assign) and isinstance(st.targets[0], ast.Tuple) and is_name(st.value, params(factory)[1]):
            continue
        if isinstance(st, ast.Assign) and len(st.targets) == 1 and is_name(st.targets[0], slots3[1]) and const(st.value, str):
            continue
        uses_value = slots3[2] in names_in(st.value) if getattr(st, "value", None) is not None else False
        cx.ob("R15f", st, False, f"`{norm(st)[:70]}` re-binds {hit} between unpacking and the constructor" +
              (": an operator / field text is computed from a condition value, which then becomes part of the SQL text instead of a bound parameter" if uses_value and slots3[2] not in hit[:1] or uses_value and len(hit) > 1 else ""))
    last = rets[-1]
    ok = isinstance(last.value, ast.Call) and call_name(last.value) == "SqlFieldValCondition" and len(last.value.args) == 3 and \
        [norm(a) for a in last.value.args][0] == slots3[0] and norm(last.value.args[2]) == slots3[2] and norm(last.value.args[1]) == slots3[1]
    cx.ob("R15f", last, ok, "factory passes (field, operator, value) in constructor order" if ok else "factory passes the tuple slots in another order")
    # static string -> SqlFieldValCondition(None, text, None)
    st_ret = [r for r in rets if isinstance(r.value, ast.Call) and call_name(r.value) == "SqlFieldValCondition" and const(r.value.args[0]) and r.value.args[0].value is None]
    ok = len(st_ret) == 1 and const(st_ret[0].value.args[2]) and st_ret[0].value.args[2].value is None and \
        any(call_name(e) == "isinstance" and pol and is_name(e.args[1], "str") for e, pol in facts(st_ret[0]) if isinstance(e, ast.Call))
    cx.ob("R15f", st_ret[0] if st_ret else factory, ok, "a bare string is a static condition without value" if ok else "static-condition branch altered")


def _normalisation(cx, init, make, tables):
    """R15e + R15b by finite abstract interpretation."""
    # class-level constant tables of the condition class (operator lists / maps), by the texts they are read through
    consts = {}
    owner_ = enclosing(init, (ast.ClassDef,))
    for st_ in (owner_.body if owner_ is not None else []):
        if isinstance(st_, ast.Assign) and len(st_.targets) == 1 and isinstance(st_.targets[0], ast.Name) and st_.targets[0].id not in ("_SQL_CLAUSES",):
            try:
                v_ = literal(st_.value, cx.repo.modules[REL])
            except Exception:
                continue
            if isinstance(v_, (list, tuple, set, frozenset, dict)):
                for pre in ("self", "cls", owner_.name):
                    consts[f"{pre}.{st_.targets[0].id}"] = v_
    it = Interp(record_calls=("append", "extend", "insert"), consts=consts)
    n_cases = 0
    kinds = [("none", None), ("list", False), ("list", True), ("tuple", False), ("tuple", True), ("set", False), ("set", True),
             ("str", False), ("str", True), ("int", None), ("other", None)]
    ops = OPS + ["like", "in", "is null", "BETWEEN", "<>"]
    p_init = params(init)
    cx.need(p_init[1:] == ["field_name", "op", "value"], "R15e", init, f"constructor parameters changed: {p_init}")
    # private helpers of the two methods are expanded in place (validation / normalisation moved into a helper)
    from sa.inline import inlined
    init, _u1 = inlined(cx.repo.modules[REL], init, nested=True)
    make, _u2 = inlined(cx.repo.modules[REL], make, nested=True)
    if _u1 or _u2:
        cx.note(f"R15e: constructor / renderer interpreted with {sorted(set(_u1) | set(_u2))} expanded in place")
    # the local that holds the clause row of the requested style, whatever it is called
    row_defs = [st_.targets[0].id for st_ in walk_local(make) if isinstance(st_, ast.Assign) and len(st_.targets) == 1 and isinstance(st_.targets[0], ast.Name)
                and norm(st_.value) == "self._SQL_CLAUSES[placeholders_type]"]
    row_name = row_defs[0] if len(row_defs) == 1 else "sql_clauses"
    for op in ops:
        for kind, empty in kinds:
            n_cases += 1
            label = f"({op!r}, {kind}{'' if empty is None else ' empty' if empty else ' non-empty'})"
            val = K(kind, empty)
            env = {"field_name": S((("field",),)), "op": C(op), "value": val}
            outs = it.run(init.body, env)
            U = op.upper()
            # ---- oracle
            if U in ("=", "!="):
                if kind == "none":
                    want = ("op", "IS NULL" if U == "=" else "IS NOT NULL")
                elif kind in COLLECTIONS:
                    want = ("op", "IN" if U == "=" else "NOT IN")
                else:
                    want = ("op", U)
            elif U in ("IN", "NOT IN"):
                want = ("op", U) if kind in COLLECTIONS else ("raise", "ValueError")
            elif U in ("IS NULL", "IS NOT NULL"):
                want = ("op", U) if kind == "none" else ("raise", "ValueError")
            elif U in ("LIKE", "NOT LIKE"):
                want = ("op", U) if kind == "str" else ("raise", "ValueError")
            elif U in (">", "<", ">=", "<="):
                want = ("op", U)
            else:
                want = ("raise", "ValueError")
            got = set()
            finals = []
            for o in outs:
                if o.how == "raise":
                    got.add(("raise", o.value))
                else:
                    fo = o.env.get("self.op")
                    if not isinstance(fo, C):
                        # the interpreter lost the operator (a call it does not follow, a table it cannot fold): no verdict
                        raise AnalysisError("R15e", f"{REL}::SqlFieldValCondition.__init__", f"{label}: the stored operator is not determined ({fo!r})")
                    got.add(("op", fo.v))
                    finals.append(o.env)
            ok = got == {want}
            cx.ob("R15e", init, ok, f"{label} -> {want[1]}" if ok else f"{label}: constructor gives {sorted(got)}, the property needs {want}",
                  stmt=f"normalise {label}")
            if not ok or want[0] == "raise":
                continue
            # ---- emission
            for fenv in finals:
                env2 = {"self.field_name": S((("field",),)), "self.op": fenv["self.op"], "self.value": fenv.get("self.value", val),
                        "values_list": K("list", None, "vl"), "placeholders_type": C(0)}
                sv = env2["self.value"]
                if not (isinstance(sv, K) and sv.kind == kind):
                    cx.ob("R15e", init, False, f"{label}: stored value is {sv!r}, not the given value", stmt=f"stored value {label}")
                    continue
                outs2 = it.run(make.body, env2)
                fop = fenv["self.op"].v
                for o in outs2:
                    n_cases += 1
                    if o.how != "return":
                        cx.ob("R15e", make, False, f"{label}: emission ends with {o.how} {o.value}", stmt=f"emit {label}")
                        continue
                    events = [e for e in o.env.get("@events", ()) if e[0] == "values_list"]
                    text = _canon_row(o.value, row_name)
                    if not isinstance(text, (C, S)):
                        # the interpreter lost the emitted text (a call it does not follow): no verdict
                        raise AnalysisError("R15e", f"{REL}::SqlFieldValCondition.make_text_update_values", f"{label}: the emitted text is not determined ({text!r})")
                    if fop in ("IN", "NOT IN"):
                        if empty:
                            wtext = C("0" if fop == "IN" else "1")
                            ok = text == wtext and not events
                            why = f"empty {fop} -> constant {'false' if fop == 'IN' else 'true'}, nothing bound"
                        else:
                            ok = _is_in_clause(text, fop) and len(events) == 1 and events[0][1] == "extend" and events[0][3] == ("self.value",)
                            why = f"{fop} (...) with one placeholder per element of the same collection that is bound"
                    elif fop in ("IS NULL", "IS NOT NULL"):
                        ok = text == S((("field",), ("sub", "sql_clauses", fop))) and not events
                        why = f"field {fop}, nothing bound"
                    else:
                        ok = text == S((("field",), ("sub", "sql_clauses", fop))) and len(events) == 1 and events[0][1] == "append" and events[0][3] == ("self.value",)
                        why = f"field {fop} <placeholder>, exactly the value bound"
                    n_ph = _count_placeholders(text, tables)
                    n_bound = sum(1 for e in events if e[1] == "append") + (0 if not any(e[1] == "extend" for e in events) else None or 0)
                    cx.ob("R15e", make, ok, f"{label} -> {why}" if ok else f"{label}: emitted {text!r} with bound {[(e[1], e[3]) for e in events]}; expected {why}",
                          stmt=f"emit {label}")
                    # R15b: generic pairing, independent of the oracle shapes
                    pb = _pairing(text, events, tables)
                    cx.ob("R15b", make, pb[0], f"{label}: {pb[1]}", stmt=f"pairing {label}")
    cx.counts["R15e:abstract cases"] = n_cases
    cx.counts["finite_interpreter_steps"] = it.steps
    # sql_clauses is the table row of the requested style
    d = [v for _, v in assignments(make, row_name)]
    ok = len(d) == 1 and norm(d[0]) == "self._SQL_CLAUSES[placeholders_type]"
    cx.ob("R15b", make, ok, "clause row is selected by the placeholder style" if ok else "sql_clauses is not self._SQL_CLAUSES[placeholders_type]", stmt="sql_clauses")
    # static conditions: text is the given string, nothing bound
    env = {"field_name": C(None), "op": C("a.id = b.id"), "value": C(None)}
    for o in it.run(init.body, env):
        if o.how != "fall" and not (o.how == "return" and isinstance(o.value, C) and o.value.v is None):       # an early bare `return` is a normal end
            cx.ob("R15e", init, False, f"static condition ends with {o.how} {o.value}", stmt="static condition")
            continue
        env2 = {"self.field_name": C(None), "self.op": o.env["self.op"], "self.value": C(None), "values_list": K("list", None, "vl"), "placeholders_type": C(0)}
        for o2 in it.run(make.body, env2):
            ok = o2.how == "return" and isinstance(o2.value, C) and o2.value.v.strip() == "a.id = b.id" and not o2.env.get("@events")
            cx.ob("R15e", make, ok, "static condition: the given text, nothing bound" if ok else f"static condition emits {o2.value!r}", stmt="static condition")


def _canon_row(v, row_name):
    """symbolic texts mention the clause-row local by name: read it as `sql_clauses`"""
    if row_name == "sql_clauses":
        return v

    def part(p_):
        if isinstance(p_, tuple):
            if len(p_) == 3 and p_[0] == "sub" and p_[1] == row_name:
                return ("sub", "sql_clauses", p_[2])
            return tuple(part(x_) for x_ in p_)
        if isinstance(p_, S):
            return S(tuple(part(x_) for x_ in p_.parts))
        return p_
    return part(v) if isinstance(v, S) else v


def _is_in_clause(text, fop):
    if not isinstance(text, S):
        return False
    p = text.parts
    if len(p) != 5 or p[0] != ("field",) or p[1] != ("sub", "sql_clauses", fop) or p[2] != "(" or p[4] != ")":
        return False
    j = p[3]
    return isinstance(j, tuple) and j[0] == "join" and j[1] == ", " and j[2] == S((("sub", "sql_clauses", "PLACEHOLDER"),)) and j[3] == "self.value" and j[4] == ()


def _count_placeholders(text, tables):
    return None


def _pairing(text, events, tables):
    """#placeholders in text == #values bound, for both styles."""
    if isinstance(text, C):
        n = 0 if isinstance(text.v, str) and not any(t["PLACEHOLDER"] in text.v for t in tables.values()) else 1
        return (n == 0 and not events, "constant text, nothing bound" if n == 0 and not events else "constant text with placeholder or bound values")
    if not isinstance(text, S):
        return (False, f"text {text!r} not understood")
    for style, t in tables.items():
        tok = t["PLACEHOLDER"]
        fixed = 0
        per_elem = []
        for part in text.parts:
            if isinstance(part, str):
                fixed += part.count(tok)
            elif part[0] == "sub" and part[1] == "sql_clauses":
                if part[2] not in t:
                    return (False, f"clause key {part[2]!r} missing in style {style}")
                fixed += t[part[2]].count(tok)
            elif part[0] == "join":
                elt = part[2]
                k = 0
                if isinstance(elt, S):
                    for q in elt.parts:
                        if isinstance(q, str):
                            k += q.count(tok)
                        elif q[0] == "sub" and q[1] == "sql_clauses" and q[2] in t:
                            k += t[q[2]].count(tok)
                per_elem.append((k, part[3], part[4]))
            elif part[0] == "field":
                pass
            else:
                return (False, f"text part {part!r} not understood")
        appends = sum(1 for e in events if e[1] == "append")
        extends = [e[3][0] for e in events if e[1] == "extend"]
        if fixed != appends:
            return (False, f"style {style}: {fixed} fixed placeholder(s) but {appends} value(s) appended")
        if sorted(src for k, src, ifs in per_elem if k) != sorted(extends) or any(k != 1 or ifs for k, src, ifs in per_elem):
            return (False, f"style {style}: per-element placeholders over {[(k, s) for k, s, _ in per_elem]} but extend over {extends}")
    return (True, "placeholders and bound values are paired")


def _condition_sources(cx, repo, f, who, none_filter):
    from sa.inline import inlined
    from sa.guards import split
    fi, used = inlined(repo.modules[REL], f, nested=True)
    a = fi.args
    names_ = [x.arg for x in a.args]
    va = a.vararg.arg if a.vararg is not None else ("args" if "args" in names_ else None)
    kw = a.kwarg.arg if a.kwarg is not None else ("kwargs" if "kwargs" in names_ else None)
    cx.need(va is not None and kw is not None, "R15f", f, f"{who}: args / kwargs parameters expected")

    class Und(Exception):
        pass
    # consumer: the comprehension / loop whose element is make(<target>)
    consumers = []
    for n in walk_local(fi):
        if isinstance(n, (ast.ListComp, ast.GeneratorExp)) and len(n.generators) == 1 and isinstance(n.elt, ast.Call) and call_name(n.elt) == "make" \
                and len(n.elt.args) == 1 and norm(n.elt.args[0]) == norm(n.generators[0].target):
            consumers.append(n)
    cx.need(len(consumers) == 1, "R15f", f, f"{who}: one `make(x) for x in <conditions>` expected, {len(consumers)} found")
    cons = consumers[0]
    g = cons.generators[0]
    filt = [norm(i) for i in g.ifs]
    t = norm(g.target)
    if none_filter:
        ok = filt == [f"{t} is not None"]
        cx.ob("R15f", cons, ok, "every non-None argument becomes a condition, None is dropped, order kept" if ok else
              (f"arguments are filtered by {filt}: not exactly `is not None`" if filt else "None arguments are not dropped"), stmt="filters [None]")
    else:
        cx.ob("R15f", cons, not filt, "every operand becomes a condition" if not filt else f"operands are filtered by {filt}", stmt="operands [filter]")
    cons_stmt = enclosing_stmt(cons)
    results = {}
    for kw_empty in (True, False):
        env = {va: ["ARGS"]}

        def seq(e):
            if isinstance(e, ast.Name):
                if e.id in env:
                    return list(env[e.id])
                raise Und(f"value of {e.id}")
            tx = norm(e)
            if tx in (f"sorted({kw}.items())", f"{kw}.items()", f"list({kw}.items())", f"list(sorted({kw}.items()))", f"tuple({kw}.items())", f"tuple(sorted({kw}.items()))"):
                return [] if kw_empty else ["KW"]
            if isinstance(e, ast.Call) and isinstance(e.func, ast.Name) and e.func.id in ("list", "tuple") and len(e.args) == 1:
                return seq(e.args[0])
            if isinstance(e, ast.Call) and isinstance(e.func, ast.Name) and e.func.id in ("list", "tuple") and not e.args:
                return []
            if isinstance(e, (ast.List, ast.Tuple)):
                out = []
                for x in e.elts:
                    if not isinstance(x, ast.Starred):
                        raise Und(f"element {norm(x)}")
                    out += seq(x.value)
                return out
            if isinstance(e, ast.BinOp) and isinstance(e.op, ast.Add):
                return seq(e.left) + seq(e.right)
            if isinstance(e, ast.IfExp):
                tv = truth(e.test)
                return seq(e.body if tv else e.orelse)
            if isinstance(e, ast.Call) and call_name(e) == "chain" and not e.keywords:
                out = []
                for x in e.args:
                    out += seq(x)
                return out
            raise Und(f"sequence `{tx[:60]}`")

        def truth(tst):
            tx = norm(tst)
            if tx == kw:
                return not kw_empty
            if tx == f"not {kw}":
                return kw_empty
            if tx in (f"len({kw}) > 0", f"len({kw}) != 0"):
                return not kw_empty
            raise Und(f"test `{tx[:60]}`")

        def run(stmts):
            for st in stmts:
                if st is cons_stmt:
                    return True
                if isinstance(st, ast.If):
                    touches = any((isinstance(x, ast.Name) and x.id in env and isinstance(x.ctx, ast.Store)) or
                                  (isinstance(x, ast.Call) and isinstance(x.func, ast.Attribute) and isinstance(x.func.value, ast.Name) and x.func.value.id in env
                                   and x.func.attr in ("extend", "append", "insert", "pop", "remove", "clear", "sort", "reverse")) for x in ast.walk(st))
                    inside = any(x is cons_stmt for x in ast.walk(st))
                    try:
                        tv = truth(st.test)
                    except Und:
                        if not touches and not inside:
                            continue
                        raise
                    if run(st.body if tv else st.orelse):
                        return True
                    continue
                if isinstance(st, ast.Assign) and len(st.targets) == 1 and isinstance(st.targets[0], ast.Name):
                    nm = st.targets[0].id
                    try:
                        env[nm] = seq(st.value)
                    except Und:
                        if nm in env:
                            raise
                    continue
                if isinstance(st, ast.Expr) and isinstance(st.value, ast.Call) and isinstance(st.value.func, ast.Attribute) and isinstance(st.value.func.value, ast.Name) \
                        and st.value.func.value.id in env:
                    m = st.value.func.attr
                    if m == "extend" and len(st.value.args) == 1:
                        env[st.value.func.value.id] += seq(st.value.args[0])
                        continue
                    raise Und(f"`{norm(st)[:60]}`")
                if any(isinstance(x, ast.Name) and x.id in env and isinstance(x.ctx, (ast.Store, ast.Del)) for x in ast.walk(st)):
                    raise Und(f"`{norm(st)[:60]}`")
            return False
        try:
            reached = run(fi.body)
            cx.need(reached, "R15f", f, f"{who}: the conditions are not built on the straight path of the function")
            results[kw_empty] = seq(g.iter)
        except Und as e:
            raise AnalysisError("R15f", f"{REL}::{who}", f"source of the conditions not followed ({e})")
    ok_empty = results[True] == ["ARGS"]
    ok_full = sorted(results[False]) == ["ARGS", "KW"]
    cx.ob("R15f", cons, ok_empty and ok_full, f"{who}: conditions = positional arguments + (name, value) items of the keyword arguments" if ok_empty and ok_full else
          f"{who}: conditions are built from {results[False]} (keyword arguments given) / {results[True]} (none given): " +
          ("kwargs are not turned into (name, value) pairs" if "KW" not in results[False] else "positional arguments lost" if "ARGS" not in results[False] else "a source is used twice"),
          stmt=f"{who}: condition sources")
