"""C02 — conflict-free (LL(1)) grammars are parsed exactly: the set computations generate the textbook constraints."""
import ast

from sa.core import (AnalysisError, FUNC, assignments, call_name, class_attr, const, dotted, enclosing, enclosing_func,
                     enclosing_stmt, is_attr, is_name, is_self_attr, literal, norm, params, parent, walk_local, names_in, ancestors)
from sa.guards import canon_test, facts, split, enclosing_loops, in_loop_orelse
from sa.cfg import CFG

PROP = "C02"
REL = "ak/llparser.py"
EXPLANATION = (
    "The nullable / FIRST / FOLLOW / predict-table computations are textbook dataflow equations; what is decided statically is "
    "that the code generates exactly the textbook constraints (Aho-Ullman), by CFG path rules on the four sibling 'walk a "
    "production until the first non-nullable symbol' loops plus guard / def-use rules. For each walk: (w1) every path that goes "
    "on to the next symbol has established that the current one is nullable; (w2) every path through an iteration merges the "
    "current symbol's contribution before leaving it; (w3) terminals contribute themselves, non-terminals their FIRST set, into "
    "the right target; (w4) the all-nullable continuation (for-else) uses FOLLOW of / a dependency on the *owner* of the "
    "production, i.e. the iteration variable of the loop over the grammar. R02a nullable fixpoint; R02b FIRST; R02c FOLLOW incl. "
    "that the only FOLLOW-inclusion edges are (symbol in all-nullable tail) <- owner and that $END$ seeds the start symbol; R02d "
    "table entries and priority order; R02e writer / reader key agreement; R02f ambiguity report. That the accepted language "
    "equals the grammar's language is not decided."
)










def run(cx):
    cx.guard(common_prefix_rule, cx, "R02g")
    repo = cx.repo
    for r, t in (("R02a", "nullable set: least fixpoint of 'some production has only nullable symbols'"),
                 ("R02b", "FIRST constraints"),
                 ("R02c", "FOLLOW constraints (immediate follows, inclusion edges only from the owner, $END$ seed, closure)"),
                 ("R02d", "predict table = FIRST of the nullable-prefix walk, plus FOLLOW(owner) when all nullable; alternatives in priority order"),
                 ("R02e", "table writer and reader use the same (symbol, token) key"),
                 ("R02f", "ambiguity report: some entry has more or fewer than one alternative"),
                 ("R02g", "factorisation keeps the language: the factored prefix is common to all alternatives of the group")):
        cx.rule(r, t)
    nul = cx.func(REL, "LLParser._get_nullables", "R02a")
    first = cx.func(REL, "LLParser._calc_first_sets", "R02b")
    follow = cx.func(REL, "LLParser._calc_follow_sets", "R02c")
    table = cx.func(REL, "LLParser._make_llone_table", "R02d")
    parse = cx.func(REL, "LLParser.parse", "R02e")
    amb = cx.func(REL, "LLParser.is_ambiguous", "R02f")

    # ------------------------------------------------------------------ R02a
    adds = [c for c in walk_local(nul) if isinstance(c, ast.Call) and call_name(c) == "add" and len(c.args) == 1]
    cx.need(len(adds) == 1, "R02a", nul, "one `set.add(symbol)` site expected")
    a = adds[0]
    tgt = norm(a.func.value)
    sym = norm(a.args[0])
    fs = facts(a)
    just = None
    for e, pol in fs:
        if pol and isinstance(e, ast.Call) and call_name(e) == "any" and isinstance(e.args[0], ast.GeneratorExp):
            inner = e.args[0].elt
            if isinstance(inner, ast.Call) and call_name(inner) == "all" and isinstance(inner.args[0], ast.GeneratorExp):
                g2 = inner.args[0]
                mem = g2.elt
                if isinstance(mem, ast.Compare) and isinstance(mem.ops[0], ast.In) and norm(mem.left) == norm(g2.generators[0].target) and not g2.generators[0].ifs \
                        and norm(g2.generators[0].iter).endswith(".production") and not e.args[0].generators[0].ifs:
                    just = (norm(mem.comparators[0]), norm(e.args[0].generators[0].iter))
    cx.ob("R02a", a, just is not None, "a symbol becomes nullable only if all symbols of some production are nullable" if just else
          "a symbol is added to the nullable set without `any(all(s in <nullable> for s in production) for production in ...)`")
    loops = [l for l in walk_local(nul) if isinstance(l, ast.For) and norm(l.iter).endswith(".items()")]
    ok = len(loops) == 1 and just is not None and just[1] == norm(loops[0].target.elts[1]) and sym == norm(loops[0].target.elts[0])
    cx.ob("R02a", loops[0] if loops else nul, ok, "every symbol of the grammar is examined with its own productions" if ok else "nullable loop does not pair each symbol with its own productions")
    wh = [w for w in nul.body if isinstance(w, ast.While)]
    ok = len(wh) == 1 and isinstance(wh[0].test, ast.Compare) and isinstance(wh[0].test.ops[0], ast.NotEq) and "len(" in norm(wh[0].test)
    cx.ob("R02a", wh[0] if wh else nul, ok, "rounds repeat until the set stops growing" if ok else "nullable iteration does not run until two consecutive rounds have the same size")
    if wh and just:
        w = wh[0]
        # the set read by the justification is the previous round's set; new members go to the other one; they are swapped / merged each round
        swap = any(isinstance(s, ast.Assign) and isinstance(s.targets[0], ast.Tuple) and {norm(x) for x in s.targets[0].elts} == {just[0], tgt} for s in w.body)
        carry = any(isinstance(s, ast.Expr) and norm(s.value) == f"{tgt}.update({just[0]})" for s in w.body)
        cx.ob("R02a", w, swap and carry, "each round starts from everything found so far" if swap and carry else "rounds do not accumulate (update + swap of the two sets altered)", stmt="while: accumulation")
    rets = [r for r in walk_local(nul) if isinstance(r, ast.Return)]
    rm = [c for c in walk_local(nul) if isinstance(c, ast.Call) and call_name(c) == "remove" and norm(c.args[0]) == "None"]
    ok = len(rets) == 1 and just is not None and norm(rets[0].value) in (just[0], tgt) and len(rm) == 1 and norm(rm[0].func.value) == norm(rets[0].value)
    cx.ob("R02a", rets[0] if rets else nul, ok, "the empty-production marker None is removed and the fixpoint set returned" if ok else "returned nullable set / removal of the None marker altered")

    # ------------------------------------------------------------------ R02b
    # the three builders are analysed with their private helpers expanded in place
    from sa.inline import inlined as _inl
    first, _u1 = _inl(repo.modules[REL], first, nested=True, tests=True)
    follow, _u2 = _inl(repo.modules[REL], follow, nested=True, exclude=("_calc_first_sets",))
    if _u1 or _u2:
        cx.note(f"R02b/c: expanded in place: {_u1 + _u2}")
    nullables = params(first)[-1]
    terminals = params(first)[2]
    owner_loops = [l for l in walk_local(first) if isinstance(l, ast.For) and norm(l.iter).endswith(".items()") and isinstance(l.target, ast.Tuple) and len(l.target.elts) == 2]
    cx.need(len(owner_loops) == 1, "R02b", first, "loop over the FIRST sets")
    owner_loop = owner_loops[0]
    owner, owner_set = norm(owner_loop.target.elts[0]), norm(owner_loop.target.elts[1])
    fsets = norm(owner_loop.iter)[: -len(".items()")]
    from sa import walks as _walks
    try:
        wk1 = _walks.locate(first, repo.modules[REL], lambda t: t.endswith(".production"), within=owner_loop)
        summ1 = _walks.summarize(wk1["loop"], {"terminals": {terminals}, "nullables": {nullables}}, wk1["rename"])
    except _walks.Unknown as e:
        raise AnalysisError("R02b", f"{REL}::_calc_first_sets", f"FIRST walk not recognised ({e})")
    w = wk1["loop"]
    s = norm(w.target)
    # the accumulator may be spelled as the loop's set variable or as FIRST[owner]
    for alt in (f"{fsets}[{owner}]",):
        for k_, ps_ in summ1.per_class.items():
            if ps_:
                summ1.per_class[k_] = [_walks.Path([(e[0], owner_set if e[1] == alt else e[1], e[2]) for e in p_.effects], p_.how,
                                                   [((c[0].replace(alt, owner_set)), c[1]) for c in p_.conds], p_.value) for p_ in ps_]
        summ1.exhausted = tuple((e[0], owner_set if e[1] == alt else e[1], e[2]) for e in summ1.exhausted)
        summ1.after_break = tuple((e[0], owner_set if e[1] == alt else e[1], e[2]) for e in summ1.after_break)
    check_walk(cx, "R02b", "FIRST", summ1, owner_set,
               {"T": ([("add", owner_set, "<sym>")], "stop"), "NN": ([("merge", owner_set, f"{fsets}[<sym>]")], "next"), "NX": ([("merge", owner_set, f"{fsets}[<sym>]")], "stop"),
                "NONE": ([], "next")},
               [], none_may_occur=False)
    ok = norm(w.iter) in (f"prod_r.production",) or norm(w.iter).endswith(".production")
    pl = [l for l in enclosing_loops(w) if isinstance(l, ast.For) and l is not owner_loop]
    ok = ok and len(pl) == 1 and norm(pl[0].iter) in (f"{params(first)[1]}[{owner}]",)
    cx.ob("R02b", w, ok, "all productions of the owner are walked" if ok else "FIRST does not walk every production of the owning symbol", stmt="FIRST walk: productions")
    cx.guard(_fixpoint_loop, cx, "R02b", first, owner_loop, "FIRST")

    # ------------------------------------------------------------------ R02c
    nullables = params(follow)[3]
    terminals = params(follow)[2]
    fsets_p = params(follow)[4]
    start_p = params(follow)[5]
    own_loops = [l for l in follow.body if isinstance(l, ast.For) and ".items()" in norm(l.iter)]
    cx.need(len(own_loops) >= 1, "R02c", follow, "loop over the grammar")
    ol = own_loops[0]
    owner = norm(ol.target.elts[0])
    import re as _re
    pos_loops = [l for l in ast.walk(ol) if isinstance(l, ast.For) and call_name(l.iter) == "enumerate" and norm(l.iter).endswith(".production)")]
    cx.need(len(pos_loops) == 1 and isinstance(pos_loops[0].target, ast.Tuple) and len(pos_loops[0].target.elts) == 2, "R02c", follow, "enumerate loop over the production")
    pos_loop = pos_loops[0]
    idx, cur = norm(pos_loop.target.elts[0]), norm(pos_loop.target.elts[1])
    tail_pat = _re.compile(r".*\.production\[" + _re.escape(idx) + r" ?\+ ?1:\]$")
    from sa import walks
    try:
        wk = walks.locate(follow, repo.modules[REL], lambda t: bool(_re.search(r"\.production\[.*:.*\]$", t)), within=pos_loop)
        summ = walks.summarize(wk["loop"], {"terminals": {terminals}, "nullables": {nullables}}, wk["rename"])
        if wk["call"] is not None and wk["target"] is None:
            walks.attach_caller_branch(summ, wk["call"])
    except walks.Unknown as e:
        raise AnalysisError("R02c", f"{REL}::_calc_follow_sets", f"walk over the symbols following the current one not recognised ({e})")
    iw = wk["loop"]
    it_txt = walks._rn(norm(iw.iter), None, wk["rename"]) if wk["call"] is not None else norm(iw.iter)
    ok = bool(tail_pat.match(it_txt.replace("  ", " ")))
    cx.ob("R02c", iw, ok, "the walk covers exactly the symbols after the current one" if ok else f"FOLLOW walk iterates {it_txt}")
    acc = f"follow_sets[{cur}]"
    deps_recv = f"follows_deps[{cur}]"
    check_walk(cx, "R02c", "FOLLOW", summ, acc,
               {"T": ([("add", acc, "<sym>")], "stop"), "NN": ([("merge", acc, f"{fsets_p}[<sym>]")], "next"), "NX": ([("merge", acc, f"{fsets_p}[<sym>]")], "stop"),
                "NONE": ([], "next")},
               [], none_may_occur=False)
    # terminals have no FOLLOW: skipped
    sk = any(isinstance(s, ast.If) and norm(s.test) == f"{cur} in {terminals}" and any(isinstance(x, ast.Continue) for x in s.body) for s in pos_loop.body)
    cx.ob("R02c", pos_loop, sk, "terminals are skipped as current symbol" if sk else "terminal symbols are not skipped in the FOLLOW position loop", stmt="FOLLOW: skip terminals")
    # inclusion edges FOLLOW(symbol) >= FOLLOW(owner): recorded exactly when the walk ran to its end
    def _dep(effs):
        return [e for e in effs if e[1].startswith("follows_deps[")]
    dep_sites = [c for c in ast.walk(follow) if isinstance(c, ast.Call) and call_name(c) in ("add", "update") and norm(c.func.value).startswith("follows_deps[")]
    ex_dep = _dep(summ.exhausted)
    cx.ob("R02c", iw, bool(ex_dep), "the all-nullable continuation records FOLLOW(symbol) >= FOLLOW(owner)" if ex_dep else
          "no FOLLOW-inclusion edge is recorded when everything after a symbol is nullable: FOLLOW sets are too small and table entries are missing", stmt="FOLLOW walk: tail edge")
    early = [e for ps_ in summ.per_class.values() if ps_ for p_ in ps_ for e in _dep(p_.effects)] + ([] if not any(p_.how == "break" for ps_ in summ.per_class.values() if ps_ for p_ in ps_) else _dep(summ.after_break))
    cx.need(not any(e[0].startswith("nested:") for e in ex_dep + early), "R02c", follow, "an inclusion edge is recorded under a condition that is not resolved")
    for e in ex_dep:
        ok = e == ("add", deps_recv, owner)
        cx.ob("R02c", iw, ok, "FOLLOW(owner) flows into FOLLOW(symbol) only when everything after the symbol is nullable" if ok else
              (f"inclusion edge {e[1]} <- {e[2]} is not justified: the source must be the owner of the production "
               f"('{owner}') and the target the current symbol; a sibling's FOLLOW over-approximates and makes LL(1) grammars look ambiguous"), stmt=f"edge {e[1]} <- {e[2]}")
    for e in early:
        cx.ob("R02c", iw, False, f"inclusion edge {e[1]} <- {e[2]} is recorded although a non-nullable symbol follows: FOLLOW sets too large (LL(1) grammars look ambiguous)", stmt=f"early edge {e[1]} <- {e[2]}")
    accounted = len(ex_dep) + len(early)
    cx.need(len(dep_sites) == len({(e[1], e[2]) for e in ex_dep + early}) or len(dep_sites) == accounted, "R02c", follow,
            f"{len(dep_sites)} site(s) record FOLLOW inclusion edges, {accounted} of them explained by the walk")
    # $END$ seed
    seeds = [c for c in walk_local(follow) if isinstance(c, ast.Call) and call_name(c) == "add" and norm(c.func.value) == f"follow_sets[{start_p}]"]
    ok = len(seeds) == 1 and norm(seeds[0].args[0]).endswith("_END_TOKEN_NAME") and parent(enclosing_stmt(seeds[0])) is follow
    cx.ob("R02c", seeds[0] if seeds else follow, ok, "$END$ follows the start symbol" if ok else "FOLLOW(start) is not seeded with the end token")
    # closure
    cl = [w for w in follow.body if isinstance(w, ast.While)]
    ok = len(cl) == 1
    if ok:
        w = cl[0]
        ups = [c for c in ast.walk(w) if isinstance(c, ast.Call) and call_name(c) == "update"]
        lp = [l for l in w.body if isinstance(l, ast.For) and norm(l.iter) == "follows_deps.items()"]
        ok = len(ups) == 1 and len(lp) == 1 and norm(ups[0].args[0]).startswith("follow_sets[")
        verdict, flag, why = change_flag_loop(w)
        if verdict == "unknown":
            raise AnalysisError("R02c", f"{REL}::_calc_follow_sets", f"FOLLOW closure loop not recognised ({why})")
        if verdict == "refuted":
            cx.ob("R02c", w, False, f"FOLLOW closure does not run to a fixpoint: {why}", stmt="FOLLOW closure fixpoint")
        if ok and verdict == "ok":
            # the flag must record growth of the set that was updated
            grows = [st for st in ast.walk(w) if (isinstance(st, (ast.Assign, ast.AugAssign)) and flag in {x.id for x in ast.walk(st) if isinstance(x, ast.Name) and isinstance(x.ctx, ast.Store)})
                     and not (isinstance(st, ast.Assign) and const(st.value, bool) and st.value.value is False)]
            ok = all(any(isinstance(c, ast.Compare) for c in ast.walk(st)) or any(isinstance(c, ast.Compare) for e, pol in facts(st) for c in ast.walk(e)) for st in grows)
        if ok:
            symv, depv = norm(lp[0].target.elts[0]), norm(lp[0].target.elts[1])
            recv = norm(ups[0].func.value)
            rd = [norm(v) for _, v in assignments(follow, recv) if v is not None] if recv.isidentifier() else [recv]
            inner = next((l for l in lp[0].body if isinstance(l, ast.For)), None)
            ok = rd == [f"follow_sets[{symv}]"] and inner is not None and norm(inner.iter) == depv and norm(ups[0].args[0]) == f"follow_sets[{norm(inner.target)}]"
    cx.ob("R02c", cl[0] if cl else follow, ok, "inclusion edges are closed to a fixpoint: FOLLOW(sym) absorbs FOLLOW(dep) for every edge until nothing changes" if ok else "FOLLOW closure loop altered")
    rets = [r for r in walk_local(follow) if isinstance(r, ast.Return)]
    cx.ob("R02c", rets[0] if rets else follow, len(rets) == 1 and norm(rets[0].value) == "follow_sets", "the closed FOLLOW sets are returned" if rets else "no return")

    # ------------------------------------------------------------------ R02d
    nullables = params(table)[3]
    terminals = params(table)[2]
    ol = next((l for l in table.body if isinstance(l, ast.For) and ".items()" in norm(l.iter)), None)
    cx.need(ol is not None, "R02d", table, "loop over the grammar")
    owner = norm(ol.target.elts[0])
    from sa import walks
    try:
        wk = walks.locate(table, repo.modules[REL], lambda t: t.endswith(".production"), within=ol)
        apps0 = [c for c in ast.walk(ol) if isinstance(c, ast.Call) and call_name(c) == "append" and norm(c.func.value).startswith("parse_table[")]
        cx.need(len(apps0) == 1 and enclosing_loops(apps0[0]), "R02d", table, "one `parse_table[..].append(..)` inside a loop over the predicted tokens")
        acc = norm(enclosing_loops(apps0[0])[0].iter)
        summ = walks.summarize(wk["loop"], {"terminals": {terminals}, "nullables": {nullables}}, wk["rename"])
    except walks.Unknown as e:
        raise AnalysisError("R02d", f"{REL}::{table.name}", f"production walk not recognised ({e})")
    w = wk["loop"]
    if wk["call"] is not None:
        cx.note(f"R02d: the predict walk is in {wk['host'].name}, called from {table.name}; names translated {wk['rename']}")
    check_walk(cx, "R02d", "predict", summ, acc,
               {"T": ([("add", acc, "<sym>")], "stop"), "NN": ([("merge", acc, "first_sets[<sym>]")], "next"), "NX": ([("merge", acc, "first_sets[<sym>]")], "stop"),
                "NONE": ([], "next")},
               [("merge", acc, f"follow_sets[{owner}]")], none_may_occur=True)
    # definitions of the two sets used
    d1 = [norm(v) for _, v in assignments(table, "first_sets") if v is not None]
    d2 = [norm(v) for _, v in assignments(table, "follow_sets") if v is not None]
    ok = len(d1) == 1 and "_calc_first_sets(" in d1[0] and len(d2) == 1 and "_calc_follow_sets(" in d2[0] and "first_sets" in d2[0]
    cx.ob("R02d", table, ok, "the table uses the FIRST / FOLLOW sets computed for this grammar" if ok else "table does not use freshly computed FIRST / FOLLOW sets", stmt="sets")
    # entries
    apps = [c for c in ast.walk(ol) if isinstance(c, ast.Call) and call_name(c) == "append" and norm(c.func.value).startswith("parse_table[")]
    ok = len(apps) == 1
    key_shape = None
    if ok:
        c = apps[0]
        key = c.func.value.slice
        lp = enclosing_loops(c)[0]
        ok = isinstance(key, ast.Tuple) and len(key.elts) == 2 and norm(key.elts[0]) == owner and norm(key.elts[1]) == norm(lp.target) and norm(lp.iter) == acc and \
            norm(c.args[0]) == norm(next(l for l in ast.walk(ol) if isinstance(l, ast.For) and norm(l.iter) == norm(ol.target.elts[1])).target)
        key_shape = ("symbol", "token")
    cx.ob("R02d", apps[0] if apps else table, ok, "every predicted token gets the production under key (owner, token)" if ok else "table entries are not parse_table[(owner, token)].append(production) for each predicted token")
    srt = [c for c in walk_local(table) if isinstance(c, ast.Call) and call_name(c) == "sort"]
    ok = len(srt) == 1 and any(k.arg == "key" and "sort_n" in norm(k.value) for k in srt[0].keywords) and not any(k.arg == "reverse" for k in srt[0].keywords)
    if ok:
        lp = enclosing_loops(srt[0])
        ok = bool(lp) and norm(lp[0].iter) == "parse_table.values()" and table.body.index(lp[0]) > table.body.index(ol)
    cx.ob("R02d", srt[0] if srt else table, ok, "alternatives of every entry are put in priority order after construction" if ok else "alternatives are not sorted by sort_n after the table is built")

    # ------------------------------------------------------------------ R02e
    gets = [c for c in walk_local(parse) if isinstance(c, ast.Call) and call_name(c) == "get" and norm(c.func.value) == "self.parse_table"]
    ok = len(gets) == 1 and isinstance(gets[0].args[0], ast.Tuple) and [norm(x) for x in gets[0].args[0].elts] == ["cur_symbol", "next_token.name"]
    subs = [n for n in walk_local(parse) if isinstance(n, ast.Subscript) and norm(n.value) == "self.parse_table"]
    for sb in subs:
        cx.ob("R02e", sb, False, "the table is a defaultdict: a subscript lookup of an empty cell inserts a permanent [] entry, so after one rejected text is_ambiguous() reports an LL(1) grammar as ambiguous (use a non-inserting .get)")
    cx.ob("R02e", gets[0] if gets else parse, ok, "non-inserting lookup with key (symbol to expand, name of the next token)" if ok else "table lookup is not parse_table.get((symbol, next token name))")
    if gets:
        d = [norm(v) for _, v in assignments(parse, "cur_symbol") if v is not None]
        d2 = [norm(v) for _, v in assignments(parse, "next_token") if v is not None]
        ok = d == ["top.get_cur_symbol()"] and d2 == ["tokens[top.cur_token_pos]"]
        cx.ob("R02e", gets[0], ok, "the symbol is the next unmatched one and the token the one under the cursor" if ok else "lookup operands altered", stmt=norm(gets[0]) + " [operands]")
        from sa.guards import canon_facts
        ok = ("in", "cur_symbol", "self.terminals", False) in canon_facts(gets[0])
        cx.ob("R02e", gets[0], ok, "the table is consulted for non-terminals only" if ok else "table consulted for terminals", stmt=norm(gets[0]) + " [guard]")
    # constructor wiring: table built from the factorized grammar with the same nullables/terminals/start
    ctor = cx.func(REL, "LLParser.__init__", "R02e")
    c = [x for x in walk_local(ctor) if isinstance(x, ast.Call) and call_name(x) == "_make_llone_table"]
    ok = len(c) == 1 and [norm(a) for a in c[0].args] == ["self.prods_map", "self.terminals", "nullables", "self.start_symbol_name"]
    cx.ob("R02e", c[0] if c else ctor, ok, "the table is built from the parser's own grammar, terminals, nullables and start symbol" if ok else "table construction arguments altered")
    n = [x for x in walk_local(ctor) if isinstance(x, ast.Call) and call_name(x) == "_get_nullables"]
    ok = len(n) == 1 and [norm(a) for a in n[0].args] == ["self.prods_map"]
    cx.ob("R02e", n[0] if n else ctor, ok, "nullables are computed from the same grammar" if ok else "nullables computed from another grammar")
    # ------------------------------------------------------------------ R02f
    rets = [r for r in walk_local(amb) if isinstance(r, ast.Return)]
    ok = len(rets) == 1 and norm(rets[0].value) in ("any((len(prods) != 1 for prods in self.parse_table.values()))", "any(len(prods) != 1 for prods in self.parse_table.values())",
                                                     "any((len(prods) > 1 for prods in self.parse_table.values()))")
    cx.ob("R02f", rets[0] if rets else amb, ok, "ambiguous iff some table entry does not have exactly one alternative" if ok else "is_ambiguous does not test every entry for a single alternative")


def check_walk(cx, rule, what, summ, acc, expect, exhausted, none_may_occur):
    """Compare a walk summary (sa.walks) with the expected contribution / continuation table.  Effects on other receivers than
    `acc` are ignored here.  A deviation built from recognised effects is refuted; unrecognised path conditions are undecided."""
    w = summ.loop

    def mine(effs):
        return [e for e in effs if e[1] == acc]

    def show(effs):
        return ", ".join(f"{e[1]}.{e[0]}({e[2]})" for e in effs) or "nothing"
    names = {"T": "a terminal", "NN": "a nullable non-terminal", "NX": "a non-nullable non-terminal", "NONE": "the empty-production marker"}
    for k in ("NONE", "T", "NN", "NX"):
        paths = summ.per_class.get(k)
        if paths is None:
            cx.need(not none_may_occur, rule, w, f"{what} walk: behaviour for the empty-production marker is not decided")
            continue
        want_eff, want_how = expect[k]
        for i, p_ in enumerate(paths):
            # the only path conditions accepted: "already in the accumulator" (change detection)
            odd = [c for c in p_.conds if not (c[0] in (f"<sym> in {acc}",) or c[0].startswith("len(") )]
            cx.need(not odd, rule, w, f"{what} walk: for {names[k]} the behaviour depends on `{odd[0][0] if odd else ''}`")
            got = mine(p_.effects)
            how = "next" if p_.how == "next" else "stop" if p_.how in ("break", "return") else p_.how
            present = (f"<sym> in {acc}", True) in p_.conds
            eff_ok = got == list(want_eff) or (not got and present and len(want_eff) == 1 and want_eff[0][0] == "add")
            if how == "raise":
                continue
            tag = f"{what} walk [{k}#{i}]"
            if not eff_ok:
                if not got:
                    cx.ob(rule, w, False, f"{names[k]} can be passed without contributing to {acc} (expected {show(want_eff)}): the set is too small", stmt=tag + " contribution")
                else:
                    cx.ob(rule, w, False, f"for {names[k]} the walk does {show(got)} (expected {show(want_eff)})", stmt=tag + " contribution")
            else:
                cx.ob(rule, w, True, f"{names[k]} contributes {show(want_eff)}", stmt=tag + " contribution")
            if how != want_how:
                msg = (f"the {what} walk continues behind {names[k]}: symbols behind it are taken into account although it cannot be empty (sets too large, LL(1) grammars look ambiguous)"
                       if want_how == "stop" else
                       f"the {what} walk stops at {names[k]}: symbols behind a nullable prefix are never looked at (sets too small)")
                cx.ob(rule, w, False, msg, stmt=tag + " continuation")
            else:
                cx.ob(rule, w, True, f"after {names[k]} the walk {'stops' if how == 'stop' else 'goes on'}", stmt=tag + " continuation")
            if p_.how == "return" and not summ.result_is_flag:
                v = p_.value
                from sa.walks import returned_text
                okv = v is not None and returned_text(v, summ) == acc
                cx.ob(rule, w, okv, "the helper returns the accumulated set" if okv else "the helper returns something else than the accumulated set", stmt=tag + " result")
    stops_by_break = any(p_.how == "break" for ps_ in summ.per_class.values() if ps_ for p_ in ps_)
    ex = mine(summ.exhausted)
    nested = [e for e in ex if e[0].startswith("nested:")]
    cx.need(not nested, rule, w, f"{what} walk: conditional update of {acc} after the walk")
    ok = ex == list(exhausted)
    cx.ob(rule, w, ok, f"when every symbol can be empty: {show(exhausted)}" if ok else
          f"when every symbol of the walk can be empty the code does {show(ex)}, expected {show(exhausted)}", stmt=f"{what} walk: exhausted")
    if stops_by_break:
        ab = mine(summ.after_break)
        ok = not ab
        cx.ob(rule, w, ok, "nothing is added after a stop" if ok else f"{show(ab)} also happens when the walk stopped at a non-nullable symbol (sets too large)", stmt=f"{what} walk: after stop")


def _fixpoint_loop(cx, rule, func, inner, what):
    w = [x for x in func.body if isinstance(x, ast.While) and any(inner is y for y in ast.walk(x))]
    cx.need(len(w) == 1, rule, func, f"{what}: loop that repeats the passes")
    verdict, flag, why = change_flag_loop(w[0])
    if verdict == "unknown":
        raise AnalysisError(rule, f"{REL}::{func.name}", f"{what} fixpoint loop not recognised ({why})")
    cx.ob(rule, w[0], verdict == "ok", f"{what} rounds repeat until no set changed" if verdict == "ok" else f"{what} iteration does not run to a fixpoint: {why}", stmt=f"{what} fixpoint")


def change_flag_loop(w):
    """A `repeat the pass until nothing changed` loop.  -> (verdict, flag, why), verdict in 'ok' / 'refuted' / 'unknown'.
    Accepted:  while True: F = False; ...accumulate...; if not F: break      |     F = True; while F: F = False; ...accumulate...
    where every other assignment of F inside the loop accumulates (F |= e, F = F or e, F = True).  A plain `F = e` inside a nested
    loop keeps only the last iteration's answer: refuted."""
    flag = None
    if any(isinstance(st, ast.Break) for st in w.body):
        return "refuted", None, "the loop body ends with an unconditional break: a single pass is made"
    if const(w.test) and w.test.value is True:
        for b in ast.walk(w):
            if isinstance(b, ast.Break) and enclosing_loops(b) and enclosing_loops(b)[0] is w:
                for e, pol in facts(b):
                    if isinstance(e, ast.Name) and not pol:
                        flag = e.id
        if flag is None:
            return "unknown", None, "no `if not <flag>: break` exit"
    elif isinstance(w.test, ast.Name):
        flag = w.test.id
    else:
        return "unknown", None, f"loop condition `{norm(w.test)}`"
    resets = [st for st in w.body if isinstance(st, ast.Assign) and len(st.targets) == 1 and is_name(st.targets[0], flag) and const(st.value, bool) and st.value.value is False]
    n_acc = 0
    pending = None
    for st in ast.walk(w):
        if resets and st is resets[0]:
            continue
        tgt = None
        if isinstance(st, ast.Assign) and any(is_name(t, flag) for t in st.targets):
            tgt, val = st, st.value
            acc = (const(val, bool) and val.value is True) or (isinstance(val, ast.BoolOp) and isinstance(val.op, ast.Or) and any(is_name(x, flag) for x in val.values)) \
                or (isinstance(val, ast.BinOp) and isinstance(val.op, ast.BitOr) and (is_name(val.left, flag) or is_name(val.right, flag)))
        elif isinstance(st, ast.AugAssign) and is_name(st.target, flag):
            tgt = st
            acc = isinstance(st.op, ast.BitOr)
        if tgt is None:
            continue
        if acc:
            n_acc += 1
        elif any(l is not w for l in enclosing_loops(tgt) if any(a is w for a in ancestors(l)) or l is w) and enclosing_loops(tgt)[0] is not w:
            return "refuted", flag, f"`{norm(tgt)}` overwrites the change flag inside the pass: only the last update decides whether another pass is made, earlier changes are forgotten"
        else:
            pending = f"`{norm(tgt)}`"
    if len(resets) != 1:
        return "unknown", flag, f"`{flag}` is not reset exactly once at the top of each pass"
    if pending:
        return "unknown", flag, pending
    if n_acc == 0:
        return "unknown", flag, "the flag is never set"
    return "ok", flag, ""

def _deps(expr, body_assigns, seen=None):
    """Names an expression depends on, transitively through assignments made in the same loop body (flow-insensitive)."""
    seen = set() if seen is None else seen
    out = set()
    for n in ast.walk(expr):
        if isinstance(n, ast.Name) and isinstance(n.ctx, ast.Load) and n.id not in seen:
            seen.add(n.id)
            out.add(n.id)
            for v in body_assigns.get(n.id, ()):
                out |= _deps(v, body_assigns, seen)
    return out


def _columnwise_prefix(cx, rule, f, chunk, cp, assign):
    """cp = tuple(col[0] for col in <columns> ...) with <columns> = zip(*P), P the productions of all alternatives of the chunk.
         ... for col in itertools.takewhile(lambda col: <all entries of col equal>, zip(*P))      the leading run: recognised
         ... for col in zip(*P) if <all entries of col equal>                                      every agreeing position: refuted
    -> True when a verdict (either way) was recorded."""
    from sa.guards import reaching_def
    st, v = assign
    while isinstance(v, ast.Call) and call_name(v) in ("list", "tuple") and len(v.args) == 1 and not v.keywords:
        v = v.args[0]
    if not (isinstance(v, (ast.GeneratorExp, ast.ListComp)) and len(v.generators) == 1 and isinstance(v.generators[0].target, ast.Name)):
        return False
    g = v.generators[0]
    col = g.target.id
    if norm(v.elt) != f"{col}[0]":
        return False

    def is_columns(e):
        if not (isinstance(e, ast.Call) and call_name(e) == "zip" and len(e.args) == 1 and isinstance(e.args[0], ast.Starred) and not e.keywords):
            return False
        P = e.args[0].value
        if isinstance(P, ast.Name):
            r = reaching_def(P.id, st, calls=True, containers=True)
            P = r[0] if r is not None else P
        return isinstance(P, (ast.ListComp, ast.GeneratorExp)) and len(P.generators) == 1 and not P.generators[0].ifs and norm(P.generators[0].iter) == chunk \
            and norm(P.elt) == f"{norm(P.generators[0].target)}.production"

    def all_equal(t, var):
        """`t` says that every entry of column `var` equals the first one"""
        if isinstance(t, ast.Call) and call_name(t) == "all" and len(t.args) == 1 and isinstance(t.args[0], ast.GeneratorExp) and len(t.args[0].generators) == 1:
            gg = t.args[0].generators[0]
            if isinstance(gg.target, ast.Name) and not gg.ifs and norm(gg.iter) in (var, f"{var}[1:]"):
                return canon_test(t.args[0].elt) == {("==", *sorted((gg.target.id, f"{var}[0]")), True)}
        if isinstance(t, ast.Compare) and len(t.ops) == 1 and isinstance(t.ops[0], ast.Eq):
            return {norm(t.left), norm(t.comparators[0])} == {f"len(set({var}))", "1"}
        return False
    it = g.iter
    if isinstance(it, ast.Name):
        r_it = reaching_def(it.id, st, calls=True, containers=True)
        if r_it is not None:
            it = r_it[0]
    if is_columns(it):
        if len(g.ifs) == 1 and all_equal(g.ifs[0], col):
            cx.ob(rule, st, False, f"`{cp}` collects EVERY position at which all alternatives agree (`... for {col} in zip(*productions) if <all equal>`), not only the leading run: "
                  "with alternatives that differ in the middle and agree again later, the factored 'prefix' is not a prefix of the alternatives - the group production "
                  "then derives sentences the user's productions do not, and rejects theirs")
            return True
        return False
    if isinstance(it, ast.Call) and dotted(it.func) in ("itertools.takewhile", "takewhile") and len(it.args) == 2 and is_columns(it.args[1]) and not g.ifs:
        pred = it.args[0]
        if isinstance(pred, ast.Lambda) and len(pred.args.args) == 1 and all_equal(pred.body, pred.args.args[0].arg):
            cx.ob(rule, st, True, "the prefix is the leading run of positions at which all alternatives agree (takewhile over the transposed alternatives; zip stops at the shortest)")
            return True
    return False


def _only_fixed_elements(f, chunk, cp):
    """True when every use of the group `chunk` (or a plain alias of it) in the backward slice of `cp` inside `f` is a subscript
    with a constant index, and there is at least one such use."""
    aliases = {chunk}
    changed = True
    while changed:
        changed = False
        for n in ast.walk(f):
            if isinstance(n, ast.Assign) and isinstance(n.value, ast.Name) and n.value.id in aliases:
                for t in n.targets:
                    if isinstance(t, ast.Name) and t.id not in aliases:
                        aliases.add(t.id)
                        changed = True
    # backward slice over names (data dependences through assignments and loop targets; control dependences through the
    # tests of the ifs / loops that enclose an assignment of a slice name)
    sl = {cp}
    exprs = []
    changed = True
    seen = set()
    while changed:
        changed = False
        for n in ast.walk(f):
            src = []
            tg = set()
            if isinstance(n, ast.Assign):
                tg = {x.id for t in n.targets for x in ast.walk(t) if isinstance(x, ast.Name)}
                src = [n.value]
            elif isinstance(n, ast.AugAssign):
                tg = {x.id for x in ast.walk(n.target) if isinstance(x, ast.Name)}
                src = [n.value]
            elif isinstance(n, (ast.For, ast.comprehension)):
                tg = {x.id for x in ast.walk(n.target) if isinstance(x, ast.Name)}
                src = [n.iter]
            elif isinstance(n, ast.NamedExpr):
                tg = {n.target.id}
                src = [n.value]
            if not (tg & sl) or id(n) in seen:
                continue
            seen.add(id(n))
            changed = True
            if isinstance(n, (ast.Assign, ast.AugAssign)):
                for a in ancestors(n):
                    if a is f:
                        break
                    if isinstance(a, (ast.If, ast.While)):
                        src.append(a.test)
                    elif isinstance(a, ast.For):
                        src.append(a.iter)
            for e in src:
                exprs.append(e)
                for x in ast.walk(e):
                    if isinstance(x, ast.Name) and isinstance(x.ctx, ast.Load):
                        sl.add(x.id)
    fixed = whole = 0
    for e in exprs:
        for x in ast.walk(e):
            if isinstance(x, ast.Name) and x.id in aliases and isinstance(x.ctx, ast.Load):
                p_ = parent(x)
                if isinstance(p_, ast.Subscript) and p_.value is x and not isinstance(p_.slice, ast.Slice) and \
                        (const(p_.slice, int) or (isinstance(p_.slice, ast.UnaryOp) and isinstance(p_.slice.op, ast.USub) and const(p_.slice.operand, int))):
                    fixed += 1
                elif isinstance(p_, ast.Assign) and p_.value is x:
                    pass            # plain alias, followed above
                else:
                    whole += 1
    return fixed > 0 and whole == 0


def common_prefix_rule(cx, rule):
    """_factorize_common_prefix_prods replaces  X -> p a1 | p a2 | ..  by  X -> p X'  with  X' -> a1 | a2 | ..  The language
    (and every derivation) is kept only if p is a prefix of EVERY alternative of the group.  Decided structurally:
      recognised:  p starts as a prefix of the first alternative no longer than the shortest one, and is afterwards only
                   narrowed to prefixes of itself, each other alternative being compared with p position by position and p cut
                   at the first difference;
      refuted:     p is overwritten inside the loop over the alternatives by a value that does not depend on anything carried
                   over from earlier iterations (the result then reflects the last alternatives only);
      otherwise:   undecided."""
    f = cx.func(REL, "LLParser._factorize_common_prefix_prods", rule)
    chunk = params(f)[3]
    # private helpers expanded in place (the prefix may be computed by one)
    from sa.inline import inlined as _inl
    f_exp, _used_cp = _inl(cx.repo.modules[REL], f, nested=True, exclude=("_factorize_prods_list",))
    if _used_cp:
        cx.note(f"{rule}: _factorize_common_prefix_prods analysed with {_used_cp} expanded in place")
        f = f_exp
    grp = [v for _, v in assignments(f, "group_prod_rule") if v is not None]
    cx.need(len(grp) == 1 and isinstance(grp[0], ast.Call) and len(grp[0].args) >= 2, rule, f, "group production")
    m = [n.id for n in ast.walk(grp[0].args[1]) if isinstance(n, ast.Name) and n.id not in ("tuple", "list", "grp_symbol_suffix")]
    cx.need(len(m) == 1, rule, f, "name of the factored prefix")
    cp = m[0]
    assigns = [(st, v) for st, v in assignments(f, cp) if v is not None]
    cx.need(assigns, rule, f, f"assignments of `{cp}`")
    loops = [l for l in f.body if isinstance(l, ast.For) and chunk in names_in(l.iter)]
    # ---- participation: a prefix common to ALL alternatives depends on every one of them.  If, in the backward slice of the
    # prefix, the group is only ever indexed by constants (first / last element) and never iterated, sliced or passed on whole,
    # the result is a function of those elements alone and is wrong for a group of three or more (s168).
    if _only_fixed_elements(f, chunk, cp):
        st_ = assigns[0][0]
        cx.ob(rule, st_, False, semantic=True, detail=f"`{cp}` is computed from fixed elements of the group only (`{chunk}[0]`, `{chunk}[-1]`); the other alternatives never take part "
              "(the group is in declaration order, not sorted): an alternative in the middle that diverges earlier is rewritten to start with a prefix it does not have")
        return
    # ---- column-wise form: the alternatives are transposed with zip(*productions) and the prefix is read off the columns
    if len(assigns) == 1 and not loops:
        r_ = _columnwise_prefix(cx, rule, f, chunk, cp, assigns[0])
        if r_:
            return
    # ---- the prefix may be represented by its length: `cp = <candidate>[:L]` after a loop that updates L
    in_loop = [(st, v) for st, v in assigns if any(a is l for l in loops for a in ancestors(st))]
    len_var = None
    if not in_loop and len(assigns) == 1:
        v0 = assigns[0][1]
        while isinstance(v0, ast.Call) and call_name(v0) in ("list", "tuple") and len(v0.args) == 1:
            v0 = v0.args[0]
        if isinstance(v0, ast.Subscript) and isinstance(v0.slice, ast.Slice) and v0.slice.lower is None and isinstance(v0.slice.upper, ast.Name):
            lv = v0.slice.upper.id
            lv_assigns = [(st, v) for st, v in assignments(f, lv)]
            if any(any(a is l for l in loops for a in ancestors(st)) for st, v in lv_assigns):
                len_var = lv
    if len_var is not None:
        cp_name, cp = cp, len_var
        assigns = [(st, v) for st, v in assignments(f, cp) if v is not None]
    # ---- definite flaw: overwritten in the loop without loop-carried dependence
    for l in loops:
        body_assigns = {}
        for n in ast.walk(l):
            if isinstance(n, ast.Assign):
                for t in n.targets:
                    for x in ast.walk(t):
                        if isinstance(x, ast.Name):
                            body_assigns.setdefault(x.id, []).append(n.value)
            elif isinstance(n, ast.AugAssign) and isinstance(n.target, ast.Name):
                body_assigns.setdefault(n.target.id, []).append(ast.BinOp(left=ast.Name(id=n.target.id, ctx=ast.Load()), op=n.op, right=n.value))
        loop_targets = {x.id for ll in ast.walk(l) if isinstance(ll, (ast.For, ast.comprehension)) for x in ast.walk(ll.target) if isinstance(x, ast.Name)}
        # variables reset at the top of the body before any use carry nothing over
        reset = set()
        for st in l.body:
            if isinstance(st, ast.Assign) and len(st.targets) == 1 and isinstance(st.targets[0], ast.Name) and st.targets[0].id not in names_in(st.value):
                reset.add(st.targets[0].id)
            else:
                break
        carried = {v for v in body_assigns if v not in loop_targets and v not in reset}
        for st, v in assigns:
            if not any(a is l for a in ancestors(st)):
                continue
            d = _deps(v, {k: vs for k, vs in body_assigns.items() if k != cp})
            if not (d & carried) and cp not in d:
                cx.ob(rule, st, False, f"`{cp}` is overwritten for each alternative by `{norm(v)[:60]}`, which depends on nothing carried over from earlier alternatives "
                      f"(only on {sorted(d - {'len', 'list', 'tuple', 'zip', 'enumerate', 'min'})}): the factored prefix is that of the last alternatives compared, "
                      "not one common to the whole group - alternatives that do not start with it are rewritten to start with it")
                return
    if len_var is not None:
        # length form: accepted updates are  L = min(L, i)  (either operand order); anything else is undecided
        upd = [(st, v) for st, v in assigns if any(a is l for l in loops for a in ancestors(st))]
        okl = bool(upd) and all(isinstance(v, ast.Call) and call_name(v) == "min" and len(v.args) == 2 and any(is_name(a_, cp) for a_ in v.args) for _, v in upd)
        if not okl:
            raise AnalysisError(rule, f"{REL}::_factorize_common_prefix_prods", f"the prefix length `{cp}` is updated in a way that is not `min({cp}, position of the first difference)`: not decided")
        init_l = [v for st, v in assigns if not any(a is l for l in loops for a in ancestors(st))]
        oki = len(init_l) == 1 and norm(init_l[0]).startswith("min(") and "len(" in norm(init_l[0]) and chunk in names_in(init_l[0])
        if not oki:
            raise AnalysisError(rule, f"{REL}::_factorize_common_prefix_prods", f"initial prefix length `{cp}` not recognised: not decided")
        cx.ob(rule, upd[0][0], True, "the prefix length only shrinks: min(current length, position of the first difference) for every alternative")
        return
    # ---- recognised shape
    init = [(st, v) for st, v in assigns if not any(isinstance(a, (ast.For, ast.While)) for a in ancestors(st))]
    inl = [(st, v) for st, v in assigns if any(isinstance(a, (ast.For, ast.While)) for a in ancestors(st))]
    ok_init = False
    mx = None
    if init:
        v0 = init[0][1]
        while isinstance(v0, ast.Call) and call_name(v0) in ("list", "tuple") and len(v0.args) == 1:
            v0 = v0.args[0]
        if isinstance(v0, ast.Subscript) and norm(v0.value) == f"{chunk}[0].production" and isinstance(v0.slice, ast.Slice) and v0.slice.lower is None and isinstance(v0.slice.upper, ast.Name):
            mx = v0.slice.upper.id
            mv = [x for _, x in assignments(f, mx) if x is not None]
            ok_init = len(mv) == 1 and norm(mv[0]) in (f"min(len(r.production) for r in {chunk})", f"min((len(r.production) for r in {chunk}))", f"min([len(r.production) for r in {chunk}])")
    if not ok_init or len(init) != 1 and not all(norm(v) in (f"list({cp})", f"tuple({cp})") for _, v in init[1:]):
        raise AnalysisError(rule, f"{REL}::_factorize_common_prefix_prods", f"initial value of `{cp}` is not `first alternative[:shortest length]`: not decided")
    cx.ob(rule, init[0][0], True, "starts as the first alternative cut to the length of the shortest one")
    narrow = [(st, v) for st, v in inl if isinstance(v, ast.Subscript) and is_name(v.value, cp) and isinstance(v.slice, ast.Slice) and v.slice.lower is None and v.slice.step is None]
    if len(narrow) != len(inl) or len(inl) != 1:
        raise AnalysisError(rule, f"{REL}::_factorize_common_prefix_prods", f"`{cp}` is updated in a way that is not a narrowing `{cp}[:i]`: not decided")
    st, v = narrow[0]
    inner = next((a for a in ancestors(st) if isinstance(a, ast.For)), None)
    outer = next((a for a in ancestors(inner) if isinstance(a, ast.For)), None) if inner is not None else None
    ok = inner is not None and outer is not None and norm(outer.iter) in (f"{chunk}[1:]", chunk) and isinstance(outer.target, ast.Name) \
        and norm(inner.iter) == f"enumerate(zip({cp}, {outer.target.id}.production))" and isinstance(inner.target, ast.Tuple) and len(inner.target.elts) == 2 \
        and isinstance(inner.target.elts[1], ast.Tuple) and is_name(v.slice.upper, norm(inner.target.elts[0]))
    if ok:
        a, b = [norm(x) for x in inner.target.elts[1].elts]
        g = parent(st)
        ok = isinstance(g, ast.If) and norm(g.test) in (f"{a} != {b}", f"{b} != {a}", f"not {a} == {b}") and parent(g) is inner and len(inner.body) == 1 \
            and isinstance(g.body[-1], ast.Break) and g.body[0] is st and not g.orelse
    if not ok:
        raise AnalysisError(rule, f"{REL}::_factorize_common_prefix_prods", "comparison loop not recognised: not decided")
    cx.ob(rule, st, True, "every other alternative is compared with the prefix position by position; the prefix is cut at the first difference (it only ever shrinks to a prefix of itself)")
