"""C16 — request ids are unique per connection under concurrent use.

"For all interleavings" is decided as lock discipline + single shared counter
+ injective id format + single guarded call site.
"""
import ast

from sa.core import (AnalysisError, FUNC, ancestors, call_name, dotted, enclosing_func, enclosing_stmt, is_attr,
                     is_name, is_self_attr, norm, parent, qual, walk_local, names_in, const)
from sa.guards import facts, split

PROP = "C16"
REL = "ak/conn_http.py"
EXPLANATION = (
    "Lock-discipline and ownership analysis of ak/conn_http.py (ast, no execution). R16a: every store to, and every "
    "value-read of, the per-connection counter attribute outside the constructor lies lexically inside `with <lock>:` "
    "where <lock> is the attribute initialised once from threading.Lock()/RLock() (a bare `is None` test is the only "
    "read allowed outside: None-ness is fixed by the constructor). R16b: stores outside the constructor are increments "
    "by the constant 1, the number used for the id is a local captured in the same critical section as the increment. "
    "R16c: the lock attribute is bound once, in the constructor, and never rebound. R16d: one counter per connection "
    "family: derived connections copy conn_impl from the parent, every request method and every do_request call goes "
    "through self.conn_impl, _HttpConnImpl is constructed only when the constructor is not given a connection. "
    "R16e: the id generator has exactly one call site, control-dependent on 'counter enabled' and on the caller not "
    "having supplied the same header key that is then stored. R16f: the id format embeds the un-reduced counter, so "
    "distinct numbers give distinct ids. R16g: the generated id is stored into a headers dict of this call (on every path of "
    "do_request's flow graph, helpers expanded, `headers` was re-bound to the request record's copy or a fresh dict), never "
    "into the caller's own dict. Covers every interleaving because the rule quantifies over program points, "
    "not schedules; trusts CPython's `with lock` semantics."
)


def _with_regions(node):
    """Enclosing `with` statements (innermost first) up to the function."""
    for a in ancestors(node):
        if isinstance(a, FUNC):
            return
        if isinstance(a, (ast.With, ast.AsyncWith)):
            yield a


def _r16g(cx, repo):
    """'Unless the caller supplied an id' is tested on the headers of the call.  If the generated id is stored into the caller's own
    dict, a caller that re-uses its dict finds the library's earlier id in it on the next request: the id is taken for
    caller-supplied and sent again - repeated ids nobody asked for.  Decided on the flow graph of do_request (helpers expanded):
    on every path to the store, `headers` was re-bound to the request record's copy or to a fresh dict (rules/c17.py)."""
    from rules.c17 import header_mutation_paths
    do_req = cx.func(REL, "_HttpConnImpl.do_request", "R16g")
    res = header_mutation_paths(repo, do_req)
    n = 0
    for node, pth in res:
        if not (isinstance(node, ast.Subscript) and const(node.slice, str) and node.slice.value.lower() == "x-request-id"):
            continue
        n += 1
        cx.ob("R16g", node, pth is None, "the id is stored into the header copy of this call" if pth is None else
              f"the generated id is stored into the caller's own headers dict (path through lines {pth}): a caller that re-uses the dict sends this id again "
              "with its next request - the id then counts as caller-supplied and no new number is taken")
    cx.at_least("R16g", "stores of the generated id into the headers", n, 1)


def _read_just_before(store_stmt, local, counter_attr_node):
    """`local = <same attribute>` is the statement right before `store_stmt` in the same block"""
    from sa.guards import _block_of
    _o, _f, lst = _block_of(store_stmt)
    if lst is None:
        return False
    i = [k for k, x in enumerate(lst) if x is store_stmt][0]
    if i == 0:
        return False
    prev = lst[i - 1]
    return isinstance(prev, ast.Assign) and len(prev.targets) == 1 and is_name(prev.targets[0], local) and norm(prev.value) == norm(counter_attr_node)


def run(cx):
    repo = cx.repo
    mod = repo.mod(REL, "R16")
    impl = cx.cls(REL, "_HttpConnImpl", "R16c")
    init = cx.func(REL, "_HttpConnImpl.__init__", "R16c")
    cx.rule("R16a", "every update / value-read of the request counter outside __init__ is inside `with <lock attribute>:`")
    cx.rule("R16b", "the only stores outside __init__ are `+= 1`; the id is formatted from a local captured in the same critical section")
    cx.rule("R16c", "the lock attribute is assigned once, in __init__, from threading.Lock()/RLock(), and never rebound")
    cx.rule("R16d", "one counter per connection family (shared conn_impl; all requests through self.conn_impl.do_request)")
    cx.rule("R16e", "single call site of the id generator, guarded by 'enabled' and by the caller-supplied header test on the stored key")
    cx.rule("R16f", "id format embeds the un-reduced counter value")
    cx.rule("R16g", "the generated id is written into a headers dict of this call, never into the dict the caller passed")
    cx.guard(_r16g, cx, repo)
    cx.trust("CPython: `with lock:` is mutual exclusion; int `+=` under the lock is atomic w.r.t. other holders")

    # ---- discover the lock attribute(s) and the counter attribute ------------
    locks = {}
    for n in walk_local(init):
        if isinstance(n, ast.Assign) and isinstance(n.value, ast.Call) and dotted(n.value.func) in (
                "threading.Lock", "threading.RLock", "Lock", "RLock"):
            for t in n.targets:
                if is_self_attr(t):
                    locks[t.attr] = n
    cx.ob("R16c", init, bool(locks), "the implementation object owns a threading.Lock / RLock" if locks else
          "no attribute of the implementation object is initialised from threading.Lock() / RLock(): the counter cannot be protected", stmt="lock attribute")
    counters = set()
    for m, q, f in repo.functions({REL}):
        for n in walk_local(f):
            if isinstance(n, ast.AugAssign) and isinstance(n.target, ast.Attribute) and isinstance(n.op, (ast.Add, ast.Sub)):
                counters.add(n.target.attr)
            if isinstance(n, ast.Assign) and len(n.targets) == 1 and isinstance(n.targets[0], ast.Attribute) \
                    and isinstance(n.value, ast.BinOp) and is_attr(n.value.left, n.targets[0].attr) and const(n.value.right, int):
                counters.add(n.targets[0].attr)
    # the counter is the one initialised in __init__ to an int or None
    init_attrs = {t.attr: n for n in walk_local(init) if isinstance(n, ast.Assign) for t in n.targets if is_self_attr(t)}
    counters = {c for c in counters if c in init_attrs and any(
        const(x, int) and not isinstance(x.value, bool) for x in ast.walk(init_attrs[c].value))}
    if "_cur_req_id" in init_attrs:
        counters.add("_cur_req_id")
    cx.need(counters, "R16a", "ak/conn_http.py::_HttpConnImpl", "request counter attribute not found")
    cx.count("lock_attributes", len(locks))
    cx.count("counter_attributes", len(counters))

    def is_lock_expr(e):
        return is_self_attr(e) and e.attr in locks

    def guarded(node):
        return any(is_lock_expr(it.context_expr) for w in _with_regions(node) for it in w.items)

    # ---- R16c: lock bound once, only in __init__ --------------------------------
    for lk, st in locks.items():
        stores = []
        for m2 in repo.modules.values():
            for n in ast.walk(m2.tree):
                if isinstance(n, ast.Attribute) and n.attr == lk and isinstance(n.ctx, (ast.Store, ast.Del)):
                    stores.append(n)
        ok = len(stores) == 1 and enclosing_func(stores[0]) is init
        for s in stores:
            inside = enclosing_func(s) is init
            in_loop_or_cond = False
            cx.ob("R16c", s, inside and len(stores) == 1,
                  f"lock attribute '{lk}' is (re)bound here" + ("" if inside else " outside the constructor") +
                  ("" if len(stores) == 1 else f"; {len(stores)} binding sites"))
        # the binding in __init__ must not be conditional on anything
        fs = facts(st)
        cx.ob("R16c", st, not fs and parent(st) is init, "lock creation is unconditional in the constructor"
              if (not fs and parent(st) is init) else "lock creation is conditional / nested")

    # ---- R16a / R16b over every access of the counter in the package -------------
    n_access = 0
    gen_funcs = set()
    for m2 in repo.modules.values():
        for n in ast.walk(m2.tree):
            if not (isinstance(n, ast.Attribute) and n.attr in counters):
                continue
            f = enclosing_func(n)
            if f is init:
                continue
            n_access += 1
            p = parent(n)
            if isinstance(n.ctx, (ast.Store, ast.Del)):
                g = guarded(n)
                cx.ob("R16a", n, g, "store to the counter " + ("inside" if g else "OUTSIDE") + " the lock region")
                # R16b: shape of the store
                if isinstance(p, ast.AugAssign) and p.target is n:
                    okinc = isinstance(p.op, ast.Add) and const(p.value, int) and p.value.value == 1 and not isinstance(p.value.value, bool)
                    cx.ob("R16b", p, okinc, "increment by the constant 1" if okinc else f"counter updated by {norm(p.op.__class__.__name__)} {norm(p.value)}")
                    gen_funcs.add(f)
                elif isinstance(p, ast.Assign) and isinstance(p.value, ast.BinOp) and isinstance(p.value.op, ast.Add) \
                        and is_attr(p.value.left, n.attr) and const(p.value.right, int) and p.value.right.value == 1:
                    cx.ob("R16b", p, True, "increment by the constant 1")
                    gen_funcs.add(f)
                elif isinstance(p, ast.Assign) and isinstance(p.value, ast.BinOp) and isinstance(p.value.op, ast.Add) and const(p.value.right, int) and p.value.right.value == 1 \
                        and not isinstance(p.value.right.value, bool) and isinstance(p.value.left, ast.Name) and _read_just_before(p, p.value.left.id, n):
                    # v = self.counter; self.counter = v + 1   (read and store next to each other, in the same block: the same region)
                    cx.ob("R16b", p, True, "increment by the constant 1 (value read into a local just before, in the same block)")
                    gen_funcs.add(f)
                else:
                    cx.ob("R16b", p if isinstance(p, ast.stmt) else n, False,
                          "the counter is stored outside the constructor by something that is not `+= 1` (numbers may repeat or skip)")
            else:
                # a Load.  bare None-test is allowed anywhere
                if isinstance(p, ast.Compare) and len(p.ops) == 1 and isinstance(p.ops[0], (ast.Is, ast.IsNot)) \
                        and const(p.comparators[0]) and p.comparators[0].value is None and p.left is n:
                    cx.ob("R16a", n, True, "bare `is None` test of the counter (None-ness is fixed by the constructor)")
                    continue
                if isinstance(p, ast.AugAssign):
                    continue
                g = guarded(n)
                cx.ob("R16a", n, g, "value-read of the counter " + ("inside" if g else "OUTSIDE") + " the lock region")
    cx.at_least("R16a", "counter accesses outside __init__", n_access, 3)
    cx.need(gen_funcs, "R16b", "ak/conn_http.py::_HttpConnImpl", "no increment of the counter found")

    # ---- R16b/R16f in the generator function(s) -------------------------------------
    for gf in gen_funcs:
        incs = [n for n in walk_local(gf) if isinstance(n, (ast.AugAssign, ast.Assign)) and any(
            isinstance(t, ast.Attribute) and t.attr in counters for t in ([n.target] if isinstance(n, ast.AugAssign) else n.targets))]
        for inc in incs:
            region = next((w for w in _with_regions(inc) if any(is_lock_expr(i.context_expr) for i in w.items)), None)
            if region is None:
                continue  # already refuted by R16a
            # locals captured from the counter inside the same region
            caps = {}
            for n in ast.walk(region):
                if isinstance(n, ast.Assign) and len(n.targets) == 1 and is_name(n.targets[0]) and \
                        any(isinstance(x, ast.Attribute) and x.attr in counters for x in ast.walk(n.value)):
                    caps[n.targets[0].id] = n
            cx.ob("R16b", region, bool(caps), "the handed-out number is captured in a local inside the same critical section as the increment"
                  if caps else "no local captures the counter inside the critical section of the increment")
            # capture must be a plain copy (or copy +/- constant)
            for name, st in caps.items():
                plain = isinstance(st.value, ast.Attribute) or (isinstance(st.value, ast.BinOp) and isinstance(st.value.op, (ast.Add, ast.Sub)) and const(st.value.right, int))
                cx.ob("R16b", st, plain, "capture is a plain copy of the counter" if plain else "capture is not an injective function of the counter")
            # returns
            rets = [n for n in walk_local(gf) if isinstance(n, ast.Return) and n.value is not None]
            cx.need(rets, "R16f", gf, "id generator returns nothing")
            for r in rets:
                if const(r.value) and r.value.value is None and any(
                        isinstance(e, ast.Compare) and len(e.ops) == 1 and isinstance(e.ops[0], ast.Is) and pol and (is_attr(e.left, counters) or is_name(e.left) and e.left.id in caps)
                        and const(e.comparators[0]) and e.comparators[0].value is None
                        for e, pol in facts(r)):
                    cx.ob("R16b", r, True, "no id is handed out while the counter is disabled (the counter / the number captured from it is None)")
                    continue
                used = names_in(r.value) & set(caps)
                # re-binding of the captured local after the region would break the link
                rebound = [n for n in walk_local(gf) if isinstance(n, ast.Name) and n.id in caps and isinstance(n.ctx, ast.Store)
                           and not any(a is region for a in ancestors(n))]
                cx.ob("R16b", r, bool(used) and not rebound,
                      f"id is formatted from the captured local {sorted(used)}" if used and not rebound else
                      "returned id does not depend on the number captured under the lock (or the local is re-bound)")
                if used:
                    ok, why = _unreduced_occurrence(r.value, used)
                    cx.ob("R16f", r, ok, why)


    # ---- R16e: call sites of the generator ----------------------------------------
    gen_names = {f.name for f in gen_funcs}
    sites = []
    for m2 in repo.modules.values():
        for n in ast.walk(m2.tree):
            if isinstance(n, ast.Call) and call_name(n) in gen_names:
                sites.append(n)
            elif isinstance(n, ast.Attribute) and n.attr in gen_names and not (isinstance(parent(n), ast.Call) and parent(n).func is n):
                sites.append(n)  # method value taken: treated as a call site
    cx.need(sites, "R16e", "ak/conn_http.py::_HttpConnImpl.do_request", "id generator is never called")

    def call_sites_of(fname):
        out = []
        for m3 in repo.modules.values():
            for n in ast.walk(m3.tree):
                if isinstance(n, ast.Call) and call_name(n) == fname:
                    out.append(n)
                elif isinstance(n, ast.Attribute) and n.attr == fname and not (isinstance(parent(n), ast.Call) and parent(n).func is n):
                    out.append(n)
        return out

    for s0 in sites:
        cx.ob("R16e", s0, len(sites) == 1, "single call site of the id generator" if len(sites) == 1 else f"{len(sites)} call sites of the id generator (numbers may be consumed without being sent)")
    # follow the number outwards through pass-through wrappers (functions that return a value computed from it) to the statement
    # that stores it under a header key; every level has exactly one call site
    s_ = sites[0]
    chain = [s_]
    store = None
    for _ in range(4):
        st = enclosing_stmt(s_)
        if isinstance(st, ast.Assign) and len(st.targets) == 1 and isinstance(st.targets[0], ast.Subscript) and const(st.targets[0].slice, str):
            store = st
            break
        f_ = enclosing_func(s_)
        # pass-through: the call's value reaches a `return` (directly or via one local)
        local = st.targets[0].id if isinstance(st, ast.Assign) and len(st.targets) == 1 and isinstance(st.targets[0], ast.Name) else None
        flows = isinstance(st, ast.Return) or (local is not None and any(isinstance(r, ast.Return) and r.value is not None and local in names_in(r.value) for r in walk_local(f_)))
        if not flows:
            break
        callers = call_sites_of(f_.name)
        if len(callers) != 1:
            cx.ob("R16e", f_, False, f"{len(callers)} call sites of {f_.name}, which hands out request numbers (numbers may be consumed without being sent)")
            break
        s_ = callers[0]
        chain.append(s_)
    cx.ob("R16e", enclosing_stmt(chain[-1]), store is not None, f"generated id is stored under the constant header key {store.targets[0].slice.value!r}" if store is not None else
          "generated id is not stored directly under a constant header key")
    all_facts = [fp for c in chain for fp in facts(c)]
    enabled = any(isinstance(e, ast.Compare) and len(e.ops) == 1 and (isinstance(e.ops[0], ast.IsNot) and pol and is_attr(e.left, counters) or
                                                                      isinstance(e.ops[0], ast.Is) and not pol and is_attr(e.left, counters)) for e, pol in all_facts)
    cx.ob("R16e", chain[-1], enabled, "the number is taken only when the counter is enabled (not None)" if enabled else
          "call is not guarded by `counter is not None` (TypeError / ids when disabled)")
    if store is not None:
        st = store
        s = chain[-1]
        fs = facts(s)
        key, dct = st.targets[0].slice.value, norm(st.targets[0].value)
        if True:
            notin = [e for e, pol in fs if isinstance(e, ast.Compare) and len(e.ops) == 1 and (
                (isinstance(e.ops[0], ast.NotIn) and pol) or (isinstance(e.ops[0], ast.In) and not pol))
                and norm(e.comparators[0]) == dct and const(e.left, str)]
            same = [e for e in notin if e.left.value == key]
            cx.ob("R16e", st, bool(same),
                  f"guarded by the caller not having supplied {key!r} in the same dict" if same else
                  (f"guard tests key {[e.left.value for e in notin]} but the id is stored under {key!r}" if notin else
                   "no `key not in headers` guard: a caller-supplied id would be overwritten / a number consumed"))
            # the header under that key must not be written anywhere else in the function
            f = enclosing_func(s)
            others = [n for n in walk_local(f) if isinstance(n, ast.Subscript) and isinstance(n.ctx, (ast.Store, ast.Del))
                      and const(n.slice, str) and n.slice.value.lower() == key.lower() and enclosing_stmt(n) is not st]
            for o in others:
                cx.ob("R16e", o, False, f"header {key!r} is also written here: a caller-supplied id is not sent unchanged")
            # other mutation of the dict that could drop the caller's id: pop/clear/del
            for n in walk_local(f):
                if isinstance(n, ast.Call) and isinstance(n.func, ast.Attribute) and norm(n.func.value) == dct and n.func.attr in ("pop", "clear", "popitem"):
                    cx.ob("R16e", n, False, "headers entry may be removed before sending")

    # ---- R16d: one implementation object per family -----------------------------------
    base_init = cx.func(REL, "_HttpConnBase.__init__", "R16d")
    base = cx.cls(REL, "_HttpConnBase", "R16d")
    # (i) self.conn_impl assignments
    impl_attr = "conn_impl"
    stores = []
    for m2 in repo.modules.values():
        for n in ast.walk(m2.tree):
            if isinstance(n, ast.Attribute) and n.attr == impl_attr and isinstance(n.ctx, ast.Store):
                stores.append(n)
    cx.need(len(stores) >= 2, "R16d", "conn_impl", "expected the two conn_impl assignments (impl, base)")
    for s in stores:
        st = enclosing_stmt(s)
        f = enclosing_func(s)
        if f is init:
            ok = isinstance(st, ast.Assign) and is_name(st.value, "self")
            cx.ob("R16d", st, ok, "implementation object refers to itself" if ok else "conn_impl of the implementation is not self")
        elif f is base_init:
            v = st.value if isinstance(st, ast.Assign) else None
            ok = isinstance(v, ast.Attribute) and v.attr == impl_attr
            src = None
            if ok:
                # the source object must be the parent connection (same value as stored in self.parent_conn)
                src = norm(v.value)
                pc = [n for n in walk_local(base_init) if isinstance(n, ast.Assign) and any(is_self_attr(t, "parent_conn") for t in n.targets)]
                ok = bool(pc) and all(norm(n.value) == src for n in pc)
            cx.ob("R16d", st, ok, f"derived connection shares the parent's implementation object ({src}.conn_impl)" if ok else
                  "derived connection does not take conn_impl from its parent connection")
        else:
            cx.ob("R16d", st, False, "conn_impl is re-bound outside the two constructors")
    # (ii) every do_request call in the package has receiver self.conn_impl
    dr = [n for m2 in repo.modules.values() for n in ast.walk(m2.tree) if isinstance(n, ast.Call) and call_name(n) == "do_request"]
    cx.at_least("R16d", "do_request call sites", len(dr), 5)
    for c in dr:
        ok = isinstance(c.func, ast.Attribute) and is_self_attr(c.func.value, impl_attr)
        cx.ob("R16d", c, ok, "request goes through the shared self.conn_impl" if ok else f"request goes through {norm(c.func)} (another counter)")
    # (iii) request methods of the base class: each reaches do_request
    verbs = ["get", "post", "put", "delete", "patch"]
    for v in verbs:
        fn = repo.method(base, v)
        cx.need(fn is not None, "R16d", f"{REL}::_HttpConnBase.{v}", "request method vanished")
        rets = [n for n in walk_local(fn) if isinstance(n, ast.Return)]
        ok = bool(rets) and all(r.value is not None and isinstance(r.value, ast.Call) and call_name(r.value) == "do_request" for r in rets)
        cx.ob("R16d", fn, ok, f"{v}() returns self.conn_impl.do_request(...) on every path" if ok else f"{v}() has a path that does not go through do_request")
    # (iv) _HttpConnImpl constructed only where no connection is wrapped
    ctor = [n for m2 in repo.modules.values() for n in ast.walk(m2.tree) if isinstance(n, ast.Call) and call_name(n) == "_HttpConnImpl"]
    cx.at_least("R16d", "_HttpConnImpl construction sites", len(ctor), 1)
    for c in ctor:
        f = enclosing_func(c)
        if f is not base_init:
            cx.ob("R16d", c, False, "implementation object (and so a fresh counter) is constructed outside _HttpConnBase.__init__")
            continue
        fs = facts(c)
        ok = any(isinstance(e, ast.Call) and call_name(e) == "isinstance" and not pol and
                 any(is_name(x, "_HttpConnBase") for x in ast.walk(e.args[1])) for e, pol in fs)
        cx.ob("R16d", c, ok, "constructed only when conn_data is not a connection object" if ok else
              "a new implementation object may be constructed although a connection object was given")
    # (v) the counter / lock live on the implementation object only (instance attributes set in __init__, not class level)
    for st in impl.body:
        if isinstance(st, ast.Assign):
            for t in st.targets:
                if is_name(t) and (t.id in counters or t.id in locks):
                    cx.ob("R16d", st, False, "counter/lock declared at class level: shared between unrelated connections")


def _unreduced_occurrence(expr, names):
    """Some occurrence of a captured local reaches the formatted string without
    passing through a reducing operation (%, //, slicing, min/max, &)."""
    best = (False, "the counter reaches the id only through a reducing operation (%, //, slice): ids repeat")
    for n in ast.walk(expr):
        if isinstance(n, ast.Name) and n.id in names and isinstance(n.ctx, ast.Load):
            red = None
            a = n
            p = parent(a)
            while p is not None and a is not expr:
                if isinstance(p, ast.BinOp) and isinstance(p.op, (ast.Mod, ast.FloorDiv, ast.BitAnd, ast.RShift, ast.Div)) and p.left is a:
                    red = p
                    break
                if isinstance(p, ast.BinOp) and isinstance(p.op, ast.Mod) and p.right is a and not const(p.left, str):
                    red = p
                    break
                if isinstance(p, ast.Subscript):
                    red = p
                    break
                if isinstance(p, ast.Call) and call_name(p) in ("min", "max", "abs", "bool", "hash", "len"):
                    red = p
                    break
                if isinstance(p, ast.Compare):
                    red = p
                    break
                if isinstance(p, ast.IfExp) and p.test is a:
                    red = p
                    break
                a, p = p, parent(p)
            if red is None:
                # format spec must not truncate: for ints no python format spec truncates digits
                return True, f"'{n.id}' is formatted un-reduced into the id (distinct numbers, distinct ids)"
    return best
