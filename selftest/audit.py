"""Sensitivity audit: apply the mutant catalogue to a scratch copy of the
current tree and run the property's rules on it.

* a `fire` mutant breaks the property (still compiles): the check must exit 1;
* a `silent` twin preserves behaviour: the check must exit 0.

Used by `make selftest` (fails on any mismatch) and, informationally, by the
thorough tier (recorded in evidence, never changes the exit code: on a tree
edited by somebody else a locator may legitimately not apply).
Scratch copies live under tempfile.mkdtemp() and are removed before return.
"""
import importlib
import io
import contextlib
import os
import shutil
import sys
import tempfile

HERE = os.path.dirname(os.path.abspath(__file__))
VERIF = os.path.dirname(HERE)
if VERIF not in sys.path:
    sys.path.insert(0, VERIF)

PROPS = ["C01", "C02", "C03", "C04", "C06", "C07", "C08", "C09", "C10", "C11", "C12", "C13", "C14", "C15", "C16",
         "C17", "C18", "C19", "C20"]


def catalogue(prop):
    try:
        mod = importlib.import_module(f"selftest.catalog.{prop.lower()}")
    except ModuleNotFoundError:
        return []
    return list(mod.MUTANTS)


def _apply(root, edits):
    """edits: list of (relpath, old, new[, count]).  Returns None or the reason it does not apply."""
    for e in edits:
        rel, old, new = e[0], e[1], e[2]
        cnt = e[3] if len(e) > 3 else 1
        p = os.path.join(root, rel)
        if not os.path.exists(p):
            return f"{rel} missing"
        s = open(p, encoding="utf-8").read()
        if s.count(old) != cnt:
            return f"locator matches {s.count(old)} time(s) in {rel}, expected {cnt}"
        open(p, "w", encoding="utf-8").write(s.replace(old, new))
    return None


def run_one(args):
    prop, mut, src_root = args
    import ast
    tmp = tempfile.mkdtemp(prefix="akverif_")
    try:
        for d in ("ak", "bin"):
            if os.path.isdir(os.path.join(src_root, d)):
                shutil.copytree(os.path.join(src_root, d), os.path.join(tmp, d), ignore=shutil.ignore_patterns("__pycache__"))
        why = _apply(tmp, mut["edits"])
        if why:
            return {"id": mut["id"], "expect": mut["expect"], "result": "not-applicable", "why": why}
        for e in mut["edits"]:
            try:
                ast.parse(open(os.path.join(tmp, e[0]), encoding="utf-8").read())
            except SyntaxError as ex:
                return {"id": mut["id"], "expect": mut["expect"], "result": "broken-mutant", "why": str(ex)}
        if os.environ.get("VERIF_AUDIT_RESPELL"):
            # stress variant: the mutated tree is mechanically respelled (tools/mech_neutral.py modes, comma separated, applied in
            # the order given) before the check sees it - the verdicts must not change
            src_ = open(os.path.join(VERIF, "tools", "mech_neutral.py")).read().rsplit("\nmain()", 1)[0]
            ns_ = {"__name__": "mech_neutral_tool", "__file__": os.path.join(VERIF, "tools", "mech_neutral.py")}
            exec(compile(src_, "mech_neutral.py", "exec"), ns_)
            for root_, _d, fs_ in os.walk(os.path.join(tmp, "ak")):
                for fn_ in fs_:
                    if fn_.endswith(".py"):
                        p_ = os.path.join(root_, fn_)
                        tree_ = ast.parse(open(p_, encoding="utf-8").read())
                        for m_ in os.environ["VERIF_AUDIT_RESPELL"].split(","):
                            tree_ = ns_["MODES"][m_]().visit(tree_)
                            ast.fix_missing_locations(tree_)
                        open(p_, "w", encoding="utf-8").write(ast.unparse(tree_) + "\n")
        if os.environ.get("VERIF_AUDIT_RENAME") == "1":
            # stress variant of the audit: every local of the mutated tree is renamed before the check sees it - the verdicts
            # must not change (the name normalisation has to find the correspondence on *changed* code too)
            src_ = open(os.path.join(VERIF, "tools", "alpha_rename.py")).read().rsplit("\nmain()", 1)[0]
            ns_ = {"__name__": "alpha_rename_tool", "__file__": os.path.join(VERIF, "tools", "alpha_rename.py")}
            exec(compile(src_, "alpha_rename.py", "exec"), ns_)
            for root_, _d, fs_ in os.walk(os.path.join(tmp, "ak")):
                for fn_ in fs_:
                    if fn_.endswith(".py"):
                        ns_["rename_file"](os.path.join(root_, fn_), "_q")
        sys.path.insert(0, VERIF)
        chk = _load_check()
        buf = io.StringIO()
        with contextlib.redirect_stdout(buf):
            code, cx, err = chk.run_property(prop, tmp, "quick", write=False)
        fired = sorted({o.rule for o in cx.obs if not o.ok})
        want = 1 if mut["expect"] == "fire" else 0
        res = "ok" if code == want else "MISMATCH"
        return {"id": mut["id"], "expect": mut["expect"], "exit": code, "result": res, "rules_fired": fired,
                "analysis_error": str(err) if err else None, "note": mut.get("note", "")}
    finally:
        shutil.rmtree(tmp, ignore_errors=True)


_CHK = None


def _load_check():
    global _CHK
    if _CHK is None:
        import importlib.machinery
        import importlib.util
        loader = importlib.machinery.SourceFileLoader("verif_check", os.path.join(VERIF, "check"))
        spec = importlib.util.spec_from_loader("verif_check", loader)
        _CHK = importlib.util.module_from_spec(spec)
        loader.exec_module(_CHK)
    return _CHK


def run_for(prop, src_root="/repo", jobs=None):
    muts = catalogue(prop)
    if not muts:
        return {"mutants_total": 0}
    import multiprocessing as mp
    jobs = jobs or min(16, len(muts))
    with mp.get_context("fork").Pool(jobs) as pool:
        results = pool.map(run_one, [(prop, m, src_root) for m in muts])
    fire = [r for r in results if r["expect"] == "fire" and r["result"] != "not-applicable"]
    silent = [r for r in results if r["expect"] == "silent" and r["result"] != "not-applicable"]
    return {
        "mutants_total": len(fire), "mutants_fired": sum(1 for r in fire if r["result"] == "ok"),
        "neutral_total": len(silent), "neutral_silent": sum(1 for r in silent if r["result"] == "ok"),
        "not_applicable": [r["id"] for r in results if r["result"] == "not-applicable"],
        "mismatches": [r for r in results if r["result"] not in ("ok", "not-applicable")],
        "details": [{k: r.get(k) for k in ("id", "expect", "exit", "result", "rules_fired")} for r in results],
    }


def _seed_one(args):
    prop, d, src_root, kind = args
    import shutil, subprocess, tempfile, importlib.util
    patch = os.path.join(HERE_VERIF, kind, d, "patch.diff")
    scratch = tempfile.mkdtemp(prefix="sa_seed_")
    try:
        subprocess.run(["cp", "-r", os.path.join(src_root, "ak"), scratch], check=True)
        if os.path.isdir(os.path.join(src_root, "bin")):
            subprocess.run(["cp", "-r", os.path.join(src_root, "bin"), scratch], check=True)
        r = subprocess.run(f"patch -p1 -s < {patch}", shell=True, cwd=scratch, capture_output=True, text=True)
        if r.returncode != 0:
            return {"id": d, "result": "patch does not apply (the tree differs from the one the change was made on)"}
        chk = _load_check()
        code, cx, err = chk.run_property(prop, scratch, "quick", write=False, quiet=True)
        return {"id": d, "exit": code, "rules_refuted": sorted({o.rule for o in cx.obs if not o.ok})[:6]}
    except Exception as e:      # informational only
        return {"id": d, "result": f"{type(e).__name__}: {e}"}
    finally:
        shutil.rmtree(scratch, ignore_errors=True)


HERE_VERIF = os.path.dirname(os.path.dirname(os.path.abspath(__file__)))


def run_seeded(prop, src_root="/repo"):
    """Re-check the stored realistic changes of this property (seeded defects must be refuted, neutral refactorings silent)."""
    import json as _json
    import multiprocessing as mp
    jobs = []
    for kind in ("seeded", "neutral"):
        base = os.path.join(HERE_VERIF, kind)
        if not os.path.isdir(base):
            continue
        for d in sorted(os.listdir(base)):
            mp_ = os.path.join(base, d, "meta.json")
            if os.path.exists(mp_) and _json.load(open(mp_)).get("property") == prop:
                jobs.append((prop, d, src_root, kind))
    if not jobs:
        return {"total": 0}
    with mp.get_context("fork").Pool(min(16, len(jobs))) as pool:
        res = pool.map(_seed_one, jobs)
    seeded = [r for r, j in zip(res, jobs) if j[3] == "seeded"]
    neutral = [r for r, j in zip(res, jobs) if j[3] == "neutral"]
    return {"seeded_total": len(seeded), "seeded_refuted": sum(1 for r in seeded if r.get("exit") == 1),
            "neutral_total": len(neutral), "neutral_silent": sum(1 for r in neutral if r.get("exit") == 0),
            "neutral_undecided": sum(1 for r in neutral if r.get("exit") == 2), "details": res}


def run_rename_probe(prop, src_root="/repo"):
    """Mechanical invariance probe: every local variable of every function of the package is renamed (suffix), the check of
    `prop` must give the verdict it gives on the tree as written.  The renamed tree lives under tempfile.mkdtemp() only."""
    import ast as _ast
    import importlib.util as _iu
    import shutil
    import subprocess
    import tempfile
    spec = _iu.spec_from_file_location("alpha_rename_tool", os.path.join(HERE_VERIF, "tools", "alpha_rename.py"))
    src = open(os.path.join(HERE_VERIF, "tools", "alpha_rename.py")).read().rsplit("\nmain()", 1)[0]
    ns = {"__name__": "alpha_rename_tool", "__file__": os.path.join(HERE_VERIF, "tools", "alpha_rename.py")}
    exec(compile(src, "alpha_rename.py", "exec"), ns)
    scratch = tempfile.mkdtemp(prefix="renprobe_")
    try:
        for d in ("ak", "bin", "tests"):
            if os.path.isdir(os.path.join(src_root, d)):
                shutil.copytree(os.path.join(src_root, d), os.path.join(scratch, d))
        n = 0
        for root, _d, fs in os.walk(os.path.join(scratch, "ak")):
            for fn in fs:
                if fn.endswith(".py"):
                    n += ns["rename_file"](os.path.join(root, fn), "_q")
        r = subprocess.run([os.path.join(HERE_VERIF, "check"), prop, "--tier", "quick", "--no-write", "--repo", scratch], capture_output=True, text=True, cwd=HERE_VERIF)
        return {"local_names_renamed": n, "exit_on_renamed_tree": r.returncode, "same_verdict_as_written": r.returncode == 0}
    finally:
        shutil.rmtree(scratch, ignore_errors=True)


def run_respelling_probes(prop, src_root="/repo", baseline_exit=0):
    """Mechanical invariance probes: behaviour-preserving rewrites of every function of the package (tools/mech_neutral.py: mirrored
    comparisons, `not (a in b)`, swapped if/else branches, else-nesting after an early exit, split / merged conjunctions,
    comprehension -> loop, loop guards, De Morgan, swapped conditional expressions, named tests) - each alone, and two compositions
    of them together with the renaming of every local (tools/stress.py); the check of `prop` must give the verdict it gives on
    the tree as written."""
    import shutil
    import subprocess
    import tempfile
    from concurrent.futures import ThreadPoolExecutor
    sys.path.insert(0, os.path.join(HERE_VERIF, "tools"))
    import stress
    modes = list(stress._load("mech_neutral.py")["MODES"])
    specs = {m: m for m in modes}
    specs["composition-1+rename"] = "flip-compare,not-in,swap-if-else,return-else,split-and,comp-to-loop,rename"
    specs["composition-2+rename"] = "guard-continue,extract-test,ifexp-swap,de-morgan,flip-compare,swap-if-else,rename"

    def one(item):
        name, spec = item
        scratch = tempfile.mkdtemp(prefix="mechprobe_")
        try:
            for d in ("ak", "bin"):
                if os.path.isdir(os.path.join(src_root, d)):
                    shutil.copytree(os.path.join(src_root, d), os.path.join(scratch, d), ignore=shutil.ignore_patterns("__pycache__"))
            stress.stress_tree(scratch, spec)
            r = subprocess.run([os.path.join(HERE_VERIF, "check"), prop, "--tier", "quick", "--no-write", "--repo", scratch], capture_output=True, text=True, cwd=HERE_VERIF)
            return name, {"rewrite": spec, "exit_on_rewritten_tree": r.returncode, "same_verdict_as_written": r.returncode == baseline_exit}
        finally:
            shutil.rmtree(scratch, ignore_errors=True)
    with ThreadPoolExecutor(max_workers=7) as ex:
        return dict(ex.map(one, specs.items()))


def main():
    props = [a.upper() for a in sys.argv[1:] if not a.startswith("-")] or PROPS
    src = os.environ.get("VERIF_REPO", "/repo")
    bad = 0
    for p in props:
        r = run_for(p, src)
        if not r.get("mutants_total") and not r.get("neutral_total"):
            print(f"{p}: no catalogue")
            continue
        print(f"{p}: fire {r['mutants_fired']}/{r['mutants_total']}  silent {r['neutral_silent']}/{r['neutral_total']}"
              f"  n/a {len(r['not_applicable'])}")
        for m in r["mismatches"]:
            bad += 1
            print(f"   MISMATCH {m['id']}: expect={m['expect']} exit={m.get('exit')} fired={m.get('rules_fired')} err={m.get('analysis_error') or m.get('why')}")
        for m in r["not_applicable"]:
            print(f"   n/a {m}")
    return 1 if bad else 0


if __name__ == "__main__":
    sys.exit(main())
