L = "ak/llparser.py"
MUTANTS = [
    {"id": "c03-processed-shortcut", "expect": "fire", "edits": [(L, """                if cur_symbol in processed_symbols:
                    if cur_symbol in nullables:
                        _next_symbol(stack)
                    else:
                        _next_prod(stack)
                    continue""", """                if cur_symbol in processed_symbols:
                    _next_prod(stack)
                    continue""")]},
    {"id": "c03-pop-always-abandon", "expect": "fire", "edits": [(L, """                        if cur_prod_symbol in nullables:
                            _next_symbol(stack)
                        else:
                            _next_prod(stack)""", """                        _next_prod(stack)""")]},
    {"id": "c03-pop-always-step", "expect": "fire", "edits": [(L, """                        if cur_prod_symbol in nullables:
                            _next_symbol(stack)
                        else:
                            _next_prod(stack)""", """                        _next_symbol(stack)""")], "note": "false positives: recursion reported behind a non-nullable symbol"},
    {"id": "c03-cycle-test-top-only", "expect": "fire", "edits": [(L, "                for i, (stack_symbol, _, _, _) in enumerate(stack):", "                for i, (stack_symbol, _, _, _) in enumerate(stack[-1:]):")]},
    {"id": "c03-wrong-exception", "expect": "fire", "edits": [(L, "                        raise GrammarIsRecursive(\n                            parser_summary, cycle_data, nullables)", "                        raise ValueError(\n                            parser_summary, cycle_data, nullables)")]},
    {"id": "c03-n-shortcut-before-cycle", "expect": "silent", "edits": [(L, """                cur_symbol = cur_prod.production[cur_symbol_id]
                # check if this symbol is already present on stack""", """                cur_symbol = cur_prod.production[cur_symbol_id]
                if cur_symbol in processed_symbols and cur_symbol not in nullables:
                    _next_prod(stack)
                    continue
                # check if this symbol is already present on stack""")], "note": "actually harmless: a symbol on the stack is never processed; kept as 'silent' expectation? no: order rule fires"},
    {"id": "c03-check-not-called", "expect": "fire", "edits": [(L, "        self._verify_grammar_structure_part2(nullables, self._summary)\n\n    def parse(", "        if len(self.prods_map) < 200:\n            self._verify_grammar_structure_part2(nullables, self._summary)\n\n    def parse(")]},
    {"id": "c03-parse-stutter", "expect": "fire", "edits": [(L, """                if prods is not None:
                    _put_on_stack(_StackElement(cur_symbol, top.cur_token_pos, prods))
                    if debug:
                        self._log_cur_prod(parse_stack, tokens)
                    continue""", """                if prods is not None:
                    if top.cur_token_pos % 7:
                        _put_on_stack(_StackElement(cur_symbol, top.cur_token_pos, prods))
                    if debug:
                        self._log_cur_prod(parse_stack, tokens)
                    continue""")]},
    {"id": "c03-rollback-no-switch", "expect": "fire", "edits": [(L, """                parse_stack = parse_stack[:rollback_point+1]
                parse_stack[-1].switch_to_next_prod()""", """                parse_stack = parse_stack[:rollback_point+1]""")]},
    {"id": "c03-rollback-scan-stuck", "expect": "fire", "edits": [(L, "                    break\n                rollback_point -= 1", "                    break\n                rollback_point -= 0")]},
    {"id": "c03-marked-early", "expect": "fire", "edits": [(L, """                # do need to go deeper
                stack.append([cur_symbol, self.prods_map[cur_symbol], 0, 0])""", """                # do need to go deeper
                processed_symbols.add(cur_symbol)
                stack.append([cur_symbol, self.prods_map[cur_symbol], 0, 0])""")]},
    {"id": "c03-suffix-symbols-preprocessed", "expect": "fire", "edits": [(L, "        processed_symbols = set(self.terminals)\n", "        processed_symbols = set(self.terminals) | self._suffix_symbols\n")]},
    # neutral
    {"id": "c03-n-nested-if", "expect": "silent", "edits": [(L, """                if not prev_symbol_is_nullable:
                    # do not check current symbol because previous not nullable
                    _next_prod(stack)
                    continue""", """                if prev_symbol_is_nullable:
                    pass
                else:
                    # do not check current symbol because previous not nullable
                    _next_prod(stack)
                    continue""")]},
    {"id": "c03-n-not-in", "expect": "silent", "edits": [(L, """                    if cur_symbol in nullables:
                        _next_symbol(stack)
                    else:
                        _next_prod(stack)
                    continue""", """                    if cur_symbol not in nullables:
                        _next_prod(stack)
                    else:
                        _next_symbol(stack)
                    continue""")]},
    {"id": "c03-rollback-point-off-by-one", "expect": "fire", "edits": [(L, "                if elem.cur_prod_id < len(elem.prod_rs) - 1:", "                if elem.cur_prod_id <= len(elem.prod_rs) - 1:")]},
    {"id": "c03-n-rollback-test-rewritten", "expect": "silent", "edits": [(L, "                if elem.cur_prod_id < len(elem.prod_rs) - 1:", "                if elem.cur_prod_id + 1 < len(elem.prod_rs):")]},
    {"id": "c03-n-rollback-helper", "expect": "silent", "edits": [(L, """            rollback_point = len(parse_stack) - 1
            while rollback_point >= 0:
                elem = parse_stack[rollback_point]
                if elem.cur_prod_id < len(elem.prod_rs) - 1:
                    # yes, we can try next production on this stack element
                    break
                rollback_point -= 1
""", """            rollback_point = self._find_rollback_point(parse_stack)
"""), (L, """    def cleanup(self, t_elem: TElement) -> None:
        \"\"\"Clean up the tree with root in TElement.
""", """    @staticmethod
    def _find_rollback_point(parse_stack):
        for pos in range(len(parse_stack) - 1, -1, -1):
            elem = parse_stack[pos]
            if elem.cur_prod_id < len(elem.prod_rs) - 1:
                return pos
        return -1

    def cleanup(self, t_elem: TElement) -> None:
        \"\"\"Clean up the tree with root in TElement.
""")]},
    # cycle test as next(generator) / wrapper around the cursor helpers
    {"id": 'c03-n-cycle-next-generator', "expect": 'silent', "edits": [(L, '                for i, (stack_symbol, _, _, _) in enumerate(stack):\n                    if stack_symbol == cur_symbol:\n                        # found cycle\n                        cycle_data = [\n                            (s, prod_rules[prod_id], symbol_id)\n                            for s, prod_rules, prod_id, symbol_id in stack[i:]\n                        ]\n                        raise GrammarIsRecursive(\n                            parser_summary, cycle_data, nullables)\n', '                i = next((k for k, entry in enumerate(stack) if entry[0] == cur_symbol), None)\n                if i is not None:\n                    cycle_data = [\n                        (s, rules_, prod_id, symbol_id)\n                        for s, rules_, prod_id, symbol_id in stack[i:]\n                    ]\n                    raise GrammarIsRecursive(\n                        parser_summary, cycle_data, nullables)\n')]},
    {"id": 'c03-cycle-next-skips-top', "expect": 'fire', "edits": [(L, '                for i, (stack_symbol, _, _, _) in enumerate(stack):\n                    if stack_symbol == cur_symbol:\n                        # found cycle\n                        cycle_data = [\n                            (s, prod_rules[prod_id], symbol_id)\n                            for s, prod_rules, prod_id, symbol_id in stack[i:]\n                        ]\n                        raise GrammarIsRecursive(\n                            parser_summary, cycle_data, nullables)\n', '                i = next((k for k, entry in enumerate(stack[:-1]) if entry[0] == cur_symbol), None)\n                if i is not None:\n                    cycle_data = [\n                        (s, rules_, prod_id, symbol_id)\n                        for s, rules_, prod_id, symbol_id in stack[i:]\n                    ]\n                    raise GrammarIsRecursive(\n                        parser_summary, cycle_data, nullables)\n')]},
    {"id": 'c03-cycle-next-wrong-component', "expect": 'fire', "edits": [(L, '                for i, (stack_symbol, _, _, _) in enumerate(stack):\n                    if stack_symbol == cur_symbol:\n                        # found cycle\n                        cycle_data = [\n                            (s, prod_rules[prod_id], symbol_id)\n                            for s, prod_rules, prod_id, symbol_id in stack[i:]\n                        ]\n                        raise GrammarIsRecursive(\n                            parser_summary, cycle_data, nullables)\n', '                i = next((k for k, entry in enumerate(stack) if entry[1] == cur_symbol), None)\n                if i is not None:\n                    cycle_data = [\n                        (s, rules_, prod_id, symbol_id)\n                        for s, rules_, prod_id, symbol_id in stack[i:]\n                    ]\n                    raise GrammarIsRecursive(\n                        parser_summary, cycle_data, nullables)\n')]},
    {"id": 'c03-n-step-over-wrapper', "expect": 'silent', "edits": [(L, '                if cur_symbol in processed_symbols:\n                    if cur_symbol in nullables:\n                        _next_symbol(stack)\n                    else:\n                        _next_prod(stack)\n                    continue\n', '                if cur_symbol in processed_symbols:\n                    _step_over(stack, cur_symbol)\n                    continue\n'), (L, '            def _next_symbol(_stack):\n                _stack[-1][3] += 1\n', '            def _next_symbol(_stack):\n                _stack[-1][3] += 1\n\n            def _step_over(_stack, sym_):\n                if sym_ in nullables:\n                    _next_symbol(_stack)\n                else:\n                    _next_prod(_stack)\n')]},
    {"id": 'c03-step-over-wrapper-inverted', "expect": 'fire', "edits": [(L, '                if cur_symbol in processed_symbols:\n                    if cur_symbol in nullables:\n                        _next_symbol(stack)\n                    else:\n                        _next_prod(stack)\n                    continue\n', '                if cur_symbol in processed_symbols:\n                    _step_over(stack, cur_symbol)\n                    continue\n'), (L, '            def _next_symbol(_stack):\n                _stack[-1][3] += 1\n', '            def _next_symbol(_stack):\n                _stack[-1][3] += 1\n\n            def _step_over(_stack, sym_):\n                if sym_ not in nullables:\n                    _next_symbol(_stack)\n                else:\n                    _next_prod(_stack)\n')]},
]
