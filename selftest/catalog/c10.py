P = "ak/ppobj.py"
C = "ak/color.py"
H = "ak/hdoc.py"
G = "ak/ghist.py"
MUTANTS = [
    # R10m: per-rendering scratch on an object that outlives the call
    {"id": "c10-service-line-on-self", "expect": "fire", "edits": [(P, "        self.records = records\n", "        self.records = records\n        self._break_line_obj = getattr(self, \"_ServiceLine\", type(\"S\", (), {}))()\n", 2),
                                                              (P, "        break_line = self._ServiceLine()\n", "        break_line = self._break_line_obj\n")]},
    {"id": "c10-n-service-line-factory", "expect": "silent", "edits": [(P, "        break_line = self._ServiceLine()\n", "        break_line = self._ServiceLine(None)\n")]},
    {"id": "c10-id-key", "expect": "fire", "edits": [(P, "        cache_key = field_palette  # need to maintain separate caches", "        cache_key = id(field_palette)  # need to maintain separate caches")]},
    {"id": "c10-second-id-cache", "expect": "fire", "edits": [(P, """    def val_to_name(self, value) -> str:
        \"\"\"Return simple string name of the value.\"\"\"
""", """    def _title_for(self, cp, value):
        k = (id(cp), value)
        if k not in self._cache_lengths:
            self._cache_lengths[k] = cp.text(str(value))
        return self._cache_lengths[k]

    def val_to_name(self, value) -> str:
        \"\"\"Return simple string name of the value.\"\"\"
""")]},
    {"id": "c10-palette-on-hcommand", "expect": "fire", "edits": [(H, "        self.dets_level = dets_level\n", "        self.dets_level = dets_level\n        self._c = self._mk_palette(None, None, None)\n")]},
    {"id": "c10-palette-on-ppobj", "expect": "fire", "edits": [(P, """        self._default_pptable_printer = _PPTableImpl(
            records,""", """        self._cp = self._mk_palette(None, False, None)
        self._default_pptable_printer = _PPTableImpl(
            records,""")]},
    {"id": "c10-no-cache-reset", "expect": "fire", "edits": [(C, """        if any(synt_id not in self.syntax_map for synt_id in new_items):
            self._cache = {}
""", "")]},
    {"id": "c10-nocolor-store-in-conf", "expect": "fire", "edits": [(C, """        if no_color:
            cls._PALETTE_NO_COLOR = palette
        else:
            colors_conf.put_into_cache(cls, palette)""", """        colors_conf.put_into_cache(cls, palette)""")]},
    {"id": "c10-lookup-ignores-nocolor", "expect": "fire", "edits": [(C, """            cls.register_in_colors_conf(colors_conf)
            return cls._PALETTE_NO_COLOR
        else:""", """            cls.register_in_colors_conf(colors_conf)
            return cls._PALETTE_NO_COLOR or colors_conf.get_cached_obj(cls)
        else:""")]},
    {"id": "c10-shared-nocolor-slot", "expect": "fire", "edits": [(C, "        classdict['_PALETTE_NO_COLOR'] = None\n", "")]},
    {"id": "c10-yield-list", "expect": "fire", "edits": [(P, "            yield CHText.make(self._make_table_line(title_line_data, sep))", "            yield self._make_table_line(title_line_data, sep)")]},
    {"id": "c10-yield-chunk-ghist", "expect": "fire", "edits": [(G, '            yield CHText(_c.text(""))\n            yield CHText(\n                _c.text("==== repo "),', '            yield _c.text("")\n            yield CHText(\n                _c.text("==== repo "),')]},
    {"id": "c10-lazy-no-guard", "expect": "fire", "edits": [(P, """    def __len__(self):
        if self._ch_text is None:
            self._ch_text = self.ppobj.make_ch_text(self.cp)
        return len(self._ch_text)""", """    def __len__(self):
        return len(self._ch_text)""")]},
    {"id": "c10-iter-from-memo", "expect": "fire", "edits": [(P, "        return self.ppobj.gen_ch_lines(self.cp)\n\n\n#########################\n# generic", "        return iter(str(self).split('\\n'))\n\n\n#########################\n# generic")]},
    {"id": "c10-make-ch-text-strips", "expect": "fire", "edits": [(P, """    def make_ch_text(self, cp):
        return CHText("\\n").join(self.gen_ch_lines(cp))""", """    def make_ch_text(self, cp):
        return CHText("\\n").join(l for l in self.gen_ch_lines(cp) if len(l))""")]},
    {"id": "c10-branch-on-nocolor", "expect": "fire", "edits": [(P, """        cp = self._mk_palette(palette, no_color, colors_conf)

        if not self.repr_structure.col_widths_finalized():""", """        cp = self._mk_palette(palette, no_color, colors_conf)
        if no_color:
            self.repr_structure.detect_actual_columns_widths([record])

        if not self.repr_structure.col_widths_finalized():""")]},
    {"id": "c10-len-of-str-chunk", "expect": "fire", "edits": [(P, "        return [color_fmt(str(value))], align\n", "        pad = ' ' * max(0, 3 - len(str(cp.text(str(value)))))\n        return [color_fmt(str(value) + pad)], align\n")]},
    {"id": "c10-prefix-read-in-ppobj", "expect": "fire", "edits": [(P, "        filler_len = width - CHText.calc_chunks_len(ch_chunks)\n", "        filler_len = width - sum(len(c.text) + (1 if c.c_prefix else 0) for c in ch_chunks)\n")]},
    {"id": "c10-sync-not-on-set", "expect": "fire", "edits": [(C, "    for palette in _GSYNCED_PALETTES.values():\n        palette._sync_with_config(colors_config)\n", "")]},
    {"id": "c10-memoised-cell-renderer", "expect": "fire", "edits": [(P, "from collections import defaultdict\n", "from collections import defaultdict\nfrom functools import lru_cache\n"), (P, "    @staticmethod\n    def is_keyword_value(value):", "    @staticmethod\n    @lru_cache(maxsize=256)\n    def is_keyword_value(value):")],
     "note": "1 == True == 1.0 hash-equal: the cached answer for True is returned for 1"},
    {"id": "c10-fit-mutates-argument", "expect": "fire", "edits": [(P, "            result = [filler, ]\n            result.extend(ch_chunks)\n            return result", "            ch_chunks.insert(0, filler)\n            return ch_chunks")]},
    # neutral
    {"id": "c10-line-buffer-cleared-in-place", "expect": "fire", "edits": [(P, "                yield CHText.make(line_chunks)\n                line_chunks = []", "                yield CHText.make(line_chunks)\n                line_chunks.clear()")]},
    {"id": "c10-resize-cuts-argument-in-place", "expect": "fire", "edits": [(C, "                result.append(item.clone(item.text[:remaining_len]))\n                remaining_len = 0", "                result.append(item.clone(item.text[:remaining_len]))\n                remaining_len = 0\n                del chunks[len(result):]")]},
    {"id": "c10-n-weakkey", "expect": "silent", "edits": [(P, "        self._cache = {}\n\n        self._cache_lengths", "        import weakref\n        self._cache = weakref.WeakKeyDictionary()\n\n        self._cache_lengths")]},
    {"id": "c10-n-local-palette-var", "expect": "silent", "edits": [(P, """        return CHTextResult(
            self,
            self._mk_palette(palette, no_color, colors_conf))""", """        cp = self._mk_palette(palette, no_color, colors_conf)
        return CHTextResult(self, cp)""")]},
    {"id": "c10-n-chtext-ctor", "expect": "silent", "edits": [(P, "            yield CHText.make(self._make_table_line(title_line_data, sep))", "            yield CHText(*self._make_table_line(title_line_data, sep))")]},
    # R10l: per-palette cache entries taken from a persistent template
    {"id": "c10-enum-cache-shallow-template", "expect": "fire", "edits": [(P, "            by_fmt_cache = self._cache[cache_key] = {\n                fmt_modifier: {}\n                for fmt_modifier in self._FMT_MODIFIERS\n            }\n            # None and 'full' format modifiers will refer to the same cached vals\n            by_fmt_cache[None] = by_fmt_cache['full']\n            self._cache[cache_key] = by_fmt_cache\n", "            by_fmt_cache = self._cache[cache_key] = dict(self._tpl)\n"),
        (P, "        # {syntax_names_id: {fmt_modifier: {enum_val: (text, align)}}}\n        self._cache = {}\n", "        self._cache = {}\n        self._tpl = {m: {} for m in self._FMT_MODIFIERS}\n        self._tpl[None] = self._tpl['full']\n")]},
    {"id": "c10-n-enum-cache-template-rebuilt", "expect": "silent", "edits": [(P, "            by_fmt_cache = self._cache[cache_key] = {\n                fmt_modifier: {}\n                for fmt_modifier in self._FMT_MODIFIERS\n            }\n            # None and 'full' format modifiers will refer to the same cached vals\n            by_fmt_cache[None] = by_fmt_cache['full']\n            self._cache[cache_key] = by_fmt_cache\n", "            by_fmt_cache = self._cache[cache_key] = {m: dict(v) for m, v in self._tpl.items()}\n            by_fmt_cache[None] = by_fmt_cache['full']\n"),
        (P, "        # {syntax_names_id: {fmt_modifier: {enum_val: (text, align)}}}\n        self._cache = {}\n", "        self._cache = {}\n        self._tpl = {m: {} for m in self._FMT_MODIFIERS}\n")]},
    # R10n: products of a palette received as a parameter kept on the long-lived printer
    {"id": "c10-indent-chunk-memo-on-printer", "expect": "fire", "edits": [(P, "            yield cp.text(\"{\")\n            prefix = cp.text(\" \" * (offset + 2))\n", "            yield cp.text(\"{\")\n            prefix = self.__dict__.setdefault('_ind', {}).get(offset)\n            if prefix is None:\n                prefix = self._ind[offset] = cp.text(\" \" * (offset + 2))\n")],
     "note": "the chunk carries the escape prefix of the palette of the first call; no_color renderings get it later"},
    {"id": "c10-n-indent-string-memo-on-printer", "expect": "silent", "edits": [(P, "            yield cp.text(\"{\")\n            prefix = cp.text(\" \" * (offset + 2))\n", "            yield cp.text(\"{\")\n            spaces = self.__dict__.setdefault('_ind', {}).get(offset)\n            if spaces is None:\n                spaces = self._ind[offset] = \" \" * (offset + 2)\n            prefix = cp.text(spaces)\n")],
     "note": "only the palette-independent string is memoised"},
]
