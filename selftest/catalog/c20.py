F = "ak/short_uuid.py"
MUTANTS = [
    # validation by a regular expression instead of the length test (decided on the language the call accepts)
    {"id": "c20-n-regex-fullmatch", "expect": "silent", "edits": [(F, "import uuid\n", "import re\nimport uuid\n"), (F, "len(uuid_short_str) != _SHORT_GUID_LEN:", "not re.fullmatch('[' + ''.join(_ALPHABET) + ']{22}', uuid_short_str):")],
},
    {"id": "c20-n-regex-match-Z", "expect": "silent", "edits": [(F, "import uuid\n", "import re\nimport uuid\n_SHORT_RE = re.compile('[23456789ABCDEFGHJKLMNPQRSTUVWXYZabcdefghijkmnopqrstuvwxyz]{%d}\\\\Z' % 22)\n"), (F, "len(uuid_short_str) != _SHORT_GUID_LEN:", "not _SHORT_RE.match(uuid_short_str):")]},
    {"id": "c20-regex-match-dollar", "expect": "fire", "edits": [(F, "import uuid\n", "import re\nimport uuid\n_SHORT_RE = re.compile('[23456789ABCDEFGHJKLMNPQRSTUVWXYZabcdefghijkmnopqrstuvwxyz]{%d}$' % 22)\n"), (F, "len(uuid_short_str) != _SHORT_GUID_LEN:", "not _SHORT_RE.match(uuid_short_str):")]},
    {"id": "c20-regex-match-no-anchor", "expect": "fire", "edits": [(F, "import uuid\n", "import re\nimport uuid\n_SHORT_RE = re.compile('[23456789ABCDEFGHJKLMNPQRSTUVWXYZabcdefghijkmnopqrstuvwxyz]{22}')\n"), (F, "len(uuid_short_str) != _SHORT_GUID_LEN:", "not _SHORT_RE.match(uuid_short_str):")]},
    {"id": "c20-n-regex-wider-class", "expect": "silent", "edits": [(F, "import uuid\n", "import re\nimport uuid\n_SHORT_RE = re.compile('[0-9A-Za-z]{22}')\n"), (F, "len(uuid_short_str) != _SHORT_GUID_LEN:", "not _SHORT_RE.fullmatch(uuid_short_str):")],
     "note": "0, 1, I, O, l are outside the alphabet: the look-up raises KeyError, which the handler turns into ValueError - the property holds"},
    {"id": "c20-dup-letter", "expect": "fire", "edits": [(F, '"abcdefghijkmnopqrstuvwxyz"', '"abcdefghijkmnopqrstuvwxya"')]},
    {"id": "c20-56-letters", "expect": "fire", "edits": [(F, '"abcdefghijkmnopqrstuvwxyz"', '"abcdefghijkmnopqrstuvwxy"')]},
    {"id": "c20-len-21", "expect": "fire", "edits": [(F, "_SHORT_GUID_LEN = 22", "_SHORT_GUID_LEN = 21")]},
    {"id": "c20-msd-encoder", "expect": "fire", "edits": [(F, "        out += _ALPHABET[digit]\n", "        out = _ALPHABET[digit] + out\n")]},
    {"id": "c20-forward-decoder", "expect": "fire", "edits": [(F, "for char in string[::-1]:", "for char in string:")]},
    {"id": "c20-no-keyerror", "expect": "fire", "edits": [(F, "except (ValueError, KeyError) as err:", "except ValueError as err:")]},
    {"id": "c20-no-len-check", "expect": "fire", "edits": [(F, "if not isinstance(uuid_short_str, str) or len(uuid_short_str) != _SHORT_GUID_LEN:", "if not isinstance(uuid_short_str, str):")]},
    {"id": "c20-len-check-le", "expect": "fire", "edits": [(F, "len(uuid_short_str) != _SHORT_GUID_LEN:", "len(uuid_short_str) > _SHORT_GUID_LEN:")]},
    {"id": "c20-mask-overflow", "expect": "fire", "edits": [(F, "uuid_obj = uuid.UUID(int=uuid_number)", "uuid_obj = uuid.UUID(int=uuid_number % (1 << 128))")]},
    {"id": "c20-pad-front", "expect": "fire", "edits": [(F, "    out += _ALPHABET[0] * remainder_len\n", "    out = _ALPHABET[0] * remainder_len + out\n")]},
    {"id": "c20-pad-one", "expect": "fire", "edits": [(F, "_ALPHABET[0] * remainder_len", "_ALPHABET[1] * remainder_len")]},
    {"id": "c20-no-pad", "expect": "fire", "edits": [(F, "    out += _ALPHABET[0] * remainder_len\n", "")]},
    {"id": "c20-base-58", "expect": "fire", "edits": [(F, "number, digit = divmod(number, alpha_len)", "number, digit = divmod(number, alpha_len + 1)")]},
    {"id": "c20-loop-cond", "expect": "fire", "edits": [(F, "    while number:\n", "    while number >= alpha_len:\n")]},
    {"id": "c20-short-first", "expect": "fire", "edits": [(F, """    try:
        uuid_obj = uuid.UUID(uuid_str)
        return uuid_obj
    except ValueError:
        pass

    return uuid_from_short_str(uuid_str)""", """    try:
        return uuid_from_short_str(uuid_str)
    except ValueError:
        pass

    return uuid.UUID(uuid_str)""")]},
    {"id": "c20-handler-typeerror", "expect": "fire", "edits": [(F, """    except (ValueError, KeyError) as err:
        raise ValueError(""", """    except (ValueError, KeyError) as err:
        raise TypeError(""")]},
    {"id": "c20-index-shifted", "expect": "fire", "edits": [(F, "(char, pos) for pos, char in enumerate(_ALPHABET))", "(char, pos) for pos, char in enumerate(_ALPHABET, 1))")]},
    {"id": "c20-two-groups-unpadded", "expect": "fire", "edits": [(F, "    while number:\n        number, digit = divmod(number, alpha_len)\n        out += _ALPHABET[digit]\n", "    high, low = divmod(number, alpha_len ** 11)\n    for chunk in (low, high):\n        while chunk:\n            chunk, digit = divmod(chunk, alpha_len)\n            out += _ALPHABET[digit]\n")]},
    # neutral twins
    {"id": "c20-n-mod-floordiv", "expect": "silent", "edits": [(F, "        number, digit = divmod(number, alpha_len)\n", "        digit = number % alpha_len\n        number //= alpha_len\n")]},
    {"id": "c20-n-reversed", "expect": "silent", "edits": [(F, "for char in string[::-1]:", "for char in reversed(string):")]},
    {"id": "c20-n-dictcomp", "expect": "silent", "edits": [(F, """_INDEX_ALPHABET = dict(
    (char, pos) for pos, char in enumerate(_ALPHABET))""", "_INDEX_ALPHABET = {char: pos for pos, char in enumerate(_ALPHABET)}")]},
    {"id": "c20-n-catch-lookup", "expect": "silent", "edits": [(F, "except (ValueError, KeyError) as err:", "except (ValueError, LookupError) as err:")]},
    {"id": "c20-n-const-base", "expect": "silent", "edits": [(F, "    alpha_len = len(_ALPHABET)\n    for char", "    alpha_len = 57\n    for char")]},
    {"id": "c20-n-while-gt0", "expect": "silent", "edits": [(F, "    while number:\n", "    while number > 0:\n")]},
    {"id": "c20-n-split-guard", "expect": "silent", "edits": [(F, """    if not isinstance(uuid_short_str, str) or len(uuid_short_str) != _SHORT_GUID_LEN:
        raise ValueError(f"'{uuid_to_short_str}' is not a valid uuid short string")
""", """    if not isinstance(uuid_short_str, str):
        raise ValueError("not a string")
    if len(uuid_short_str) != _SHORT_GUID_LEN:
        raise ValueError(f"'{uuid_short_str}' is not a valid uuid short string")
""")]},
    # other routes from the decoded number to the UUID (R20d)
    {"id": "c20-n-explicit-range-then-bytes", "expect": "silent", "edits": [(F, "        uuid_obj = uuid.UUID(int=uuid_number)\n", """        if uuid_number >= 2 ** 128:
            raise ValueError("too big")
        uuid_obj = uuid.UUID(bytes=uuid_number.to_bytes(16, 'big'))
""")]},
    {"id": "c20-n-ctor-helper", "expect": "silent", "edits": [(F, "        uuid_obj = uuid.UUID(int=uuid_number)\n", "        uuid_obj = _mk_uuid(uuid_number)\n"),
        (F, "def uuid_to_short_str(uuid_obj):", "def _mk_uuid(number):\n    return uuid.UUID(int=number)\n\n\ndef uuid_to_short_str(uuid_obj):")]},
    {"id": "c20-masked-helper", "expect": "fire", "edits": [(F, "        uuid_obj = uuid.UUID(int=uuid_number)\n", "        uuid_obj = _mk_uuid(uuid_number)\n"),
        (F, "def uuid_to_short_str(uuid_obj):", "def _mk_uuid(number):\n    return uuid.UUID(int=number & ((1 << 128) - 1))\n\n\ndef uuid_to_short_str(uuid_obj):")]},
    {"id": "c20-to-bytes-overflow-uncaught", "expect": "fire", "edits": [(F, "        uuid_obj = uuid.UUID(int=uuid_number)\n", "        uuid_obj = uuid.UUID(bytes=uuid_number.to_bytes(16, 'big'))\n")]},
    {"id": "c20-n-to-bytes-overflow-caught", "expect": "silent", "edits": [(F, "        uuid_obj = uuid.UUID(int=uuid_number)\n    except (ValueError, KeyError) as err:", "        uuid_obj = uuid.UUID(bytes=uuid_number.to_bytes(16, 'big'))\n    except (ValueError, KeyError, OverflowError) as err:")]},
    # encoder as a list of characters / ljust; decoder with a temporary; predicate and exception helpers
    {"id": "c20-n-list-join-ljust", "expect": "silent", "edits": [(F, '    out = ""\n    alpha_len = len(_ALPHABET)\n    while number:\n        number, digit = divmod(number, alpha_len)\n        out += _ALPHABET[digit]\n    remainder_len = _SHORT_GUID_LEN - len(out)\n    out += _ALPHABET[0] * remainder_len\n    return out\n', '    base = len(_ALPHABET)\n    chars = []\n    while number:\n        number, digit = divmod(number, base)\n        chars.append(_ALPHABET[digit])\n    return "".join(chars).ljust(_SHORT_GUID_LEN, _ALPHABET[0])\n')]},
    {"id": "c20-n-list-join-plus-padding", "expect": "silent", "edits": [(F, '    out = ""\n    alpha_len = len(_ALPHABET)\n    while number:\n        number, digit = divmod(number, alpha_len)\n        out += _ALPHABET[digit]\n    remainder_len = _SHORT_GUID_LEN - len(out)\n    out += _ALPHABET[0] * remainder_len\n    return out\n', '    base = len(_ALPHABET)\n    digits = []\n    while number:\n        number, digit = divmod(number, base)\n        digits.append(_ALPHABET[digit])\n    padding = _ALPHABET[0] * (_SHORT_GUID_LEN - len(digits))\n    return "".join(digits) + padding\n')]},
    {"id": "c20-list-join-rjust", "expect": "fire", "edits": [(F, '    out = ""\n    alpha_len = len(_ALPHABET)\n    while number:\n        number, digit = divmod(number, alpha_len)\n        out += _ALPHABET[digit]\n    remainder_len = _SHORT_GUID_LEN - len(out)\n    out += _ALPHABET[0] * remainder_len\n    return out\n', '    base = len(_ALPHABET)\n    chars = []\n    while number:\n        number, digit = divmod(number, base)\n        chars.append(_ALPHABET[digit])\n    return "".join(chars).rjust(_SHORT_GUID_LEN, _ALPHABET[0])\n')]},
    {"id": "c20-list-join-pad-by-list-len-plus-one", "expect": "fire", "edits": [(F, '    out = ""\n    alpha_len = len(_ALPHABET)\n    while number:\n        number, digit = divmod(number, alpha_len)\n        out += _ALPHABET[digit]\n    remainder_len = _SHORT_GUID_LEN - len(out)\n    out += _ALPHABET[0] * remainder_len\n    return out\n', '    base = len(_ALPHABET)\n    digits = []\n    while number:\n        number, digit = divmod(number, base)\n        digits.append(_ALPHABET[digit])\n    padding = _ALPHABET[0] * (_SHORT_GUID_LEN - len(digits) + 1)\n    return "".join(digits) + padding\n')]},
    {"id": "c20-n-insert-front-rjust", "expect": "fire", "edits": [(F, '    out = ""\n    alpha_len = len(_ALPHABET)\n    while number:\n        number, digit = divmod(number, alpha_len)\n        out += _ALPHABET[digit]\n    remainder_len = _SHORT_GUID_LEN - len(out)\n    out += _ALPHABET[0] * remainder_len\n    return out\n', '    base = len(_ALPHABET)\n    chars = []\n    while number:\n        number, digit = divmod(number, base)\n        chars.insert(0, _ALPHABET[digit])\n    return "".join(chars).rjust(_SHORT_GUID_LEN, _ALPHABET[0])\n')], "note": "MSD-first encoder with an LSD-first decoder: digit order disagreement"},
    {"id": "c20-n-decoder-temp", "expect": "silent", "edits": [(F, "        number = number * alpha_len + _INDEX_ALPHABET[char]\n", "        digit = _INDEX_ALPHABET[char]\n        number = number * alpha_len + digit\n")]},
    {"id": "c20-decoder-temp-wrong-map", "expect": "fire", "edits": [(F, "        number = number * alpha_len + _INDEX_ALPHABET[char]\n", "        digit = _INDEX_ALPHABET.get(char, 0)\n        number = number * alpha_len + digit\n")]},
    {"id": "c20-n-predicate-and-factory", "expect": "silent", "edits": [(F, """    if not isinstance(uuid_short_str, str) or len(uuid_short_str) != _SHORT_GUID_LEN:
        raise ValueError(f"'{uuid_to_short_str}' is not a valid uuid short string")
""", """    if not _looks_ok(uuid_short_str):
        raise _bad()
"""), (F, "def uuid_to_short_str(uuid_obj):", "def _looks_ok(v):\n    return isinstance(v, str) and len(v) == _SHORT_GUID_LEN\n\n\ndef _bad():\n    return ValueError('not a short uuid')\n\n\ndef uuid_to_short_str(uuid_obj):")]},
    {"id": "c20-predicate-without-len", "expect": "fire", "edits": [(F, """    if not isinstance(uuid_short_str, str) or len(uuid_short_str) != _SHORT_GUID_LEN:
        raise ValueError(f"'{uuid_to_short_str}' is not a valid uuid short string")
""", """    if not _looks_ok(uuid_short_str):
        raise _bad()
"""), (F, "def uuid_to_short_str(uuid_obj):", "def _looks_ok(v):\n    return isinstance(v, str) and len(v) <= _SHORT_GUID_LEN\n\n\ndef _bad():\n    return ValueError('not a short uuid')\n\n\ndef uuid_to_short_str(uuid_obj):")]},
    {"id": "c20-factory-typeerror", "expect": "fire", "edits": [(F, """    except (ValueError, KeyError) as err:
        raise ValueError(f"'{uuid_to_short_str}' is not a valid uuid short string") from err
""", """    except (ValueError, KeyError) as err:
        raise _bad() from err
"""), (F, "def uuid_to_short_str(uuid_obj):", "def _bad():\n    return TypeError('not a short uuid')\n\n\ndef uuid_to_short_str(uuid_obj):")]},
    # the digit loop as a generator helper
    {"id": 'c20-n-generator-digits', "expect": 'silent', "edits": [(F, '    out = ""\n    alpha_len = len(_ALPHABET)\n    while number:\n        number, digit = divmod(number, alpha_len)\n        out += _ALPHABET[digit]\n    remainder_len = _SHORT_GUID_LEN - len(out)\n    out += _ALPHABET[0] * remainder_len\n    return out\n', '    out = "".join(_ALPHABET[digit] for digit in _iter_digits(number))\n    return out.ljust(_SHORT_GUID_LEN, _ALPHABET[0])\n\n\ndef _iter_digits(number):\n    base = len(_ALPHABET)\n    while number:\n        number, digit = divmod(number, base)\n        yield digit\n')]},
    {"id": 'c20-generator-digits-rjust', "expect": 'fire', "edits": [(F, '    out = ""\n    alpha_len = len(_ALPHABET)\n    while number:\n        number, digit = divmod(number, alpha_len)\n        out += _ALPHABET[digit]\n    remainder_len = _SHORT_GUID_LEN - len(out)\n    out += _ALPHABET[0] * remainder_len\n    return out\n', '    out = "".join(_ALPHABET[digit] for digit in _iter_digits(number))\n    return out.rjust(_SHORT_GUID_LEN, _ALPHABET[0])\n\n\ndef _iter_digits(number):\n    base = len(_ALPHABET)\n    while number:\n        number, digit = divmod(number, base)\n        yield digit\n')]},
    {"id": 'c20-generator-digits-reversed', "expect": 'fire', "edits": [(F, '    out = ""\n    alpha_len = len(_ALPHABET)\n    while number:\n        number, digit = divmod(number, alpha_len)\n        out += _ALPHABET[digit]\n    remainder_len = _SHORT_GUID_LEN - len(out)\n    out += _ALPHABET[0] * remainder_len\n    return out\n', '    out = "".join(_ALPHABET[digit] for digit in reversed(list(_iter_digits(number))))\n    return out.ljust(_SHORT_GUID_LEN, _ALPHABET[0])\n\n\ndef _iter_digits(number):\n    base = len(_ALPHABET)\n    while number:\n        number, digit = divmod(number, base)\n        yield digit\n')]},
    {"id": 'c20-generator-base-58', "expect": 'fire', "edits": [(F, '    out = ""\n    alpha_len = len(_ALPHABET)\n    while number:\n        number, digit = divmod(number, alpha_len)\n        out += _ALPHABET[digit]\n    remainder_len = _SHORT_GUID_LEN - len(out)\n    out += _ALPHABET[0] * remainder_len\n    return out\n', '    out = "".join(_ALPHABET[digit] for digit in _iter_digits(number))\n    return out.ljust(_SHORT_GUID_LEN, _ALPHABET[0])\n\n\ndef _iter_digits(number):\n    base = len(_ALPHABET) + 1\n    while number:\n        number, digit = divmod(number, base)\n        yield digit\n')]},
]
