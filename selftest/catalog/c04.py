L = "ak/llparser.py"
MUTANTS = [
    {"id": "c04-ordinary-carried-start", "expect": "fire", "edits": [(L, """                        if prev_end_pos.coords != (line_id, col + 1):
                            prev_end_pos = SrcPos(src_name, line_id, col + 1)
                        new_end_pos = SrcPos(src_name, line_id, match.end() + 1)""", """                        new_end_pos = SrcPos(src_name, line_id, match.end() + 1)""")]},
    {"id": "c04-span-start-at-close", "expect": "fire", "edits": [(L, """                        yield _Token(
                            token_name,
                            value,
                            cur_span_start_pos, new_end_pos,
                        )""", """                        yield _Token(
                            token_name,
                            value,
                            prev_end_pos, new_end_pos,
                        )""")]},
    {"id": "c04-refine-column-only", "expect": "fire", "edits": [(L, """                        if prev_end_pos.coords != (line_id, col + 1):
                            prev_end_pos = SrcPos(src_name, line_id, col + 1)
                        new_end_pos = SrcPos(src_name, line_id, match.end() + 1)""", """                        if prev_end_pos.col != col + 1:
                            prev_end_pos = SrcPos(src_name, line_id, col + 1)
                        new_end_pos = SrcPos(src_name, line_id, match.end() + 1)""")],
     "note": "same column on a previous line keeps the stale line"},
    {"id": "c04-end-without-plus-one", "expect": "fire", "edits": [(L, "                        new_end_pos = SrcPos(src_name, line_id, match.end() + 1)\n                        yield _Token(\n                            token_name,\n                            value,\n                            prev_end_pos, new_end_pos,", "                        new_end_pos = SrcPos(src_name, line_id, match.end())\n                        yield _Token(\n                            token_name,\n                            value,\n                            prev_end_pos, new_end_pos,")]},
    {"id": "c04-lexerr-prev-line", "expect": "fire", "edits": [(L, "                        raise LexicalError(SrcPos(src_name, line_id, col), text_line)", "                        raise LexicalError(prev_end_pos, text_line)")]},
    {"id": "c04-empty-node-prev-token-end", "expect": "fire", "edits": [(L, "                    cur_src_pos = tokens[top.cur_token_pos].start_pos", "                    cur_src_pos = tokens[max(0, top.cur_token_pos - 1)].end_pos")]},
    {"id": "c04-inner-end-first-child", "expect": "fire", "edits": [(L, "                self.end_pos = self.value[-1].end_pos", "                self.end_pos = self.value[0].end_pos")]},
    {"id": "c04-leaf-end-is-start", "expect": "fire", "edits": [(L, "                            start_pos=next_token.start_pos,\n                            end_pos=next_token.end_pos,", "                            start_pos=next_token.start_pos,\n                            end_pos=next_token.start_pos,")]},
    {"id": "c04-lines-from-zero", "expect": "fire", "edits": [(L, "            enumereted_lines = enumerate(text, start=1)", "            enumereted_lines = enumerate(text)")]},
    {"id": "c04-no-carry", "expect": "fire", "edits": [(L, """                            prev_end_pos, new_end_pos,
                        )
                        prev_end_pos = new_end_pos
                    col = match.end()""", """                            prev_end_pos, new_end_pos,
                        )
                    col = match.end()""")], "note": "end-of-input token then uses a stale position"},
    {"id": "c04-splitlines-tokenizer-only", "expect": "fire", "edits": [(L, "                (t.rstrip() for t in text.split('\\n')),", "                (t.rstrip() for t in text.splitlines()),")]},
    {"id": "c04-strip-lines", "expect": "fire", "edits": [(L, "                (t.rstrip() for t in text.split('\\n')),", "                (t.strip() for t in text.split('\\n')),")]},
    # neutral
    {"id": "c04-n-fresh-start", "expect": "silent", "edits": [(L, """                        if prev_end_pos.coords != (line_id, col + 1):
                            prev_end_pos = SrcPos(src_name, line_id, col + 1)
                        new_end_pos = SrcPos(src_name, line_id, match.end() + 1)
                        yield _Token(
                            token_name,
                            value,
                            prev_end_pos, new_end_pos,
                        )""", """                        start_pos = prev_end_pos if prev_end_pos.coords == (line_id, col + 1) else SrcPos(src_name, line_id, col + 1)
                        new_end_pos = SrcPos(src_name, line_id, match.end() + 1)
                        yield _Token(
                            token_name,
                            value,
                            start_pos, new_end_pos,
                        )""")]},
    {"id": "c04-n-rename", "expect": "silent", "edits": [(L, "cur_span_start_pos", "span_opened_at", 3)]},
    {"id": "c04-orig-text-cuts-callers-list", "expect": "fire", "edits": [(L, "            assert end_c <= len(lines[end_l])\n            result_lines.append(lines[end_l][:end_c])", "            assert end_c <= len(lines[end_l])\n            lines[end_l] = lines[end_l][:end_c]\n            result_lines.append(lines[end_l])")]},
    {"id": "c04-n-orig-text-copies-list", "expect": "silent", "edits": [(L, "            # the text is already a list of strings\n            lines = text", "            # the text is already a list of strings\n            lines = list(text)")]},
    # R04c on the inlined parse, names resolved by reaching definitions
    {"id": "c04-empty-node-at-token-end", "expect": "fire", "edits": [(L, "                    cur_src_pos = tokens[top.cur_token_pos].start_pos\n", "                    cur_src_pos = tokens[top.cur_token_pos].end_pos\n")]},
    {"id": "c04-empty-node-at-previous-token", "expect": "fire", "edits": [(L, "                    cur_src_pos = tokens[top.cur_token_pos].start_pos\n", "                    cur_src_pos = tokens[top.cur_token_pos - 1].start_pos\n")]},
    {"id": "c04-empty-span-for-all-nodes", "expect": "fire", "edits": [(L, "                if len(new_elem_value) == 0:\n", "                if len(new_elem_value) >= 0:\n")]},
    {"id": "c04-n-empty-test-truthiness", "expect": "silent", "edits": [(L, "                if len(new_elem_value) == 0:\n", "                if not new_elem_value:\n")]},
]
